(* C17 — pinned statements about the model of the transaction engine, instantiated with the facts the
   translator reads off tx.rs / kml/mod.rs / kml/clauses.rs / store/space.rs (gen/Gen_Nexus.v). *)
From Coq Require Import List ZArith Bool String.
From Verif Require Import Nexus.Model Nexus.Tx Nexus.TxProofs Nexus.TxProofs2 gen.Gen_Nexus.
Import ListNotations.
Open Scope Z_scope.

(* the engine as the source has it now *)
Definition gen_flags : flags :=
  mkF plan_error_aborts commit_refusal_discards_shells dry_run_discards_shells ensure_resolves_staged
      staged_lookup_walks_staging_map.

(* The model transcribes the code that exists: the shape facts it relies on, re-extracted on every run. *)
Theorem C17_generated_engine_shape :
  plan_passes = 3
  /\ plan_pass_table = [("CreateConcept"%string, 0); ("UpsertConcept"%string, 1); ("EnsureProposition"%string, 1)]
  /\ plan_pass_default = 2
  /\ declare_mints = ["CreateConcept"%string; "CreateEvidence"%string; "CreateAssertion"%string; "CreateActivity"%string]
  /\ handles_declared_before_apply = true
  /\ abort_discards_shells = true
  /\ shells_are_pending = true
  /\ commit_checks_before_writes = true
  /\ journal_once_after_writes = true
  /\ version_new_is_one_else_plus_one = true
  /\ unchanged_rows_skipped = true
  /\ version_row_recorded_with_put = true
  /\ pending_becomes_active_on_write = true
  /\ ensure_resolves_committed = true
  /\ seq_allocated_at_begin_plus_one = true
  /\ journal_row_carries_tx_seq = true
  /\ staged_lookup_walks_staging_map = true.
Proof. repeat split; reflexivity. Qed.
Print Assumptions C17_generated_engine_shape.

(* refused_noop / dry_run_noop on the model of the engine as it is now: every way out of a statement that
   does not reach the write loop leaves the whole space as it was; only the counter moved. *)
Theorem C17_engine_refused_and_dry_run_noop :
  forall dry time s stmt o s',
    run_statement gen_flags dry time s stmt = (o, s') ->
    o = OPlanRefused \/ o = OCommitRefused \/ o = ODry ->
    proj s' = proj s /\ s_seq s' = s_seq s + 1.
Proof. exact (fun dry time s stmt o s' => tx_refused_noop gen_flags dry time s stmt o s' eq_refl eq_refl eq_refl). Qed.
Print Assumptions C17_engine_refused_and_dry_run_noop.

(* the remaining way to be refused is a put failing inside the write loop; the statement that used to get
   there (two ENSUREs of one tuple in one block) now commits one proposition *)
Theorem C17_engine_duplicate_ensure_resolves_to_one_element :
  fst (run_statement gen_flags false 0 (mkS [] [] [] 0 0)
         [CCreate 1 0 11 0 true; CCreate 1 0 12 0 true; CEnsure true 77 13; CEnsure true 77 14])
  = OCommitted 1 0 [(1, 1); (2, 1); (3, 1)].
Proof. vm_compute. reflexivity. Qed.
Print Assumptions C17_engine_duplicate_ensure_resolves_to_one_element.


(* With ENSURE resolving tuples staged earlier in the block, no statement of the model reaches a failing put:
   every refusal happens before the first write ... *)
Theorem C17_engine_write_loop_never_fails :
  forall dry time s stmt,
    Forall wf_clause stmt -> uniq_b (s_elems s) = true -> no_pending_b (s_elems s) = true ->
    fst (run_statement gen_flags dry time s stmt) <> OWriteFailed.
Proof. exact (fun dry time s stmt => tx_write_loop_never_fails gen_flags dry time s stmt eq_refl eq_refl). Qed.
Print Assumptions C17_engine_write_loop_never_fails.

(* ... hence refused_noop without a guard: EVERY refused or previewed statement of the engine model, on a
   space whose identities are unique and which holds no shell, leaves the whole observable space as it was. *)
Theorem C17_engine_refused_noop :
  forall dry time s stmt o s',
    Forall wf_clause stmt -> uniq_b (s_elems s) = true -> no_pending_b (s_elems s) = true ->
    run_statement gen_flags dry time s stmt = (o, s') ->
    resp_of o = Refused \/ resp_of o = DryRun ->
    proj s' = proj s /\ s_seq s' = s_seq s + 1.
Proof.
  exact (fun dry time s stmt o s' => tx_refused_noop_all gen_flags dry time s stmt o s' eq_refl eq_refl eq_refl eq_refl eq_refl).
Qed.
Print Assumptions C17_engine_refused_noop.

(* ... in every spelling: whichever of the namings are anonymous (bind no handle) and whichever carry one
   (a handled ENSURE, the ASSERT sugar), in either order, two namings of one uncommitted tuple are one element *)
Theorem C17_engine_duplicate_ensure_any_spelling_resolves_to_one_element :
  forall n1 n2 : bool,
    fst (run_statement gen_flags false 0 (mkS [] [] [] 0 0)
           [CCreate 1 0 11 0 true; CCreate 1 0 12 0 true; CEnsure n1 77 13; CCreate 4 0 15 0 true; CEnsure n2 77 14])
    = OCommitted 1 0 [(1, 1); (2, 1); (4, 1); (3, 1)].
Proof. intros [|] [|]; vm_compute; reflexivity. Qed.
Print Assumptions C17_engine_duplicate_ensure_any_spelling_resolves_to_one_element.

(* refuted for a lookup that walks only what the block's handles name: an anonymous ENSURE followed by any
   other naming of the tuple fails in the write loop with three rows written *)
Theorem C17_refused_noop_refuted_with_handle_only_lookup :
  exists s stmt s',
    run_statement (mkF true true true true false) false 0 s stmt = (OWriteFailed, s')
    /\ resp_of OWriteFailed = Refused
    /\ List.length (filter (fun e => negb (e_state e =? PENDING)) (s_elems s')) = 3%nat
    /\ List.length (s_vlog s') = 3%nat /\ s_journal s' = [] /\ s_elems s = [].
Proof. exact tx_refused_noop_refuted_with_handle_only_lookup. Qed.
Print Assumptions C17_refused_noop_refuted_with_handle_only_lookup.

(* refused_noop is false of the engine without the staged lookup / without the discard (the code before
   the two fix commits): the witnesses are the replayed statements of known_findings.json *)
Theorem C17_refused_noop_refuted_without_staged_lookup :
  exists s stmt s',
    run_statement (mkF true true true false true) false 0 s stmt = (OWriteFailed, s')
    /\ resp_of OWriteFailed = Refused
    /\ List.length (filter (fun e => negb (e_state e =? PENDING)) (s_elems s')) = 3%nat
    /\ List.length (s_vlog s') = 3%nat /\ s_journal s' = [] /\ s_elems s = [].
Proof. exact tx_refused_noop_refuted_without_staged_lookup. Qed.
Print Assumptions C17_refused_noop_refuted_without_staged_lookup.

Theorem C17_refused_noop_refuted_without_discard :
  exists s stmt s',
    run_statement (mkF true false true true true) false 0 s stmt = (OCommitRefused, s')
    /\ s_elems s = [] /\ List.length (s_elems s') = 2%nat.
Proof. exact tx_refused_commit_left_shells_without_discard. Qed.
Print Assumptions C17_refused_noop_refuted_without_discard.

(* commit_one_seq on the model *)
Theorem C17_engine_commit_one_seq :
  forall f dry time s stmt q st ch s',
    run_statement f dry time s stmt = (OCommitted q st ch, s') ->
    q = s_seq s + 1 /\ s_seq s' = q /\ s_journal s' = s_journal s ++ [mkJ q st time (map fst ch)]
    /\ (ch = [] <-> st = 1).
Proof. exact tx_commit_one_seq. Qed.
Print Assumptions C17_engine_commit_one_seq.

(* one_bump on the model, partial: one version row per change record (that each change is one version up
   and each element appears once is proved for the monitor, C17_one_bump_per_statement / C17_commit_step_facts,
   and checked there on the real traces; on the model it is shown for the write loop only:
   TxProofs.write_loop_versions) *)
Theorem C17_engine_one_version_row_per_change_partial :
  forall f dry time s stmt q st ch s',
    run_statement f dry time s stmt = (OCommitted q st ch, s') ->
    List.length (s_vlog s') = (List.length (s_vlog s) + List.length ch)%nat.
Proof. exact tx_one_version_step_per_staged_element. Qed.
Print Assumptions C17_engine_one_version_row_per_change_partial.

(* the model's own commits satisfy the monitor *)
Example C17_engine_nonvacuous :
  let s0 := mkS [] [] [] 0 0 in
  let '(o, s1) := run_statement gen_flags false 3 s0 [CCreate 1 9 11 0 true; CEnsure false 77 13; CCreate 3 0 12 5 true] in
  let '(o2, s2) := run_statement gen_flags false 4 s1 [CTouch 1 21 true true; CTouch 1 22 true true; CEnsure true 77 14] in
  let '(o3, s3) := run_statement gen_flags false 5 s2 [CTouch 1 23 true true; CCreate 1 9 31 0 true] in
  (check_history s0 [(resp_of o, s1); (resp_of o2, s2); (resp_of o3, s3)], o2, o3)
  = (true, OCommitted 2 0 [(1, 2)], OCommitRefused).
Proof. vm_compute. reflexivity. Qed.
