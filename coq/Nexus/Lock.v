(* C17 — readers never observe a statement in part: the Nexus RwLock (nexus.rs, Executor::execute).

   KML takes `lock.write()` for the whole statement (begin .. commit/abort), KQL and META take `lock.read()`.
   Common/Gate.v does not fit this lock: its exclusive side is a one-shot *closer* that first publishes a
   non-admitting flag and retires the gate for good (no mutator is ever admitted again), whereas the Nexus
   lock has no admission flag and writers come and go forever.  The list lemmas of Common/Gate.v are reused;
   the transition system is the plain reader/writer lock, for any number of threads and any interleaving. *)
From Coq Require Import List Bool Arith Lia.
From Verif Require Import Common.Gate.
Import ListNotations.

Inductive lpc :=
| RIdle | RHeld                       (* a KQL / META command *)
| WIdle | WHeld (mid : bool).         (* a KML statement; mid = it has written some of its rows and not yet finished *)

Definition r_holds (p : lpc) : bool := match p with RHeld => true | _ => false end.
Definition w_holds (p : lpc) : bool := match p with WHeld _ => true | _ => false end.

Record lstate := mkL { l_partial : bool;      (* the store holds a half-applied statement *)
                       l_pcs : list lpc }.

Inductive llabel := LTauL | LRead (partial : bool) | LWriteRow.

Definition lat (s : lstate) (i : nat) (p : lpc) : Prop := nth_error (l_pcs s) i = Some p.
Definition lset (s : lstate) (i : nat) (p : lpc) : lstate := mkL (l_partial s) (upd (l_pcs s) i p).

Inductive lstep : lstate -> llabel -> lstate -> Prop :=
| l_racq s i : lat s i RIdle -> forallb (fun p => negb (w_holds p)) (l_pcs s) = true -> lstep s LTauL (lset s i RHeld)
| l_read s i : lat s i RHeld -> lstep s (LRead (l_partial s)) s
| l_rrel s i : lat s i RHeld -> lstep s LTauL (lset s i RIdle)
| l_wacq s i : lat s i WIdle -> forallb (fun p => negb (r_holds p || w_holds p)) (l_pcs s) = true ->
    lstep s LTauL (lset s i (WHeld false))
| l_wrow s i m : lat s i (WHeld m) -> lstep s LWriteRow (mkL true (upd (l_pcs s) i (WHeld true)))
| l_wfin s i : lat s i (WHeld true) -> lstep s LTauL (mkL false (upd (l_pcs s) i (WHeld false)))   (* journal written / abort done *)
| l_wrel s i : lat s i (WHeld false) -> lstep s LTauL (lset s i WIdle).                            (* the guard is dropped *)

Inductive lsteps : lstate -> list llabel -> lstate -> Prop :=
| ls_nil s : lsteps s [] s
| ls_cons s l s' tr s'' : lstep s l s' -> lsteps s' tr s'' -> lsteps s (l :: tr) s''.

Definition linit (s : lstate) : Prop :=
  l_partial s = false /\ forall i p, lat s i p -> p = RIdle \/ p = WIdle.

Record linv (s : lstate) : Prop := {
  li_partial : l_partial s = true -> exists i, lat s i (WHeld true);
  li_excl : forall i m, lat s i (WHeld m) -> forall j p, lat s j p -> j <> i -> r_holds p = false /\ w_holds p = false
}.

Lemma forallb_nth' {A} (f : A -> bool) l i x : forallb f l = true -> nth_error l i = Some x -> f x = true.
Proof. intros H Hn. rewrite forallb_forall in H. apply H. eapply nth_error_In; eauto. Qed.

Lemma linv_init s : linit s -> linv s.
Proof.
  intros [P I]. constructor.
  - rewrite P. discriminate.
  - intros i m Hi. destruct (I _ _ Hi); discriminate.
Qed.

Lemma lat_upd s i old new j p :
  lat s i old -> nth_error (upd (l_pcs s) i new) j = Some p -> (j = i /\ p = new) \/ (j <> i /\ lat s j p).
Proof. intros Ho Hp. unfold lat in *. eapply nth_error_upd; eauto. Qed.

Lemma linv_step s l s' : linv s -> lstep s l s' -> linv s'.
Proof.
  intros [IP IE] St. inversion St; subst; clear St.
  - (* reader acquires: no writer holds *)
    assert (forall j m, ~ lat s j (WHeld m)) as NW.
    { intros j m Hj. pose proof (forallb_nth' _ _ _ _ H0 Hj) as F. discriminate. }
    constructor; simpl.
    + intros P. destruct (IP P) as [j Hj]. exfalso. eapply NW; eauto.
    + intros j m Hj. destruct (lat_upd _ _ _ _ _ _ H Hj) as [[_ E]|[_ Hj']]; [discriminate|]. exfalso. eapply NW; eauto.
  - constructor; auto.
  - (* reader releases *)
    constructor; simpl.
    + intros P. destruct (IP P) as [j Hj]. exists j. unfold lat, lset; simpl.
      destruct (Nat.eq_dec j i) as [->|N]; [unfold lat in *; congruence|]. rewrite nth_error_upd_other; auto.
    + intros j m Hj k p Hk Nk.
      destruct (lat_upd _ _ _ _ _ _ H Hj) as [[_ E]|[Nj Hj']]; [discriminate|].
      destruct (lat_upd _ _ _ _ _ _ H Hk) as [[_ ->]|[_ Hk']]; [split; reflexivity|]. eapply IE; eauto.
  - (* writer acquires: nobody holds anything *)
    assert (forall j p, lat s j p -> r_holds p = false /\ w_holds p = false) as FREE.
    { intros j p Hj. pose proof (forallb_nth' _ _ _ _ H0 Hj) as F. simpl in F.
      apply negb_true_iff, orb_false_iff in F. exact F. }
    constructor; simpl.
    + intros P. destruct (IP P) as [j Hj]. destruct (FREE _ _ Hj) as [_ W]. discriminate.
    + intros j m Hj k p Hk Nk.
      destruct (lat_upd _ _ _ _ _ _ H Hk) as [[-> ->]|[_ Hk']].
      * destruct (lat_upd _ _ _ _ _ _ H Hj) as [[-> _]|[_ Hj']]; [congruence|].
        destruct (FREE _ _ Hj') as [_ W]. discriminate.
      * eapply FREE; eauto.
  - (* a row is written *)
    constructor; simpl.
    + intros _. exists i. unfold lat; simpl. eapply nth_error_upd_same; eauto.
    + intros j m' Hj k p Hk Nk. unfold lat in Hj, Hk; simpl in Hj, Hk.
      destruct (lat_upd _ _ _ _ _ _ H Hj) as [[-> _]|[Nj Hj']].
      * destruct (lat_upd _ _ _ _ _ _ H Hk) as [[-> _]|[_ Hk']]; [congruence|]. eapply IE; eauto.
      * destruct (IE _ _ Hj' i (WHeld m) H (not_eq_sym Nj)) as [_ W]. discriminate.
  - (* the statement finishes *)
    constructor; simpl; [discriminate|].
    intros j m' Hj k p Hk Nk. unfold lat in Hj, Hk; simpl in Hj, Hk.
    destruct (lat_upd _ _ _ _ _ _ H Hj) as [[-> _]|[Nj Hj']].
    + destruct (lat_upd _ _ _ _ _ _ H Hk) as [[-> _]|[_ Hk']]; [congruence|]. eapply IE; eauto.
    + destruct (IE _ _ Hj' i (WHeld true) H (not_eq_sym Nj)) as [_ W]. discriminate.
  - (* writer releases, with nothing half-applied *)
    constructor; simpl.
    + intros P. destruct (IP P) as [j Hj].
      destruct (Nat.eq_dec j i) as [->|N]; [unfold lat in *; congruence|].
      destruct (IE _ _ H j _ Hj N) as [_ W]. discriminate.
    + intros j m Hj k p Hk Nk.
      destruct (lat_upd _ _ _ _ _ _ H Hj) as [[_ E]|[Nj Hj']]; [discriminate|].
      destruct (IE _ _ Hj' i (WHeld false) H (not_eq_sym Nj)) as [_ W]. discriminate.
Qed.

Lemma read_sees_no_partial s b s' : linv s -> lstep s (LRead b) s' -> b = false.
Proof.
  intros I St.
  assert (exists i, lat s i RHeld /\ b = l_partial s) as [i [Hi ->]] by (inversion St; subst; eauto).
  destruct (l_partial s) eqn:P; auto.
  destruct (li_partial _ I P) as [j Hj].
  destruct (Nat.eq_dec i j) as [->|N]; [unfold lat in *; congruence|].
  destruct (li_excl _ I _ _ Hj i RHeld Hi N) as [R _]. discriminate.
Qed.

(* Whatever the number of sessions and however their steps interleave, every read a KQL / META command
   performs while holding the read lock sees a store with no statement half applied. *)
Theorem readers_never_observe_a_partial_statement s0 tr s :
  linit s0 -> lsteps s0 tr s -> forall b, In (LRead b) tr -> b = false.
Proof.
  intros I St. apply linv_init in I. induction St; intros b Hin; [inversion Hin|].
  destruct Hin as [->|Hin].
  - eapply read_sees_no_partial; eauto.
  - eapply IHSt; eauto. eapply linv_step; eauto.
Qed.

(* while a statement holds the write lock it is alone *)
Theorem writer_is_alone s0 tr s i m :
  linit s0 -> lsteps s0 tr s -> lat s i (WHeld m) ->
  forall j p, lat s j p -> j <> i -> r_holds p = false /\ w_holds p = false.
Proof.
  intros I St. apply linv_init in I.
  assert (linv s) as Inv by (clear i m; induction St; auto; apply IHSt; eapply linv_step; eauto).
  intros Hi. eapply li_excl; eauto.
Qed.
