(* C17 / C18 — the abstract MemorySpace a KML statement acts on, the per-step monitor
   [check_step], and the historical read functions of store/history.rs.

   Everything is first-order data over Z so that real dumps of the implementation can be
   evaluated by vm_compute:
     element id   kind_code * 10^9 + document id
     state        0 active 1 archived 2 tombstoned 3 merged 4 quarantined 5 purged 6 pending 7 other
     digests      62-bit content hashes computed by the harness (0 = none)                     *)
From Coq Require Import List ZArith Bool Lia.
Import ListNotations.
Open Scope Z_scope.

(* ---------------------------------------------------------------- observed space *)

Record elem := mkE {
  e_id : Z;        (* element id *)
  e_kind : Z;      (* 1 concept 2 proposition 3 assertion 4 evidence 5 activity *)
  e_ver : Z;       (* row.version *)
  e_state : Z;
  e_dig : Z;       (* digest of the complete stored row *)
  e_key : Z;       (* identity claim: digest of tuple_key / (space, type, key); 0 = claims nothing *)
  e_pay : Z        (* digest of the epistemic payload of an assertion / evidence record; 0 otherwise *)
}.

Record jrow := mkJ {
  j_seq : Z;
  j_status : Z;            (* 0 committed, 1 no_effect *)
  j_time : Z;              (* committed_at, as the rank of the timestamp string *)
  j_changed : list Z       (* changed_ids *)
}.

Record vrow := mkV {
  v_elem : Z;
  v_kind : Z;
  v_ver : Z;
  v_seq : Z;
  v_dig : Z;               (* digest of the row stored in the version *)
  v_pay : Z
}.

Record space := mkS {
  s_elems : list elem;     (* the five element collections, read directly, pending shells included *)
  s_journal : list jrow;   (* transactions collection, in insertion order *)
  s_vlog : list vrow;      (* element_versions collection, in insertion order *)
  s_seq : Z;               (* the Space row's sequence counter *)
  s_obs : Z                (* digest of every answer of the observation battery (KQL over every kind
                              and state, DESCRIBE/LIST/HISTORY/CHANGES) and of the remaining collections,
                              with the sequence counter masked *)
}.

Definition PENDING : Z := 6.

(* What the statement answered. *)
Inductive resp :=
| Refused                                   (* any error: validation, authorization, precondition, commit-time conflict *)
| DryRun                                    (* options.dry_run: a preview *)
| Committed (seq : Z) (status : Z) (changes : list (Z * Z)).   (* receipt.space_seq, 0 committed / 1 no_effect, (id, version) *)

(* ---------------------------------------------------------------- equality tests *)

Definition elem_eqb (a b : elem) : bool :=
  (e_id a =? e_id b) && (e_kind a =? e_kind b) && (e_ver a =? e_ver b) && (e_state a =? e_state b)
  && (e_dig a =? e_dig b) && (e_key a =? e_key b) && (e_pay a =? e_pay b).

Fixpoint list_eqb {A} (eqb : A -> A -> bool) (l1 l2 : list A) : bool :=
  match l1, l2 with
  | [], [] => true
  | a :: l1, b :: l2 => eqb a b && list_eqb eqb l1 l2
  | _, _ => false
  end.

Definition jrow_eqb (a b : jrow) : bool :=
  (j_seq a =? j_seq b) && (j_status a =? j_status b) && (j_time a =? j_time b)
  && list_eqb Z.eqb (j_changed a) (j_changed b).

Definition vrow_eqb (a b : vrow) : bool :=
  (v_elem a =? v_elem b) && (v_kind a =? v_kind b) && (v_ver a =? v_ver b) && (v_seq a =? v_seq b)
  && (v_dig a =? v_dig b) && (v_pay a =? v_pay b).

Definition opt_elem_eqb (a b : option elem) : bool :=
  match a, b with
  | None, None => true
  | Some a, Some b => elem_eqb a b
  | _, _ => false
  end.

(* The observable projection: everything but the sequence counter. *)
Definition proj (s : space) := (s_elems s, s_journal s, s_vlog s, s_obs s).

Definition proj_eqb (a b : space) : bool :=
  list_eqb elem_eqb (s_elems a) (s_elems b)
  && list_eqb jrow_eqb (s_journal a) (s_journal b)
  && list_eqb vrow_eqb (s_vlog a) (s_vlog b)
  && (s_obs a =? s_obs b).

(* ---------------------------------------------------------------- lookups *)

Fixpoint find_e (id : Z) (l : list elem) : option elem :=
  match l with
  | [] => None
  | e :: l => if e_id e =? id then Some e else find_e id l
  end.

Definition ver_of (l : list elem) (id : Z) : Z :=
  match find_e id l with Some e => e_ver e | None => 0 end.

Definition memZ (x : Z) (l : list Z) : bool := existsb (Z.eqb x) l.

Fixpoint nodupZ (l : list Z) : bool :=
  match l with
  | [] => true
  | x :: l => negb (memZ x l) && nodupZ l
  end.

(* number of journal rows that list [id] among their changed ids *)
Definition nchanged (j : list jrow) (id : Z) : Z :=
  Z.of_nat (List.length (filter (fun r => memZ id (j_changed r)) j)).

(* identity claims: (kind, key) of every element that claims one *)
Definition claims (l : list elem) : list (Z * Z) :=
  map (fun e => (e_kind e, e_key e)) (filter (fun e => negb (e_key e =? 0)) l).

Definition pair_eqb (a b : Z * Z) : bool := (fst a =? fst b) && (snd a =? snd b).

Fixpoint nodupP (l : list (Z * Z)) : bool :=
  match l with
  | [] => true
  | x :: l => negb (existsb (pair_eqb x) l) && nodupP l
  end.

(* tuple and key uniqueness + element ids are distinct *)
Definition uniq_b (l : list elem) : bool := nodupZ (map e_id l) && nodupP (claims l).

Definition no_pending_b (l : list elem) : bool := forallb (fun e => negb (e_state e =? PENDING)) l.

(* ---------------------------------------------------------------- the per-step monitor *)

(* the version rows a commit at [q] must append, one per change record, read off the state after *)
Definition row_for (after : list elem) (q : Z) (c : Z * Z) : vrow :=
  match find_e (fst c) after with
  | Some e => mkV (fst c) (e_kind e) (snd c) q (e_dig e) (e_pay e)
  | None => mkV (fst c) 0 (snd c) q 0 0
  end.

(* one change record is right: the element is there afterwards at the announced version, that version is
   one more than before (1 for an element that was not there), it is not a shell, and the epistemic
   payload of an assertion / evidence record did not move *)
Definition change_ok (before after : list elem) (c : Z * Z) : bool :=
  match find_e (fst c) after with
  | None => false
  | Some e =>
      (e_ver e =? snd c)
      && (snd c =? ver_of before (fst c) + 1)
      && negb (e_state e =? PENDING)
      && match find_e (fst c) before with
         | Some e0 => (e_pay e0 =? e_pay e) && (e_kind e0 =? e_kind e)
         | None => true
         end
  end.

(* frame: an element the statement did not list as changed is exactly as it was, and none appears or
   disappears *)
Definition frame_ok (before after : list elem) (changed : list Z) : bool :=
  forallb (fun id => memZ id changed || opt_elem_eqb (find_e id before) (find_e id after))
          (map e_id before ++ map e_id after).

Definition check_step (b : space) (r : resp) (a : space) : bool :=
  match r with
  | Refused | DryRun => proj_eqb b a && (s_seq b <=? s_seq a)
  | Committed q st ch =>
      let ids := map fst ch in
      (s_seq b <? q) && (q =? s_seq a)
      && nodupZ ids
      && (match ch with [] => st =? 1 | _ => st =? 0 end)
      && forallb (change_ok (s_elems b) (s_elems a)) ch
      && frame_ok (s_elems b) (s_elems a) ids
      && match s_journal a with
         | [] => false
         | _ => let j := last (s_journal a) (mkJ 0 0 0 []) in
                list_eqb jrow_eqb (removelast (s_journal a)) (s_journal b)
                && (j_seq j =? q) && (j_status j =? st) && list_eqb Z.eqb (j_changed j) ids
                && (match s_journal b with [] => true | _ => j_time (last (s_journal b) (mkJ 0 0 0 [])) <=? j_time j end)
         end
      && list_eqb vrow_eqb (s_vlog a) (s_vlog b ++ map (row_for (s_elems a) q) ch)
      && uniq_b (s_elems a)
      && no_pending_b (s_elems a)
  end.

Fixpoint check_history (s : space) (steps : list (resp * space)) : bool :=
  match steps with
  | [] => true
  | (r, a) :: rest => check_step s r a && check_history a rest
  end.

(* first failing step, for the report *)
Fixpoint first_bad (n : nat) (s : space) (steps : list (resp * space)) : option nat :=
  match steps with
  | [] => None
  | (r, a) :: rest => if check_step s r a then first_bad (S n) a rest else Some n
  end.

(* the states a history passes through *)
Fixpoint states (s : space) (steps : list (resp * space)) : list space :=
  s :: match steps with [] => [] | (_, a) :: rest => states a rest end.

(* ---------------------------------------------------------------- history-level invariant (executable) *)

Fixpoint sorted_lt (l : list Z) : bool :=
  match l with
  | a :: (b :: _) as t => (a <? b) && sorted_lt t
  | _ => true
  end.

Fixpoint sorted_le (l : list Z) : bool :=
  match l with
  | a :: (b :: _) as t => (a <=? b) && sorted_le t
  | _ => true
  end.

Definition vrows_of (id : Z) (vl : list vrow) : list vrow := filter (fun r => v_elem r =? id) vl.

(* versions 1..n in order *)
Fixpoint iota_from (k : Z) (n : nat) : list Z :=
  match n with O => [] | S n => k :: iota_from (k + 1) n end.

(* (row.seq, row.version) > (current.seq, current.version) *)
Definition newer (r c : vrow) : bool :=
  (v_seq c <? v_seq r) || ((v_seq c =? v_seq r) && (v_ver c <? v_ver r)).

(* every version row of an element is newer than the one before it *)
Fixpoint chain_b (l : list vrow) : bool :=
  match l with
  | a :: (b :: _) as t => newer b a && chain_b t
  | _ => true
  end.

Definition vlog_elem_ok (vl : list vrow) (e : elem) : bool :=
  let rows := vrows_of (e_id e) vl in
  list_eqb Z.eqb (map v_ver rows) (iota_from 1 (Z.to_nat (e_ver e)))
  && (v_dig (last rows (mkV 0 0 0 0 0 0)) =? e_dig e)
  && forallb (fun r => (v_pay r =? e_pay e) && (v_kind r =? e_kind e)) rows.

Definition inv_b (s : space) : bool :=
  sorted_lt (map j_seq (s_journal s))
  && forallb (fun r => j_seq r <=? s_seq s) (s_journal s)
  && sorted_le (map j_time (s_journal s))
  && forallb (fun e => (e_ver e =? nchanged (s_journal s) (e_id e)) && (1 <=? e_ver e)) (s_elems s)
  && forallb (fun r => memZ (v_elem r) (map e_id (s_elems s))) (s_vlog s)
  && forallb (fun r => forallb (fun id => memZ id (map e_id (s_elems s))) (j_changed r)) (s_journal s)
  && forallb (vlog_elem_ok (s_vlog s)) (s_elems s)
  && forallb (fun e => chain_b (vrows_of (e_id e) (s_vlog s))) (s_elems s)
  && forallb (fun r => v_seq r <=? s_seq s) (s_vlog s)
  && uniq_b (s_elems s)
  && no_pending_b (s_elems s).

(* ---------------------------------------------------------------- C18: store/history.rs *)

(* element_at: the loop `if best.is_none_or(|current| (row.seq,row.version) > (current.seq,current.version))` *)
Definition pick (best : option vrow) (r : vrow) : option vrow :=
  match best with
  | None => Some r
  | Some c => if newer r c then Some r else Some c
  end.

Definition element_at (vl : list vrow) (id s : Z) : option vrow :=
  fold_left pick (filter (fun r => (v_elem r =? id) && (v_seq r <=? s)) vl) None.

(* elements_at: `match latest.get(&row.element) { Some(current) if current >= row => {}, _ => insert }`
   over an association list keyed by element *)
Fixpoint upsert (m : list (Z * vrow)) (r : vrow) : list (Z * vrow) :=
  match m with
  | [] => [(v_elem r, r)]
  | (k, c) :: m' => if k =? v_elem r then (k, if newer r c then r else c) :: m' else (k, c) :: upsert m' r
  end.

Definition elements_at (vl : list vrow) (kind s : Z) : list (Z * vrow) :=
  fold_left upsert (filter (fun r => (v_kind r =? kind) && (v_seq r <=? s)) vl) [].

Fixpoint lookup (id : Z) (m : list (Z * vrow)) : option vrow :=
  match m with
  | [] => None
  | (k, c) :: m => if k =? id then Some c else lookup id m
  end.

(* seq_of_transaction: first journal row with that id (a transaction id is "<space>#<seq>") *)
Definition seq_of_tx (j : list jrow) (tx : Z) : option Z :=
  match filter (fun r => j_seq r =? tx) j with
  | r :: _ => Some (j_seq r)
  | [] => None
  end.

(* seq_at_time: `if row.committed_at <= at && row.seq > seq { seq = row.seq }` from 0 *)
Definition seq_at_time (j : list jrow) (t : Z) : Z :=
  fold_left (fun acc r => if (j_time r <=? t) && (acc <? j_seq r) then j_seq r else acc) j 0.

(* schema_version_at over (version, activation seq) pairs:
   `if activated_at <= seq && row.version > version { version = row.version }` from 0 *)
Definition schema_version_at (envs : list (Z * Z)) (s : Z) : Z :=
  fold_left (fun acc r => if (snd r <=? s) && (acc <? fst r) then fst r else acc) envs 0.
