(* C17 / C18 — runners evaluated by vm_compute on the dumps the harness takes from the implementation. *)
From Coq Require Import List ZArith Bool.
From Verif Require Import Nexus.Model.
Import ListNotations.
Open Scope Z_scope.

(* one history: the fresh space and (response, space after) per statement *)
Definition hcase := (space * list (resp * space))%type.

Definition empty_start (s : space) : bool :=
  match s_elems s, s_journal s, s_vlog s with
  | [], [], [] => true
  | _, _, _ => false
  end.

(* the monitor: the premise of the C17/C18 history theorems *)
Definition check_hist (c : hcase) : bool := empty_start (fst c) && check_history (fst c) (snd c).

(* what the theorems predict, re-evaluated on the real states *)
Definition check_inv (c : hcase) : bool := forallb inv_b (states (fst c) (snd c)).

Definition bad_step (c : hcase) : option nat := first_bad 0 (fst c) (snd c).

(* per-step form, for pinpointing *)
Definition check_one (c : space * resp * space) : bool := let '(b, r, a) := c in check_step b r a.

(* ---- C18: the model of store/history.rs against Store::element_at / elements_at *)

(* (vlog, [(id, seq, what the implementation answered: (version, row digest))]) *)
Definition acase := (list vrow * list (Z * Z * option (Z * Z)))%type.

Definition same_row (m : option vrow) (o : option (Z * Z)) : bool :=
  match m, o with
  | None, None => true
  | Some r, Some (v, d) => (v_ver r =? v) && (v_dig r =? d)
  | _, _ => false
  end.

Definition check_element_at (c : acase) : bool :=
  let '(vl, qs) := c in
  forallb (fun q => let '(id, s, o) := q in same_row (element_at vl id s) o) qs.

(* (vlog, [(kind, seq, [(id, version, digest)])]) *)
Definition kcase := (list vrow * list (Z * Z * list (Z * Z * Z)))%type.

Definition check_elements_at (c : kcase) : bool :=
  let '(vl, qs) := c in
  forallb (fun q =>
    let '(k, s, obs) := q in
    let m := elements_at vl k s in
    (Nat.eqb (List.length m) (List.length obs))
    && forallb (fun o => let '(id, v, d) := o in same_row (lookup id m) (Some (v, d))) obs) qs.

(* (journal, [(time, implementation's seq_at_time)], [(tx seq, implementation's seq_of_transaction)]) *)
Definition jcase := (list jrow * list (Z * Z) * list (Z * option Z))%type.

Definition check_coordinates (c : jcase) : bool :=
  let '(j, ts, txs) := c in
  forallb (fun q => seq_at_time j (fst q) =? snd q) ts
  && forallb (fun q => match seq_of_tx j (fst q), snd q with
                       | Some a, Some b => a =? b
                       | None, None => true
                       | _, _ => false end) txs.
