(* C17 — soundness of the per-step monitor and the lifting to histories. *)
From Coq Require Import List ZArith Bool Lia.
From Verif Require Import Nexus.Model.
Import ListNotations.
Open Scope Z_scope.

(* ---------------------------------------------------------------- reflection of the equality tests *)

Lemma list_eqb_eq {A} (eqb : A -> A -> bool) :
  (forall a b, eqb a b = true -> a = b) ->
  forall l1 l2, list_eqb eqb l1 l2 = true -> l1 = l2.
Proof.
  intros H l1; induction l1 as [|a l1 IH]; intros [|b l2] E; simpl in E; try discriminate; auto.
  apply andb_true_iff in E as [E1 E2]. f_equal; auto.
Qed.

Lemma elem_eqb_eq a b : elem_eqb a b = true -> a = b.
Proof.
  unfold elem_eqb; destruct a, b; simpl; intros E.
  repeat (apply andb_true_iff in E as [E ?]).
  repeat match goal with H : (_ =? _) = true |- _ => apply Z.eqb_eq in H end. subst. reflexivity.
Qed.

Lemma listZ_eqb_eq l1 l2 : list_eqb Z.eqb l1 l2 = true -> l1 = l2.
Proof. apply list_eqb_eq. intros a b; apply Z.eqb_eq. Qed.

Lemma jrow_eqb_eq a b : jrow_eqb a b = true -> a = b.
Proof.
  unfold jrow_eqb; destruct a, b; simpl; intros E.
  repeat (apply andb_true_iff in E as [E ?]).
  repeat match goal with H : (_ =? _) = true |- _ => apply Z.eqb_eq in H end.
  match goal with H : list_eqb _ _ _ = true |- _ => apply listZ_eqb_eq in H end. subst. reflexivity.
Qed.

Lemma vrow_eqb_eq a b : vrow_eqb a b = true -> a = b.
Proof.
  unfold vrow_eqb; destruct a, b; simpl; intros E.
  repeat (apply andb_true_iff in E as [E ?]).
  repeat match goal with H : (_ =? _) = true |- _ => apply Z.eqb_eq in H end. subst. reflexivity.
Qed.

Lemma opt_elem_eqb_eq a b : opt_elem_eqb a b = true -> a = b.
Proof. destruct a, b; simpl; intros; try discriminate; auto. f_equal; now apply elem_eqb_eq. Qed.

Lemma proj_eqb_eq a b : proj_eqb a b = true -> proj a = proj b.
Proof.
  unfold proj_eqb, proj; intros E.
  repeat (apply andb_true_iff in E as [E ?]).
  apply (list_eqb_eq _ elem_eqb_eq) in E.
  match goal with H : list_eqb jrow_eqb _ _ = true |- _ => apply (list_eqb_eq _ jrow_eqb_eq) in H end.
  match goal with H : list_eqb vrow_eqb _ _ = true |- _ => apply (list_eqb_eq _ vrow_eqb_eq) in H end.
  match goal with H : (_ =? _) = true |- _ => apply Z.eqb_eq in H end.
  congruence.
Qed.

Lemma memZ_In x l : memZ x l = true <-> In x l.
Proof.
  unfold memZ; rewrite existsb_exists; split.
  - intros [y [H E]]. apply Z.eqb_eq in E. now subst.
  - intros H. exists x. split; auto. apply Z.eqb_refl.
Qed.

Lemma memZ_false x l : memZ x l = false <-> ~ In x l.
Proof. rewrite <- memZ_In. destruct (memZ x l); split; intros; try discriminate; auto. now elim H. Qed.

Lemma nodupZ_NoDup l : nodupZ l = true -> NoDup l.
Proof.
  induction l as [|x l IH]; simpl; intros E; constructor.
  - apply andb_true_iff in E as [E _]. apply negb_true_iff in E. now apply memZ_false.
  - apply andb_true_iff in E as [_ E]. auto.
Qed.

(* ---------------------------------------------------------------- find_e *)

Lemma find_e_id id l e : find_e id l = Some e -> e_id e = id /\ In e l.
Proof.
  induction l as [|x l IH]; simpl; try discriminate.
  destruct (e_id x =? id) eqn:E.
  - intros H; inversion H; subst. apply Z.eqb_eq in E. auto.
  - intros H. destruct (IH H). auto.
Qed.

Lemma find_e_None id l : find_e id l = None <-> ~ In id (map e_id l).
Proof.
  induction l as [|x l IH]; simpl.
  - tauto.
  - destruct (e_id x =? id) eqn:E.
    + apply Z.eqb_eq in E. split; [discriminate | intros H; elim H; auto].
    + apply Z.eqb_neq in E. rewrite IH. tauto.
Qed.

Lemma find_e_In_nodup l e : NoDup (map e_id l) -> In e l -> find_e (e_id e) l = Some e.
Proof.
  induction l as [|x l IH]; simpl; intros ND H; [tauto|].
  inversion ND; subst. destruct H as [->|H].
  - now rewrite Z.eqb_refl.
  - destruct (e_id x =? e_id e) eqn:E.
    + apply Z.eqb_eq in E. elim H2. rewrite E. now apply in_map.
    + auto.
Qed.

(* ---------------------------------------------------------------- what a passed step says *)

Record commit_facts (b a : space) (q st : Z) (ch : list (Z * Z)) : Prop := {
  cf_seq : s_seq b < q /\ q = s_seq a;
  cf_nodup : NoDup (map fst ch);
  cf_status : (ch = [] -> st = 1) /\ (ch <> [] -> st = 0);
  cf_change : forall id v, In (id, v) ch ->
      exists e, find_e id (s_elems a) = Some e /\ e_ver e = v /\ v = ver_of (s_elems b) id + 1
                /\ e_state e <> PENDING
                /\ (forall e0, find_e id (s_elems b) = Some e0 -> e_pay e0 = e_pay e /\ e_kind e0 = e_kind e);
  cf_frame : forall id, ~ In id (map fst ch) -> find_e id (s_elems b) = find_e id (s_elems a);
  cf_journal : exists t, s_journal a = s_journal b ++ [mkJ q st t (map fst ch)]
                         /\ (forall r, In r (s_journal b) -> r = last (s_journal b) r -> j_time r <= t);
  cf_vlog : s_vlog a = s_vlog b ++ map (row_for (s_elems a) q) ch;
  cf_uniq : uniq_b (s_elems a) = true;
  cf_nopending : no_pending_b (s_elems a) = true
}.

Lemma frame_ok_spec eb ea ids :
  frame_ok eb ea ids = true -> forall id, ~ In id ids -> find_e id eb = find_e id ea.
Proof.
  unfold frame_ok; intros F id NI. rewrite forallb_forall in F.
  destruct (in_dec Z.eq_dec id (map e_id eb ++ map e_id ea)) as [I|I].
  - specialize (F id I). apply orb_true_iff in F as [F|F].
    + apply memZ_In in F. contradiction.
    + now apply opt_elem_eqb_eq.
  - rewrite in_app_iff in I.
    assert (find_e id eb = None) as -> by (apply find_e_None; tauto).
    symmetry. apply find_e_None; tauto.
Qed.

Lemma change_ok_spec eb ea id v :
  change_ok eb ea (id, v) = true ->
  exists e, find_e id ea = Some e /\ e_ver e = v /\ v = ver_of eb id + 1 /\ e_state e <> PENDING
            /\ (forall e0, find_e id eb = Some e0 -> e_pay e0 = e_pay e /\ e_kind e0 = e_kind e).
Proof.
  unfold change_ok; simpl. destruct (find_e id ea) as [e|]; [|discriminate].
  intros E. apply andb_true_iff in E as [E E4]. apply andb_true_iff in E as [E E3].
  apply andb_true_iff in E as [E1 E2].
  apply Z.eqb_eq in E1, E2. apply negb_true_iff, Z.eqb_neq in E3.
  exists e. split; [reflexivity|]. split; [exact E1|]. split; [exact E2|]. split; [exact E3|].
  intros x Hx. rewrite Hx in E4. apply andb_true_iff in E4 as [P K]. apply Z.eqb_eq in P, K. auto.
Qed.

Lemma last_indep {A} (l : list A) d1 d2 : l <> [] -> last l d1 = last l d2.
Proof. induction l as [|x [|y l] IH]; intros NE; try congruence; auto. apply IH. discriminate. Qed.

Lemma check_commit_facts b a q st ch :
  check_step b (Committed q st ch) a = true -> commit_facts b a q st ch.
Proof.
  cbn [check_step]. intros E.
  apply andb_true_iff in E as [E H10]. apply andb_true_iff in E as [E H9].
  apply andb_true_iff in E as [E H8]. apply andb_true_iff in E as [E H7].
  apply andb_true_iff in E as [E H6]. apply andb_true_iff in E as [E H5].
  apply andb_true_iff in E as [E H4]. apply andb_true_iff in E as [E H3].
  apply andb_true_iff in E as [H1 H2].
  apply Z.ltb_lt in H1. apply Z.eqb_eq in H2.
  apply (list_eqb_eq _ vrow_eqb_eq) in H8.
  constructor; auto.
  - now apply nodupZ_NoDup.
  - destruct ch; split; intros; try congruence; now apply Z.eqb_eq in H4.
  - intros id v I. rewrite forallb_forall in H5. specialize (H5 _ I). now apply change_ok_spec.
  - now apply frame_ok_spec.
  - destruct (s_journal a) as [|j0 ja] eqn:EJ; [discriminate|]. rewrite <- EJ in *.
    assert (s_journal a <> []) as NE by (rewrite EJ; discriminate).
    set (j := last (s_journal a) (mkJ 0 0 0 [])) in *.
    apply andb_true_iff in H7 as [H7 T5]. apply andb_true_iff in H7 as [H7 T4].
    apply andb_true_iff in H7 as [H7 T3]. apply andb_true_iff in H7 as [T1 T2].
    apply (list_eqb_eq _ jrow_eqb_eq) in T1. apply Z.eqb_eq in T2, T3. apply listZ_eqb_eq in T4.
    exists (j_time j). split.
    + rewrite (app_removelast_last (mkJ 0 0 0 []) NE). fold j. rewrite T1.
      f_equal. destruct j; simpl in *; subst; reflexivity.
    + intros r I L.
      destruct (s_journal b) as [|r0 jb] eqn:EB; [inversion I|]. rewrite <- EB in *.
      apply Z.leb_le in T5.
      assert (s_journal b <> []) as NB by (rewrite EB; discriminate).
      rewrite (last_indep _ _ r NB) in T5. rewrite <- L in T5. exact T5.
Qed.

Lemma check_refused_facts b r a :
  r = Refused \/ r = DryRun -> check_step b r a = true -> proj a = proj b /\ s_seq b <= s_seq a.
Proof.
  intros [->| ->]; simpl; intros E; apply andb_true_iff in E as [E1 E2];
    apply proj_eqb_eq in E1; apply Z.leb_le in E2; auto.
Qed.

(* ---------------------------------------------------------------- the history-level invariant *)

Definition vdummy := mkV 0 0 0 0 0 0.

Record Inv (s : space) : Prop := {
  (* commits carry strictly increasing sequence numbers, none beyond the counter *)
  i_jsorted : sorted_lt (map j_seq (s_journal s)) = true;
  i_jbound : Forall (fun r => j_seq r <= s_seq s) (s_journal s);
  (* version e = number of commits that changed e (0 for an element that does not exist) *)
  i_ver : forall id, ver_of (s_elems s) id = nchanged (s_journal s) id;
  (* the version log holds exactly versions 1..version e of every element, in order *)
  i_vlog : forall id, map v_ver (vrows_of id (s_vlog s)) = iota_from 1 (Z.to_nat (ver_of (s_elems s) id));
  (* ... the newest of them is the row that is current *)
  i_last : forall id e, find_e id (s_elems s) = Some e ->
                        v_dig (last (vrows_of id (s_vlog s)) vdummy) = e_dig e;
  (* ... each is newer, as history.rs orders them, than the one before *)
  i_chain : forall id, chain_b (vrows_of id (s_vlog s)) = true;
  i_vbound : Forall (fun r => v_seq r <= s_seq s) (s_vlog s);
  (* the epistemic payload and the kind are the same in every version *)
  i_pay : forall id e r, find_e id (s_elems s) = Some e -> In r (vrows_of id (s_vlog s)) ->
                         v_pay r = e_pay e /\ v_kind r = e_kind e;
  i_pos : forall id e, find_e id (s_elems s) = Some e -> 1 <= e_ver e;
  i_uniq : uniq_b (s_elems s) = true;
  i_nopending : no_pending_b (s_elems s) = true
}.

Lemma sorted_lt_cons a l :
  sorted_lt (a :: l) = (match l with [] => true | b :: _ => a <? b end) && sorted_lt l.
Proof. destruct l; reflexivity. Qed.

Lemma sorted_lt_snoc l q :
  sorted_lt l = true -> Forall (fun x => x < q) l -> sorted_lt (l ++ [q]) = true.
Proof.
  induction l as [|a l IH]; intros S F; [reflexivity|].
  rewrite sorted_lt_cons in S. apply andb_true_iff in S as [S1 S2]. inversion F; subst.
  change ((a :: l) ++ [q]) with (a :: (l ++ [q])). rewrite sorted_lt_cons.
  apply andb_true_iff; split; [|auto].
  destruct l; simpl; [now apply Z.ltb_lt | exact S1].
Qed.

Lemma nchanged_snoc J j id :
  nchanged (J ++ [j]) id = nchanged J id + (if memZ id (j_changed j) then 1 else 0).
Proof.
  unfold nchanged. rewrite filter_app, app_length, Nat2Z.inj_add. simpl.
  destruct (memZ id (j_changed j)); simpl; lia.
Qed.

Lemma nchanged_nonneg J id : 0 <= nchanged J id.
Proof. unfold nchanged. lia. Qed.

Lemma vrows_of_app id V R : vrows_of id (V ++ R) = vrows_of id V ++ vrows_of id R.
Proof. unfold vrows_of. apply filter_app. Qed.

Lemma row_for_elem ea q c : v_elem (row_for ea q c) = fst c.
Proof. unfold row_for. destruct (find_e (fst c) ea); reflexivity. Qed.

Lemma row_for_seq ea q c : v_seq (row_for ea q c) = q.
Proof. unfold row_for. destruct (find_e (fst c) ea); reflexivity. Qed.

Lemma row_for_ver ea q c : v_ver (row_for ea q c) = snd c.
Proof. unfold row_for. destruct (find_e (fst c) ea); reflexivity. Qed.

Lemma rows_other id ea q ch :
  ~ In id (map fst ch) -> vrows_of id (map (row_for ea q) ch) = [].
Proof.
  induction ch as [|c ch IH]; simpl; intros NI; auto.
  unfold vrows_of in *. simpl. rewrite row_for_elem.
  destruct (fst c =? id) eqn:E.
  - apply Z.eqb_eq in E. elim NI. auto.
  - apply IH. tauto.
Qed.

Lemma rows_one id v ea q ch :
  NoDup (map fst ch) -> In (id, v) ch ->
  vrows_of id (map (row_for ea q) ch) = [row_for ea q (id, v)].
Proof.
  induction ch as [|c ch IH]; simpl; intros ND I; [tauto|].
  inversion ND; subst. unfold vrows_of in *. simpl. rewrite row_for_elem.
  destruct I as [->|I].
  - simpl. rewrite Z.eqb_refl. f_equal. apply (rows_other id ea q ch). exact H1.
  - destruct (fst c =? id) eqn:E.
    + apply Z.eqb_eq in E. elim H1. rewrite E. change id with (fst (id, v)). now apply in_map.
    + now apply IH.
Qed.

Lemma iota_snoc n : forall k, iota_from k (S n) = iota_from k n ++ [k + Z.of_nat n].
Proof.
  induction n as [|n IH]; intros k.
  - simpl. f_equal. lia.
  - change (iota_from k (S (S n))) with (k :: iota_from (k + 1) (S n)).
    rewrite IH. simpl. f_equal. f_equal. f_equal. lia.
Qed.

Lemma chain_cons a l :
  chain_b (a :: l) = (match l with [] => true | b :: _ => newer b a end) && chain_b l.
Proof. destruct l; reflexivity. Qed.

Lemma chain_snoc l r :
  chain_b l = true -> (forall x, In x l -> v_seq x < v_seq r) -> chain_b (l ++ [r]) = true.
Proof.
  induction l as [|a l IH]; intros C F; [reflexivity|].
  rewrite chain_cons in C. apply andb_true_iff in C as [C1 C2].
  change ((a :: l) ++ [r]) with (a :: (l ++ [r])). rewrite chain_cons.
  apply andb_true_iff; split.
  - destruct l; simpl; [|exact C1]. unfold newer.
    assert (v_seq a < v_seq r) by (apply F; simpl; auto). apply orb_true_iff; left. now apply Z.ltb_lt.
  - apply IH; auto. intros x I. apply F. simpl; auto.
Qed.

Lemma last_snoc {A} (l : list A) x d : last (l ++ [x]) d = x.
Proof. induction l as [|a [|b l] IH]; simpl in *; auto. Qed.

Lemma ver_of_find l id e : find_e id l = Some e -> ver_of l id = e_ver e.
Proof. unfold ver_of. now intros ->. Qed.

Lemma in_ids_change (ch : list (Z * Z)) id : In id (map fst ch) -> exists v, In (id, v) ch.
Proof. rewrite in_map_iff. intros [[i v] [E I]]. simpl in E. subst. eauto. Qed.

Lemma Forall_mono_le {A} (f : A -> Z) (x y : Z) l :
  x <= y -> Forall (fun r => f r <= x) l -> Forall (fun r => f r <= y) l.
Proof. intros L F. eapply Forall_impl; [|exact F]. simpl. intros. lia. Qed.

Lemma step_inv_refused b r a :
  r = Refused \/ r = DryRun -> Inv b -> check_step b r a = true -> Inv a.
Proof.
  intros R I C. destruct (check_refused_facts _ _ _ R C) as [P L].
  unfold proj in P. inversion P as [[PE PJ PV PO]].
  destruct I. constructor; rewrite ?PE, ?PJ, ?PV; auto.
  - eapply Forall_mono_le; eauto.
  - eapply Forall_mono_le; eauto.
Qed.

Lemma step_inv_commit b a q st ch :
  Inv b -> check_step b (Committed q st ch) a = true -> Inv a.
Proof.
  intros I C. apply check_commit_facts in C. destruct C. destruct I.
  destruct cf_seq0 as [SQ1 SQ2]. destruct cf_journal0 as [t [EJ _]].
  assert (forall id, In id (map fst ch) -> exists v e, In (id, v) ch /\ find_e id (s_elems a) = Some e
            /\ e_ver e = v /\ v = ver_of (s_elems b) id + 1
            /\ (forall e0, find_e id (s_elems b) = Some e0 -> e_pay e0 = e_pay e /\ e_kind e0 = e_kind e)) as CH.
  { intros id Hin. destruct (in_ids_change _ _ Hin) as [v Iv].
    destruct (cf_change0 _ _ Iv) as [e [F [V1 [V2 [_ P]]]]]. exists v, e. auto. }
  assert (forall id, ~ In id (map fst ch) -> ver_of (s_elems a) id = ver_of (s_elems b) id) as VF.
  { intros id NI. unfold ver_of. now rewrite (cf_frame0 _ NI). }
  constructor.
  - (* journal sorted *)
    rewrite EJ, map_app. simpl. apply sorted_lt_snoc; auto.
    rewrite Forall_map. eapply Forall_impl; [|exact i_jbound0]. simpl. intros. lia.
  - rewrite EJ. apply Forall_app. split.
    + eapply Forall_mono_le; [|exact i_jbound0]. lia.
    + constructor; auto. simpl. lia.
  - (* version = number of commits *)
    intros id. rewrite EJ, nchanged_snoc. simpl.
    destruct (memZ id (map fst ch)) eqn:M.
    + apply memZ_In in M. destruct (CH _ M) as [v [e [_ [F [V1 [V2 _]]]]]].
      rewrite (ver_of_find _ _ _ F), V1, V2, i_ver0. reflexivity.
    + apply memZ_false in M. rewrite (VF _ M), i_ver0. lia.
  - (* version log = versions 1..n *)
    intros id. rewrite cf_vlog0, vrows_of_app, map_app.
    destruct (in_dec Z.eq_dec id (map fst ch)) as [M|M].
    + destruct (CH _ M) as [v [e [Iv [F [V1 [V2 _]]]]]].
      rewrite (rows_one id v _ _ _ cf_nodup0 Iv). simpl. rewrite row_for_ver. simpl.
      rewrite (ver_of_find _ _ _ F), V1, V2.
      pose proof (nchanged_nonneg (s_journal b) id) as NN. rewrite <- i_ver0 in NN.
      replace (Z.to_nat (ver_of (s_elems b) id + 1)) with (S (Z.to_nat (ver_of (s_elems b) id))) by lia.
      rewrite iota_snoc, i_vlog0. f_equal. f_equal. lia.
    + rewrite (rows_other id _ _ _ M), app_nil_r, (VF _ M). apply i_vlog0.
  - (* newest version = current row *)
    intros id e F. rewrite cf_vlog0, vrows_of_app.
    destruct (in_dec Z.eq_dec id (map fst ch)) as [M|M].
    + destruct (CH _ M) as [v [e' [Iv [F' _]]]].
      rewrite (rows_one id v _ _ _ cf_nodup0 Iv), last_snoc.
      unfold row_for. simpl. rewrite F. reflexivity.
    + rewrite (rows_other id _ _ _ M), app_nil_r. apply i_last0. now rewrite (cf_frame0 _ M).
  - (* chain *)
    intros id. rewrite cf_vlog0, vrows_of_app.
    destruct (in_dec Z.eq_dec id (map fst ch)) as [M|M].
    + destruct (in_ids_change _ _ M) as [v Iv].
      rewrite (rows_one id v _ _ _ cf_nodup0 Iv). apply chain_snoc; auto.
      intros x Ix. rewrite row_for_seq. unfold vrows_of in Ix. apply filter_In in Ix as [Ix _].
      rewrite Forall_forall in i_vbound0. specialize (i_vbound0 _ Ix). simpl in i_vbound0. lia.
    + rewrite (rows_other id _ _ _ M), app_nil_r. apply i_chain0.
  - rewrite cf_vlog0. apply Forall_app. split.
    + eapply Forall_mono_le; [|exact i_vbound0]. lia.
    + rewrite Forall_map. apply Forall_forall. intros c _. rewrite row_for_seq. lia.
  - (* payload constant *)
    intros id e r F. rewrite cf_vlog0, vrows_of_app, in_app_iff.
    destruct (in_dec Z.eq_dec id (map fst ch)) as [M|M].
    + destruct (CH _ M) as [v [e' [Iv [F' [_ [V2 P]]]]]].
      rewrite F in F'. inversion F'; subst e'.
      rewrite (rows_one id v _ _ _ cf_nodup0 Iv).
      intros [Ir|[<-|[]]].
      * destruct (find_e id (s_elems b)) as [e0|] eqn:F0.
        -- destruct (i_pay0 _ _ _ F0 Ir) as [P1 P2]. destruct (P _ eq_refl) as [P3 P4]. split; congruence.
        -- exfalso. specialize (i_vlog0 id). unfold ver_of in i_vlog0. rewrite F0 in i_vlog0. simpl in i_vlog0.
           apply map_eq_nil in i_vlog0. rewrite i_vlog0 in Ir. inversion Ir.
      * unfold row_for. simpl. rewrite F. auto.
    + rewrite (rows_other id _ _ _ M). intros [Ir|[]]. apply (i_pay0 id); auto. now rewrite (cf_frame0 _ M).
  - (* versions start at 1 *)
    intros id e F. destruct (in_dec Z.eq_dec id (map fst ch)) as [M|M].
    + destruct (CH _ M) as [v [e' [_ [F' [V1 [V2 _]]]]]]. rewrite F in F'. inversion F'; subst e'.
      pose proof (nchanged_nonneg (s_journal b) id) as NN. rewrite <- i_ver0 in NN. lia.
    + apply (i_pos0 id). now rewrite (cf_frame0 _ M).
  - exact cf_uniq0.
  - exact cf_nopending0.
Qed.

Theorem step_inv b r a : Inv b -> check_step b r a = true -> Inv a.
Proof.
  destruct r; intros I C.
  - eapply step_inv_refused; eauto.
  - eapply step_inv_refused; eauto.
  - eapply step_inv_commit; eauto.
Qed.

Theorem history_inv steps : forall s, Inv s -> check_history s steps = true -> Forall Inv (states s steps).
Proof.
  induction steps as [|[r a] rest IH]; intros s I C; simpl.
  - constructor; auto.
  - simpl in C. apply andb_true_iff in C as [C1 C2].
    constructor; auto. apply IH; auto. eapply step_inv; eauto.
Qed.

Lemma Inv_empty q o : Inv (mkS [] [] [] q o).
Proof. constructor; simpl; auto; try (intros; discriminate); intros; tauto. Qed.

(* ---------------------------------------------------------------- readable consequences *)

Lemma nodupP_spec l : nodupP l = true -> NoDup l.
Proof.
  induction l as [|x l IH]; simpl; intros E; constructor.
  - apply andb_true_iff in E as [E _]. apply negb_true_iff in E.
    intros I. assert (existsb (pair_eqb x) l = true) as T.
    { apply existsb_exists. exists x. split; auto. unfold pair_eqb. now rewrite !Z.eqb_refl. }
    congruence.
  - apply andb_true_iff in E as [_ E]. auto.
Qed.

Lemma NoDup_map_inj {A B} (f : A -> B) l x y :
  NoDup (map f l) -> In x l -> In y l -> f x = f y -> x = y.
Proof.
  induction l as [|a l IH]; simpl; intros ND Ix Iy E; [tauto|].
  inversion ND; subst.
  destruct Ix as [->|Ix], Iy as [->|Iy]; auto.
  - elim H1. rewrite E. now apply in_map.
  - elim H1. rewrite <- E. now apply in_map.
Qed.

Lemma uniq_spec l :
  uniq_b l = true ->
  NoDup (map e_id l)
  /\ (forall e1 e2, In e1 l -> In e2 l -> e_key e1 <> 0 -> e_kind e1 = e_kind e2 -> e_key e1 = e_key e2 -> e1 = e2).
Proof.
  unfold uniq_b. intros E. apply andb_true_iff in E as [E1 E2].
  apply nodupZ_NoDup in E1. apply nodupP_spec in E2. split; auto.
  intros e1 e2 I1 I2 K Ek Ey. unfold claims in E2.
  assert (In e1 (filter (fun e => negb (e_key e =? 0)) l)) as F1.
  { apply filter_In. split; auto. apply negb_true_iff. now apply Z.eqb_neq. }
  assert (In e2 (filter (fun e => negb (e_key e =? 0)) l)) as F2.
  { apply filter_In. split; auto. apply negb_true_iff. apply Z.eqb_neq. congruence. }
  apply (NoDup_map_inj _ _ _ _ E2 F1 F2). congruence.
Qed.

Lemma history_unique :
  forall steps q o s, check_history (mkS [] [] [] q o) steps = true -> In s (states (mkS [] [] [] q o) steps) ->
    NoDup (map e_id (s_elems s))
    /\ (forall e1 e2, In e1 (s_elems s) -> In e2 (s_elems s) -> e_key e1 <> 0 ->
          e_kind e1 = e_kind e2 -> e_key e1 = e_key e2 -> e1 = e2)
    /\ (forall e, In e (s_elems s) -> e_state e <> PENDING).
Proof.
  intros steps q o s C I.
  pose proof (history_inv steps _ (Inv_empty q o) C) as F. rewrite Forall_forall in F.
  specialize (F _ I). destruct (uniq_spec _ (i_uniq _ F)) as [U1 U2].
  split; [exact U1|]. split; [exact U2|].
  intros e Ie. pose proof (i_nopending _ F) as NP. unfold no_pending_b in NP.
  rewrite forallb_forall in NP. specialize (NP _ Ie). apply negb_true_iff in NP. now apply Z.eqb_neq.
Qed.

Lemma one_bump b a q st ch id :
  check_step b (Committed q st ch) a = true ->
  (In id (map fst ch) -> ver_of (s_elems a) id = ver_of (s_elems b) id + 1)
  /\ (~ In id (map fst ch) -> find_e id (s_elems a) = find_e id (s_elems b)).
Proof.
  intros C. apply check_commit_facts in C. split.
  - intros M. destruct (in_ids_change _ _ M) as [v Iv].
    destruct (cf_change _ _ _ _ _ C _ _ Iv) as [e [F [V1 [V2 _]]]].
    rewrite (ver_of_find _ _ _ F). congruence.
  - intros M. symmetry. exact (cf_frame _ _ _ _ _ C _ M).
Qed.
