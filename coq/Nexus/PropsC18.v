(* C18 — pinned statements only (proofs in Nexus/ProofsAsOf.v). *)
From Coq Require Import List ZArith Bool.
From Verif Require Import Nexus.Model Nexus.Proofs Nexus.ProofsAsOf gen.Gen_Nexus.
Import ListNotations.
Open Scope Z_scope.

(* element_at / elements_at over an append-only log: rows appended beyond the coordinate are invisible. *)
Theorem C18_element_at_stable :
  forall vl later id s, Forall (fun r => s < v_seq r) later ->
    element_at (vl ++ later) id s = element_at vl id s.
Proof. exact element_at_stable. Qed.
Print Assumptions C18_element_at_stable.

Theorem C18_elements_at_stable :
  forall vl later k s, Forall (fun r => s < v_seq r) later ->
    elements_at (vl ++ later) k s = elements_at vl k s.
Proof. exact elements_at_stable. Qed.
Print Assumptions C18_elements_at_stable.

(* the set reconstruction and the single-element read are one function *)
Theorem C18_elements_at_agrees_pointwise :
  forall vl k s id,
    lookup id (elements_at vl k s) = element_at (filter (fun r => v_kind r =? k) vl) id s.
Proof. exact elements_at_pointwise. Qed.
Print Assumptions C18_elements_at_agrees_pointwise.

Theorem C18_elements_at_agrees_pointwise_kind :
  forall vl k s id, (forall r, In r vl -> v_elem r = id -> v_kind r = k) ->
    lookup id (elements_at vl k s) = element_at vl id s.
Proof. exact elements_at_pointwise_kind. Qed.
Print Assumptions C18_elements_at_agrees_pointwise_kind.

(* asof_stable, by induction over histories: whatever is committed, refused or previewed after a point,
   a read AS OF any coordinate that point had reached resolves every element to the same version row *)
Theorem C18_asof_stable :
  forall s steps s' id c, check_history s steps = true -> In s' (states s steps) -> c <= s_seq s ->
    element_at (s_vlog s') id c = element_at (s_vlog s) id c.
Proof. exact history_asof_stable. Qed.
Print Assumptions C18_asof_stable.

Theorem C18_asof_stable_sets :
  forall s steps s' k c, check_history s steps = true -> In s' (states s steps) -> c <= s_seq s ->
    elements_at (s_vlog s') k c = elements_at (s_vlog s) k c.
Proof. exact history_asof_stable_kind. Qed.
Print Assumptions C18_asof_stable_sets.

(* ... and that row is exactly the row that was current when the coordinate was the present *)
Theorem C18_asof_returns_what_was_current :
  forall s steps s' id e, Inv s -> check_history s steps = true -> In s' (states s steps) ->
    find_e id (s_elems s) = Some e ->
    exists r, element_at (s_vlog s') id (s_seq s) = Some r /\ v_dig r = e_dig e /\ v_ver r = e_ver e.
Proof. exact history_asof_is_what_was_current. Qed.
Print Assumptions C18_asof_returns_what_was_current.

Theorem C18_asof_absent_stays_absent :
  forall s steps s' id, Inv s -> check_history s steps = true -> In s' (states s steps) ->
    find_e id (s_elems s) = None -> element_at (s_vlog s') id (s_seq s) = None.
Proof. exact history_asof_absent. Qed.
Print Assumptions C18_asof_absent_stays_absent.

(* the epistemic payload of an assertion / evidence record is identical in every version of it *)
Theorem C18_payload_constant :
  forall s r1 r2, Inv s -> In r1 (s_vlog s) -> In r2 (s_vlog s) -> v_elem r1 = v_elem r2 -> v_pay r1 = v_pay r2.
Proof. exact payload_constant. Qed.
Print Assumptions C18_payload_constant.

(* AS OF TX / AS OF TIME / the schema environment of a coordinate *)
Theorem C18_as_of_tx_stable :
  forall j later tx q, seq_of_tx j tx = Some q -> seq_of_tx (j ++ later) tx = Some q.
Proof. exact seq_of_tx_stable. Qed.
Print Assumptions C18_as_of_tx_stable.

Theorem C18_as_of_tx_is_own_seq : forall j q, In q (map j_seq j) -> seq_of_tx j q = Some q.
Proof. exact seq_of_tx_own. Qed.
Print Assumptions C18_as_of_tx_is_own_seq.

(* [seq_at_time j t] is the journal scan over CANONICAL instants: [j_time] and [t] are ranks of the one normalized
   UTC spelling (time::normalize), under which string order is chronological order.  That the engine hands the
   scan the normalized instant and not the caller's spelling is the generated fact
   [as_of_time_passes_normalized_instant] (C18_generated_history_shape); the replay checks it on every RFC 3339
   spelling of an instant. *)
Theorem C18_as_of_time_stable :
  forall j later t, Forall (fun r => t < j_time r) later -> seq_at_time (j ++ later) t = seq_at_time j t.
Proof. exact seq_at_time_stable. Qed.
Print Assumptions C18_as_of_time_stable.

Theorem C18_schema_version_at_stable :
  forall envs later s, Forall (fun r => s < snd r) later ->
    schema_version_at (envs ++ later) s = schema_version_at envs s.
Proof. exact schema_version_at_stable. Qed.
Print Assumptions C18_schema_version_at_stable.

(* The model transcribes the code that exists: the comparisons and bounds of store/history.rs and the
   append-in-the-same-commit rule of tx.rs, re-extracted from the source on every run. *)
Theorem C18_generated_history_shape :
  element_at_takes_greatest_seq_version = true
  /\ elements_at_takes_greatest_seq_version = true
  /\ seq_at_time_is_last_commit_at_or_before = true
  /\ schema_version_at_is_last_activation_at_or_before = true
  /\ version_row_carries_tx_seq = true
  /\ version_row_recorded_with_put = true
  /\ version_rows_removed_only_by_purge = true
  /\ seq_allocated_at_begin_plus_one = true
  /\ as_of_time_passes_normalized_instant = true.
Proof. repeat split; reflexivity. Qed.
Print Assumptions C18_generated_history_shape.

(* PURGE is the only way the past goes away, and it takes only the purged element's past *)
Theorem C18_purge_leaves_every_other_element :
  forall vl x stub id s, v_elem stub = x -> id <> x ->
    element_at (purge_log vl x stub) id s = element_at vl id s.
Proof. exact purge_leaves_every_other_element. Qed.
Print Assumptions C18_purge_leaves_every_other_element.

Theorem C18_purge_removes_the_past_of_the_purged :
  forall vl x stub s, v_elem stub = x -> s < v_seq stub -> element_at (purge_log vl x stub) x s = None.
Proof. exact purge_removes_the_past_of_the_purged. Qed.
Print Assumptions C18_purge_removes_the_past_of_the_purged.

(* Which re-checks a historical read applies (kql/matching.rs, kql/mod.rs): at a coordinate the indexes say
   nothing, so candidates are rebuilt from the version log and every constraint the index would have enforced
   - recall state first of all - is decided again on the reconstructed row, for every pattern family. *)
Theorem C18_generated_historical_rechecks :
  historical_candidates_rebuilt_from_version_log = true
  /\ historical_load_reads_element_at = true
  /\ historical_element_rechecks_active = true
  /\ historical_element_rechecks_every_matcher_key = true
  /\ state_constraint_reads_system_state = true
  /\ historical_tuple_rechecks_active = true
  /\ historical_tuple_rechecks_endpoints_and_predicate = true
  /\ proposition_by_id_rechecks_active = true
  /\ structural_source_rechecks_active = true
  /\ historical_path_step_rechecks_active = true
  /\ historical_path_seed_rechecks_active = true
  /\ historical_matcher_normalizes_only_indexed_keys = true.
Proof. repeat split; reflexivity. Qed.
Print Assumptions C18_generated_historical_rechecks.

Example C18_nonvacuous :
  let vl := [mkV 1 1 1 1 11 0; mkV 2 1 1 1 21 0; mkV 1 1 2 4 12 0] in
  let later := [mkV 1 1 3 6 13 0; mkV 3 1 1 6 31 0] in
  (element_at (vl ++ later) 1 5, element_at (vl ++ later) 1 1, element_at (vl ++ later) 3 5,
   lookup 1 (elements_at (vl ++ later) 1 5))
  = (Some (mkV 1 1 2 4 12 0), Some (mkV 1 1 1 1 11 0), None, Some (mkV 1 1 2 4 12 0)).
Proof. vm_compute. reflexivity. Qed.
