(* C17 — with the staged lookup in ENSURE, the write loop of the model never fails on the unique
   tuple_key index: every refusal of the model happens before the first write. *)
From Coq Require Import List ZArith Bool Lia.
From Verif Require Import Nexus.Model Nexus.Proofs Nexus.Tx Nexus.TxProofs.
Import ListNotations.
Open Scope Z_scope.

Definition is_tuple (e : elem) (k : Z) : Prop := e_kind e = 2 /\ e_key e = k.

Record PInv (t : txs) : Prop := {
  (* the only stored row carrying a staged tuple's key is that tuple's own row *)
  p_own : forall g e k, In g (t_staged t) -> k <> 0 -> is_tuple (g_row g) k -> In e (t_store t) -> is_tuple e k ->
                        e_id e = g_id g;
  (* two staged tuples with one key are one element *)
  p_staged : forall g1 g2 k, In g1 (t_staged t) -> In g2 (t_staged t) -> k <> 0 ->
                             is_tuple (g_row g1) k -> is_tuple (g_row g2) k -> g_id g1 = g_id g2;
  (* the stored tuples are unique by key *)
  p_store : forall e1 e2 k, In e1 (t_store t) -> In e2 (t_store t) -> k <> 0 -> is_tuple e1 k -> is_tuple e2 k ->
                            e_id e1 = e_id e2;
  (* shells claim nothing *)
  p_shell : forall e, In e (t_store t) -> e_state e = PENDING -> e_key e = 0
}.

(* CREATE has no Proposition form (clauses::declare_handles mints Concept/Evidence/Assertion/Activity) *)
Definition wf_clause (c : clause) : Prop :=
  match c with CCreate kind _ _ _ _ => kind <> 2 | _ => True end.

Lemma in_set_g x l g : In g (set_g x l) -> g = x \/ In g l.
Proof.
  induction l as [|a l IH]; simpl.
  - intros [<-|[]]; auto.
  - destruct (g_id a =? g_id x); simpl; intros [<-|I]; auto. destruct (IH I); auto.
Qed.

Lemma find_g_in id l g : find_g id l = Some g -> In g l /\ g_id g = id.
Proof.
  induction l as [|a l IH]; simpl; [discriminate|].
  destruct (g_id a =? id) eqn:E.
  - intros H; inversion H; subst. apply Z.eqb_eq in E. auto.
  - intros H. destruct (IH H). auto.
Qed.

Lemma pinv_mint t kind : PInv t -> PInv (fst (mint t kind)).
Proof.
  intros [A B C D]. unfold mint; simpl. constructor; simpl.
  - intros g e k Ig K Tg Ie Te. apply in_app_iff in Ie as [Ie|[<-|[]]]; eauto.
    destruct Te as [_ Te]. simpl in Te. congruence.
  - exact B.
  - intros e1 e2 k I1 I2 K T1 T2.
    apply in_app_iff in I1 as [I1|[<-|[]]]; [|destruct T1 as [_ T1]; simpl in T1; congruence].
    apply in_app_iff in I2 as [I2|[<-|[]]]; [|destruct T2 as [_ T2]; simpl in T2; congruence].
    eauto.
  - intros e Ie S. apply in_app_iff in Ie as [Ie|[<-|[]]]; auto.
Qed.

Lemma find_none {A} (f : A -> bool) l : find f l = None -> forall x, In x l -> f x = false.
Proof.
  induction l as [|a l IH]; simpl; intros H x I; [tauto|].
  destruct (f a) eqn:E; [discriminate|]. destruct I as [<-|I]; auto.
Qed.

Lemma pinv_apply f t co t' :
  f_ensure_staged f = true -> f_lookup_staging f = true -> wf_clause (fst co) -> PInv t -> apply f t co = Some t' -> PInv t'.
Proof.
  intros FE FL WF P A. destruct co as [[kind key dig pay ok|named key dig|id dig changes ok] oid]; simpl in A, WF.
  - (* CREATE: the staged row is not a tuple *)
    destruct oid as [id|]; [|discriminate]. destruct ok; [|discriminate]. inversion A; subst; clear A.
    destruct P as [A B C D]. constructor; simpl; auto.
    + intros g e k Ig K Tg Ie Te. apply in_set_g in Ig as [->|Ig]; eauto.
      destruct Tg as [Tg _]. simpl in Tg. contradiction.
    + intros g1 g2 k I1 I2 K T1 T2.
      apply in_set_g in I1 as [->|I1]; [destruct T1 as [T1 _]; simpl in T1; contradiction|].
      apply in_set_g in I2 as [->|I2]; [destruct T2 as [T2 _]; simpl in T2; contradiction|].
      eauto.
  - (* ENSURE *)
    rewrite FE in A.
    destruct (staged_tuple f key (t_staged t)) eqn:ST; [inversion A; subst; auto|].
    destruct (committed_tuple key (t_store t)) eqn:CT; [inversion A; subst; auto|].
    inversion A; subst; clear A.
    pose proof (pinv_mint t 2 P) as P1. unfold mint in P1. simpl in P1.
    destruct P1 as [A B C D]. simpl in *.
    assert (forall e, In e (t_store t ++ [shell (t_next t) 2]) -> key <> 0 -> is_tuple e key -> False) as NOKEY.
    { intros e Ie K [Tk Te]. apply in_app_iff in Ie as [Ie|[<-|[]]]; [|simpl in Te; congruence].
      pose proof (find_none _ _ CT e Ie) as Fn. simpl in Fn.
      rewrite Tk, Te, !Z.eqb_refl in Fn. simpl in Fn. apply negb_false_iff, Z.eqb_eq in Fn.
      pose proof (p_shell _ P e Ie Fn). congruence. }
    constructor; simpl; auto.
    + intros g e k Ig K Tg Ie Te. apply in_set_g in Ig as [->|Ig]; eauto.
      simpl in *. destruct Tg as [_ Tg]. simpl in Tg. subst k. exfalso. eauto.
    + intros g1 g2 k I1 I2 K T1 T2.
      assert (forall g, In g (t_staged t) -> is_tuple (g_row g) key -> False) as NOST.
      { intros g Ig [Tk Te]. pose proof (find_none _ _ ST g Ig) as Fn. simpl in Fn.
        rewrite Tk, Te, !Z.eqb_refl, FL in Fn. discriminate. }
      apply in_set_g in I1 as [->|I1]; apply in_set_g in I2 as [->|I2]; auto; simpl in *.
      * destruct T1 as [_ T1]; simpl in T1; subst k. exfalso; eauto.
      * destruct T2 as [_ T2]; simpl in T2; subst k. exfalso; eauto.
      * eauto.
  - (* a clause on an existing element keeps its kind and key *)
    destruct (find_e id (t_store t)) as [e0|] eqn:FE0; [|discriminate].
    destruct (e_state e0 =? PENDING); [discriminate|].
    destruct ok; [|discriminate]. inversion A; subst; clear A.
    destruct (find_e_id _ _ _ FE0) as [Eid Ein].
    set (g := match find_g id (t_staged t) with Some g => g | None => mkSg id e0 false false false end).
    assert (g_id g = id) as Gid.
    { unfold g. destruct (find_g id (t_staged t)) eqn:FG; auto. now destruct (find_g_in _ _ _ FG). }
    assert (forall e k, k <> 0 -> is_tuple (g_row g) k -> In e (t_store t) -> is_tuple e k -> e_id e = id) as OWN.
    { intros e k K Tg Ie Te. unfold g in Tg. destruct (find_g id (t_staged t)) eqn:FG.
      - destruct (find_g_in _ _ _ FG) as [Ig Gi]. rewrite <- Gi. eapply (p_own _ P); eauto.
      - simpl in Tg. rewrite <- Eid. eapply (p_store _ P); eauto. }
    assert (forall g2 k, In g2 (t_staged t) -> k <> 0 -> is_tuple (g_row g) k -> is_tuple (g_row g2) k -> id = g_id g2) as STG.
    { intros g2 k I2 K Tg T2. unfold g in Tg. destruct (find_g id (t_staged t)) eqn:FG.
      - destruct (find_g_in _ _ _ FG) as [Ig Gi]. rewrite <- Gi. eapply (p_staged _ P); eauto.
      - simpl in Tg. rewrite <- Eid. eapply (p_own _ P); eauto. }
    set (g' := if changes then mkSg id (mkE id (e_kind (g_row g)) (e_ver (g_row g)) (e_state (g_row g)) dig
                                            (e_key (g_row g)) (e_pay (g_row g))) (g_new g) true (g_named g) else g).
    assert (g_id g' = id) as Gid' by (unfold g'; destruct changes; auto).
    assert (forall k, is_tuple (g_row g') k -> is_tuple (g_row g) k) as SAME.
    { unfold g'. destruct changes; auto. }
    destruct P as [A B C D]. constructor; simpl; auto.
    + intros g1 e k Ig K Tg Ie Te. apply in_set_g in Ig as [->|Ig]; eauto.
      rewrite Gid'. eapply OWN; eauto.
    + intros g1 g2 k I1 I2 K T1 T2.
      apply in_set_g in I1 as [->|I1]; apply in_set_g in I2 as [->|I2]; auto.
      * rewrite Gid'. eapply STG; eauto.
      * rewrite Gid'. symmetry. eapply STG; eauto.
      * eauto.
Qed.

Lemma pinv_upto f cs : forall t,
  f_ensure_staged f = true -> f_lookup_staging f = true ->
  Forall (fun co => wf_clause (fst co)) cs -> PInv t -> PInv (fst (apply_upto f t cs)).
Proof.
  induction cs as [|c cs IH]; intros t FE FL WF P; simpl; auto.
  inversion WF; subst. destruct (apply f t c) eqn:A; simpl; auto.
  apply IH; auto. eapply pinv_apply; eauto.
Qed.

Lemma Forall_filter {A} (P : A -> Prop) f l : Forall P l -> Forall P (filter f l).
Proof. induction 1; simpl; auto. destruct (f x); auto. Qed.

Lemma pinv_plan f t cs :
  f_ensure_staged f = true -> f_lookup_staging f = true ->
  Forall (fun co => wf_clause (fst co)) cs -> PInv t -> PInv (fst (plan f t cs)).
Proof.
  intros FE FL WF P. unfold plan.
  pose proof (pinv_upto f (filter (in_pass 0) cs) t FE FL (Forall_filter _ _ _ WF) P) as P0.
  destruct (apply_upto f t (filter (in_pass 0) cs)) as [t0 ok0]; simpl in P0.
  destruct ok0; simpl; auto.
  pose proof (pinv_upto f (filter (in_pass 1) cs) t0 FE FL (Forall_filter _ _ _ WF) P0) as P1.
  destruct (apply_upto f t0 (filter (in_pass 1) cs)) as [t1 ok1]; simpl in P1.
  destruct ok1; simpl; auto.
  apply pinv_upto; auto. now apply Forall_filter.
Qed.

Lemma pinv_declare cs : forall t,
  Forall wf_clause cs -> PInv t ->
  PInv (fst (declare t cs)) /\ Forall (fun co => wf_clause (fst co)) (snd (declare t cs)).
Proof.
  induction cs as [|c cs IH]; intros t WF P; simpl; auto.
  inversion WF; subst.
  destruct c as [kind key dig pay ok|named key dig|id dig changes ok].
  - pose proof (pinv_mint t kind P) as P1. unfold mint in P1. simpl in P1.
    destruct (IH _ H2 P1) as [Q1 Q2]. destruct (declare _ cs) as [t2 r]. simpl in *. split; auto.
  - destruct (IH _ H2 P) as [Q1 Q2]. destruct (declare t cs) as [t2 r]. simpl in *. split; auto.
  - destruct (IH _ H2 P) as [Q1 Q2]. destruct (declare t cs) as [t2 r]. simpl in *. split; auto.
Qed.

Lemma in_put row st e : In e (put row st) -> e = row \/ In e st.
Proof.
  induction st as [|a st IH]; simpl; [tauto|].
  destruct (e_id a =? e_id row); simpl; intros [<-|I]; auto. destruct (IH I); auto.
Qed.

Lemma final_row_tuple g k : is_tuple (final_row g) k <-> is_tuple (g_row g) k.
Proof. unfold is_tuple, final_row; simpl. tauto. Qed.

Lemma write_loop_never_refused q : forall gs st vl ch,
  (forall g e k, In g gs -> k <> 0 -> is_tuple (g_row g) k -> In e st -> is_tuple e k -> e_id e = g_id g) ->
  (forall g1 g2 k, In g1 gs -> In g2 gs -> k <> 0 -> is_tuple (g_row g1) k -> is_tuple (g_row g2) k -> g_id g1 = g_id g2) ->
  snd (write_loop q st vl ch gs) = true.
Proof.
  induction gs as [|g gs IH]; intros st vl ch OWN STG; simpl; auto.
  destruct (g_changed g); simpl.
  - destruct (index_refuses (final_row g) st) eqn:R.
    + exfalso. unfold index_refuses in R.
      apply andb_true_iff in R as [R R3]. apply andb_true_iff in R as [R1 R2].
      apply Z.eqb_eq in R1. apply negb_true_iff, Z.eqb_neq in R2.
      apply existsb_exists in R3 as [e [Ie R3]].
      apply andb_true_iff in R3 as [R3 R5]. apply andb_true_iff in R3 as [R3 R4].
      apply Z.eqb_eq in R3, R4. apply negb_true_iff, Z.eqb_neq in R5.
      apply R5. simpl.
      apply (OWN g e (e_key (final_row g))); simpl; auto.
      * apply final_row_tuple. split; auto.
      * split; auto.
    + apply IH.
      * intros g' e k Ig K Tg Ie Te. apply in_put in Ie as [->|Ie].
        -- simpl. apply (STG g g' k); simpl; auto; try (now apply final_row_tuple).
        -- apply (OWN g' e k); simpl; auto.
      * intros g1 g2 k I1 I2. apply STG; simpl; auto.
  - apply IH.
    + intros g' e k Ig. apply OWN; simpl; auto.
    + intros g1 g2 k I1 I2. apply STG; simpl; auto.
Qed.

(* No statement of well-formed clauses reaches a failing put: with the staged lookup, a refused statement
   is always refused before the first write. *)
Theorem tx_write_loop_never_fails f dry time s stmt :
  f_ensure_staged f = true -> f_lookup_staging f = true -> Forall wf_clause stmt ->
  uniq_b (s_elems s) = true -> no_pending_b (s_elems s) = true ->
  fst (run_statement f dry time s stmt) <> OWriteFailed.
Proof.
  intros FE FL WF U NP. unfold run_statement.
  set (t0 := mkT (s_elems s) [] [] (next_id (s_elems s))).
  assert (PInv t0) as P0.
  { destruct (uniq_spec _ U) as [_ UK]. constructor; simpl.
    - intros g e k [].
    - intros g1 g2 k [].
    - intros e1 e2 k I1 I2 K [K1 Y1] [K2 Y2]. f_equal. apply UK; auto; congruence.
    - intros e Ie S. exfalso. unfold no_pending_b in NP. rewrite forallb_forall in NP.
      specialize (NP _ Ie). apply negb_true_iff, Z.eqb_neq in NP. contradiction. }
  destruct (pinv_declare stmt t0 WF P0) as [P1 W1].
  destruct (declare t0 stmt) as [t1 cs]. simpl in P1, W1.
  pose proof (pinv_plan f t1 cs FE FL W1 P1) as P2.
  destruct (plan f t1 cs) as [t2 ok]. simpl in P2.
  destruct ok; simpl; [|discriminate].
  destruct dry; [discriminate|].
  destruct (key_conflict t2); [discriminate|].
  pose proof (write_loop_never_refused (s_seq s + 1) (t_staged t2) (t_store t2) (s_vlog s) []
                (fun g e k Ig K Tg Ie Te => p_own _ P2 g e k Ig K Tg Ie Te)
                (fun g1 g2 k I1 I2 K T1 T2 => p_staged _ P2 g1 g2 k I1 I2 K T1 T2)) as W.
  destruct (write_loop _ _ _ _ _) as [[[store vl] ch] wrote]. simpl in W. subst wrote. simpl. discriminate.
Qed.

(* refused_noop, unguarded: with the engine as it is now, EVERY refused or previewed statement leaves the
   whole space as it was. *)
Theorem tx_refused_noop_all f dry time s stmt o s' :
  f_plan_abort f = true -> f_refusal_discards f = true -> f_dry_discards f = true -> f_ensure_staged f = true ->
  f_lookup_staging f = true -> Forall wf_clause stmt -> uniq_b (s_elems s) = true -> no_pending_b (s_elems s) = true ->
  run_statement f dry time s stmt = (o, s') ->
  resp_of o = Refused \/ resp_of o = DryRun ->
  proj s' = proj s /\ s_seq s' = s_seq s + 1.
Proof.
  intros F1 F2 F3 F4 F5 WF U NP R O.
  eapply tx_refused_noop; eauto.
  pose proof (tx_write_loop_never_fails f dry time s stmt F4 F5 WF U NP) as NW. rewrite R in NW. simpl in NW.
  destruct o; simpl in O; auto.
  - contradiction.
  - destruct O; discriminate.
Qed.
