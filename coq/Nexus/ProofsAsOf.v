(* C18 — AS OF reads over an append-only version log are stable, agree pointwise, and
   at the present coordinate return the current row. *)
From Coq Require Import List ZArith Bool Lia.
From Verif Require Import Nexus.Model Nexus.Proofs.
Import ListNotations.
Open Scope Z_scope.

(* ---------------------------------------------------------------- stability under appended rows *)

Lemma filter_later_nil {A} (f : A -> bool) (later : list A) :
  Forall (fun r => f r = false) later -> filter f later = [].
Proof. induction 1; simpl; auto. now rewrite H. Qed.

Theorem element_at_stable vl later id s :
  Forall (fun r => s < v_seq r) later ->
  element_at (vl ++ later) id s = element_at vl id s.
Proof.
  intros F. unfold element_at. rewrite filter_app.
  rewrite (filter_later_nil _ later); [now rewrite app_nil_r|].
  eapply Forall_impl; [|exact F]. simpl. intros r L.
  apply andb_false_iff; right. apply Z.leb_gt. lia.
Qed.

Theorem elements_at_stable vl later k s :
  Forall (fun r => s < v_seq r) later ->
  elements_at (vl ++ later) k s = elements_at vl k s.
Proof.
  intros F. unfold elements_at. rewrite filter_app.
  rewrite (filter_later_nil _ later); [now rewrite app_nil_r|].
  eapply Forall_impl; [|exact F]. simpl. intros r L.
  apply andb_false_iff; right. apply Z.leb_gt. lia.
Qed.

(* ---------------------------------------------------------------- elements_at = element_at, pointwise *)

Lemma lookup_upsert_same m r : lookup (v_elem r) (upsert m r) = pick (lookup (v_elem r) m) r.
Proof.
  induction m as [|[k c] m IH]; simpl.
  - now rewrite Z.eqb_refl.
  - destruct (k =? v_elem r) eqn:E; simpl; rewrite E; auto.
    destruct (newer r c); reflexivity.
Qed.

Lemma lookup_upsert_other m r id : v_elem r <> id -> lookup id (upsert m r) = lookup id m.
Proof.
  intros NE. induction m as [|[k c] m IH]; simpl.
  - destruct (v_elem r =? id) eqn:E; auto. apply Z.eqb_eq in E. contradiction.
  - destruct (k =? v_elem r) eqn:E; simpl.
    + apply Z.eqb_eq in E. subst k. destruct (v_elem r =? id) eqn:E2; auto.
      apply Z.eqb_eq in E2. contradiction.
    + destruct (k =? id); auto.
Qed.

Lemma lookup_fold id rows : forall m,
  lookup id (fold_left upsert rows m) =
  fold_left pick (filter (fun r => v_elem r =? id) rows) (lookup id m).
Proof.
  induction rows as [|r rows IH]; intros m; simpl; auto.
  rewrite IH. destruct (v_elem r =? id) eqn:E; simpl.
  - apply Z.eqb_eq in E. subst id. now rewrite lookup_upsert_same.
  - apply Z.eqb_neq in E. now rewrite lookup_upsert_other.
Qed.

Lemma filter_filter {A} (f g : A -> bool) l :
  filter f (filter g l) = filter (fun x => f x && g x) l.
Proof.
  induction l as [|a l IH]; simpl; auto.
  destruct (g a) eqn:G; simpl; rewrite IH.
  - rewrite andb_true_r. reflexivity.
  - rewrite andb_false_r. reflexivity.
Qed.

Lemma filter_ext_b {A} (f g : A -> bool) l : (forall x, f x = g x) -> filter f l = filter g l.
Proof. intros H. induction l; simpl; auto. rewrite H, IHl. reflexivity. Qed.

(* what elements_at holds for an element is what element_at answers over the rows of that kind *)
Theorem elements_at_pointwise vl k s id :
  lookup id (elements_at vl k s) = element_at (filter (fun r => v_kind r =? k) vl) id s.
Proof.
  unfold elements_at, element_at. rewrite lookup_fold. simpl.
  rewrite !filter_filter. f_equal. apply filter_ext_b. intros x.
  destruct (v_elem x =? id), (v_kind x =? k), (v_seq x <=? s); reflexivity.
Qed.

(* when every version of an element carries one kind (an invariant of checked histories) *)
Corollary elements_at_pointwise_kind vl k s id :
  (forall r, In r vl -> v_elem r = id -> v_kind r = k) ->
  lookup id (elements_at vl k s) = element_at vl id s.
Proof.
  intros K. rewrite elements_at_pointwise. unfold element_at. rewrite filter_filter. f_equal.
  clear s0 || idtac.
  induction vl as [|x vl IH]; simpl; auto.
  assert (forall r, In r vl -> v_elem r = id -> v_kind r = k) as K' by (intros; apply K; simpl; auto).
  rewrite (IH K').
  destruct (v_elem x =? id) eqn:E; simpl; auto.
  apply Z.eqb_eq in E. rewrite (K x (or_introl eq_refl) E), Z.eqb_refl, andb_true_r. reflexivity.
Qed.

(* ---------------------------------------------------------------- the present coordinate *)

Lemma last_cons_dummy {A} (a : A) l d : last (a :: l) d = last l a.
Proof.
  revert a d. induction l as [|b l IH]; intros a d; [reflexivity|].
  change (last (a :: b :: l) d) with (last (b :: l) d). rewrite (IH b d), (IH b a). reflexivity.
Qed.

Lemma fold_pick_chain l : forall a, chain_b (a :: l) = true -> fold_left pick l (Some a) = Some (last l a).
Proof.
  induction l as [|b l IH]; intros a C; [reflexivity|].
  rewrite chain_cons in C. apply andb_true_iff in C as [C1 C2].
  change (fold_left pick (b :: l) (Some a)) with (fold_left pick l (pick (Some a) b)).
  unfold pick at 2. rewrite C1, (IH b C2), last_cons_dummy. reflexivity.
Qed.

Lemma filter_bound_drop vl id s :
  Forall (fun r => v_seq r <= s) vl ->
  filter (fun r => (v_elem r =? id) && (v_seq r <=? s)) vl = vrows_of id vl.
Proof.
  unfold vrows_of. induction 1 as [|x l Hx F IH]; simpl; auto.
  apply Z.leb_le in Hx. rewrite Hx, andb_true_r, IH. reflexivity.
Qed.

Lemma element_at_present vl id s :
  Forall (fun r => v_seq r <= s) vl -> chain_b (vrows_of id vl) = true ->
  element_at vl id s = match vrows_of id vl with [] => None | a :: l => Some (last l a) end.
Proof.
  intros B C. unfold element_at. rewrite (filter_bound_drop _ _ _ B).
  destruct (vrows_of id vl) as [|a l]; simpl; auto. now apply fold_pick_chain.
Qed.

Lemma last_in {A} (l : list A) d : l <> [] -> In (last l d) l.
Proof. induction l as [|a [|b l] IH]; intros NE; try congruence; simpl; auto. right. apply IH. discriminate. Qed.

Lemma iota_length k n : List.length (iota_from k n) = n.
Proof. revert k; induction n; intros; simpl; auto. Qed.

Lemma iota_last n : forall k d, last (iota_from k (S n)) d = k + Z.of_nat n.
Proof.
  induction n as [|n IH]; intros k d.
  - simpl. lia.
  - change (iota_from k (S (S n))) with (k :: iota_from (k + 1) (S n)).
    rewrite last_cons_dummy. rewrite IH. lia.
Qed.

Lemma map_last {A B} (f : A -> B) l d : l <> [] -> last (map f l) (f d) = f (last l d).
Proof. induction l as [|a [|b l] IH]; intros NE; try congruence; auto. simpl in *. apply IH. discriminate. Qed.

(* AS OF the present coordinate: the version answered is the element's current row *)
Theorem asof_present s id e :
  Inv s -> find_e id (s_elems s) = Some e ->
  exists r, element_at (s_vlog s) id (s_seq s) = Some r /\ v_dig r = e_dig e /\ v_ver r = e_ver e
            /\ v_pay r = e_pay e /\ v_kind r = e_kind e.
Proof.
  intros I F.
  pose proof (i_vbound _ I) as i_vbound0. pose proof (i_chain _ I) as i_chain0.
  pose proof (i_vlog _ I) as i_vlog0. pose proof (i_last _ I) as i_last0.
  pose proof (i_pay _ I) as i_pay0. pose proof (i_ver _ I) as i_ver0. pose proof (i_pos _ I) as i_pos0.
  rewrite (element_at_present _ _ _ i_vbound0 (i_chain0 id)).
  specialize (i_vlog0 id). specialize (i_last0 _ _ F). specialize (i_pay0 id e).
  rewrite (ver_of_find _ _ _ F) in i_vlog0.
  specialize (i_pos0 _ _ F).
  destruct (vrows_of id (s_vlog s)) as [|a l] eqn:R.
  - simpl in i_vlog0. destruct (Z.to_nat (e_ver e)) eqn:N; [lia|discriminate].
  - exists (last l a). rewrite last_cons_dummy in i_last0.
    assert (In (last l a) (a :: l)) as IL.
    { rewrite <- (last_cons_dummy a l vdummy). apply last_in. discriminate. }
    destruct (i_pay0 (last l a) F IL) as [P K].
    repeat split; auto.
    assert (a :: l <> []) as NE by discriminate.
    pose proof (map_last v_ver (a :: l) vdummy NE) as ML. rewrite i_vlog0 in ML.
    rewrite last_cons_dummy in ML. rewrite <- ML.
    assert (List.length (map v_ver (a :: l)) = Z.to_nat (e_ver e)) as LN by (rewrite i_vlog0; apply iota_length).
    simpl in LN. destruct (Z.to_nat (e_ver e)) as [|n] eqn:N; [discriminate|].
    rewrite iota_last. lia.
Qed.

(* ---------------------------------------------------------------- histories *)

(* a passed step only appends version rows, all of them beyond the sequence the space had *)
Lemma step_appends b r a :
  check_step b r a = true ->
  s_seq b <= s_seq a /\
  exists later, s_vlog a = s_vlog b ++ later /\ Forall (fun x => s_seq b < v_seq x) later.
Proof.
  destruct r; intros C.
  - destruct (check_refused_facts b Refused a (or_introl eq_refl) C) as [P L]. split; auto.
    exists []. unfold proj in P. inversion P. rewrite app_nil_r. auto.
  - destruct (check_refused_facts b DryRun a (or_intror eq_refl) C) as [P L]. split; auto.
    exists []. unfold proj in P. inversion P. rewrite app_nil_r. auto.
  - apply check_commit_facts in C. destruct (cf_seq _ _ _ _ _ C) as [S1 S2]. split; [lia|].
    eexists. split; [exact (cf_vlog _ _ _ _ _ C)|]. rewrite Forall_map. apply Forall_forall. intros c _.
    rewrite row_for_seq. exact S1.
Qed.

Lemma history_appends steps : forall s s',
  check_history s steps = true -> In s' (states s steps) ->
  s_seq s <= s_seq s' /\
  exists later, s_vlog s' = s_vlog s ++ later /\ Forall (fun x => s_seq s < v_seq x) later.
Proof.
  induction steps as [|[r a] rest IH]; intros s s' C I; simpl in I.
  - destruct I as [<-|[]]. split; [lia|]. exists []. now rewrite app_nil_r.
  - destruct I as [<-|I].
    + split; [lia|]. exists []. now rewrite app_nil_r.
    + simpl in C. apply andb_true_iff in C as [C1 C2].
      destruct (step_appends _ _ _ C1) as [L1 [l1 [E1 F1]]].
      destruct (IH _ _ C2 I) as [L2 [l2 [E2 F2]]].
      split; [lia|]. exists (l1 ++ l2). split.
      * rewrite E2, E1, app_assoc. reflexivity.
      * apply Forall_app. split; auto. eapply Forall_impl; [|exact F2]. simpl. intros. lia.
Qed.

(* Whatever is committed, refused or previewed afterwards, a read AS OF a coordinate the space had
   already reached answers from the same version row. *)
Theorem history_asof_stable s steps s' id c :
  check_history s steps = true -> In s' (states s steps) -> c <= s_seq s ->
  element_at (s_vlog s') id c = element_at (s_vlog s) id c.
Proof.
  intros C I L. destruct (history_appends _ _ _ C I) as [_ [later [E F]]].
  rewrite E. apply element_at_stable. eapply Forall_impl; [|exact F]. simpl. intros. lia.
Qed.

Theorem history_asof_stable_kind s steps s' k c :
  check_history s steps = true -> In s' (states s steps) -> c <= s_seq s ->
  elements_at (s_vlog s') k c = elements_at (s_vlog s) k c.
Proof.
  intros C I L. destruct (history_appends _ _ _ C I) as [_ [later [E F]]].
  rewrite E. apply elements_at_stable. eapply Forall_impl; [|exact F]. simpl. intros. lia.
Qed.

(* ... and that row is the one that was current when the coordinate was the present *)
Theorem history_asof_is_what_was_current s steps s' id e :
  Inv s -> check_history s steps = true -> In s' (states s steps) ->
  find_e id (s_elems s) = Some e ->
  exists r, element_at (s_vlog s') id (s_seq s) = Some r /\ v_dig r = e_dig e /\ v_ver r = e_ver e.
Proof.
  intros I C In' F. rewrite (history_asof_stable s steps s' id (s_seq s) C In' (Z.le_refl _)).
  destruct (asof_present s id e I F) as [r [E [D [V _]]]]. eauto.
Qed.

(* an element that did not exist at the coordinate is not there AS OF it, ever *)
Theorem history_asof_absent s steps s' id :
  Inv s -> check_history s steps = true -> In s' (states s steps) ->
  find_e id (s_elems s) = None ->
  element_at (s_vlog s') id (s_seq s) = None.
Proof.
  intros I C In' F. rewrite (history_asof_stable s steps s' id (s_seq s) C In' (Z.le_refl _)).
  pose proof (i_vlog _ I id) as V. unfold ver_of in V. rewrite F in V. simpl in V.
  apply map_eq_nil in V. unfold element_at.
  rewrite (filter_bound_drop _ _ _ (i_vbound _ I)), V. reflexivity.
Qed.

(* the epistemic payload of an assertion / evidence record is the same in every version of it *)
Theorem payload_constant s r1 r2 :
  Inv s -> In r1 (s_vlog s) -> In r2 (s_vlog s) -> v_elem r1 = v_elem r2 -> v_pay r1 = v_pay r2.
Proof.
  intros I I1 I2 E.
  assert (forall r, In r (s_vlog s) -> In r (vrows_of (v_elem r) (s_vlog s))) as Hin.
  { intros r Ir. unfold vrows_of. apply filter_In. split; auto. apply Z.eqb_refl. }
  destruct (find_e (v_elem r1) (s_elems s)) as [e|] eqn:F.
  - destruct (i_pay _ I _ _ _ F (Hin _ I1)) as [P1 _].
    rewrite E in F. destruct (i_pay _ I _ _ _ F (Hin _ I2)) as [P2 _]. congruence.
  - exfalso. pose proof (i_vlog _ I (v_elem r1)) as V. unfold ver_of in V. rewrite F in V. simpl in V.
    apply map_eq_nil in V. specialize (Hin _ I1). rewrite V in Hin. inversion Hin.
Qed.

(* ---------------------------------------------------------------- AS OF TX / AS OF TIME / schema *)

Theorem seq_of_tx_stable j later tx q :
  seq_of_tx j tx = Some q -> seq_of_tx (j ++ later) tx = Some q.
Proof.
  unfold seq_of_tx. rewrite filter_app.
  destruct (filter (fun r => j_seq r =? tx) j); simpl; [discriminate|auto].
Qed.

Lemma fold_skip {A} (f : Z -> A -> Z) (later : list A) :
  (forall acc r, In r later -> f acc r = acc) -> forall acc, fold_left f later acc = acc.
Proof.
  induction later as [|r l IH]; intros H acc; simpl; auto.
  rewrite H by (simpl; auto). apply IH. intros. apply H. simpl; auto.
Qed.

Theorem seq_at_time_stable j later t :
  Forall (fun r => t < j_time r) later -> seq_at_time (j ++ later) t = seq_at_time j t.
Proof.
  intros F. unfold seq_at_time. rewrite fold_left_app. apply fold_skip.
  intros acc r I. rewrite Forall_forall in F. specialize (F _ I). simpl in F.
  assert (j_time r <=? t = false) as -> by (apply Z.leb_gt; lia). reflexivity.
Qed.

Theorem schema_version_at_stable envs later s :
  Forall (fun r => s < snd r) later -> schema_version_at (envs ++ later) s = schema_version_at envs s.
Proof.
  intros F. unfold schema_version_at. rewrite fold_left_app. apply fold_skip.
  intros acc r I. rewrite Forall_forall in F. specialize (F _ I). simpl in F.
  assert (snd r <=? s = false) as -> by (apply Z.leb_gt; lia). reflexivity.
Qed.

(* AS OF TX of a journalled commit resolves to that commit's own sequence *)
Theorem seq_of_tx_own j q : In q (map j_seq j) -> seq_of_tx j q = Some q.
Proof.
  unfold seq_of_tx. intros I. apply in_map_iff in I as [r [E I]].
  destruct (filter (fun r0 => j_seq r0 =? q) j) as [|x l] eqn:Fl.
  - assert (In r (filter (fun r0 => j_seq r0 =? q) j)) as H by (apply filter_In; split; auto; now apply Z.eqb_eq).
    rewrite Fl in H. inversion H.
  - assert (In x (filter (fun r0 => j_seq r0 =? q) j)) as H by (rewrite Fl; simpl; auto).
    apply filter_In in H as [_ H]. apply Z.eqb_eq in H. now rewrite H.
Qed.

(* ---------------------------------------------------------------- PURGE: the one way the past is removed *)

(* governance::purge + Transaction::commit: every version row of the purged element is destroyed and the
   identity stub is recorded as one new version at the purge's own sequence *)
Definition purge_log (vl : list vrow) (x : Z) (stub : vrow) : list vrow :=
  filter (fun r => negb (v_elem r =? x)) vl ++ [stub].

Lemma filter_comm {A} (f g : A -> bool) l : filter f (filter g l) = filter g (filter f l).
Proof. rewrite !filter_filter. apply filter_ext_b. intros. apply andb_comm. Qed.

Theorem purge_leaves_every_other_element vl x stub id s :
  v_elem stub = x -> id <> x -> element_at (purge_log vl x stub) id s = element_at vl id s.
Proof.
  intros E N. unfold element_at, purge_log. rewrite filter_app. simpl.
  assert ((v_elem stub =? id) = false) as -> by (apply Z.eqb_neq; congruence). simpl.
  rewrite app_nil_r, filter_filter. f_equal. apply filter_ext_b. intros r.
  destruct (v_elem r =? id) eqn:E1; simpl; auto.
  apply Z.eqb_eq in E1. assert ((v_elem r =? x) = false) as -> by (apply Z.eqb_neq; congruence).
  now rewrite andb_true_r.
Qed.

Theorem purge_removes_the_past_of_the_purged vl x stub s :
  v_elem stub = x -> s < v_seq stub -> element_at (purge_log vl x stub) x s = None.
Proof.
  intros E L. unfold element_at, purge_log. rewrite filter_app. simpl.
  assert ((v_seq stub <=? s) = false) as -> by (apply Z.leb_gt; lia).
  rewrite andb_false_r, app_nil_r, filter_filter.
  assert (filter (fun r => ((v_elem r =? x) && (v_seq r <=? s)) && negb (v_elem r =? x)) vl = []) as ->.
  { induction vl as [|r vl IH]; simpl; auto. destruct (v_elem r =? x); simpl; auto. now rewrite andb_false_r. }
  reflexivity.
Qed.
