(* C17 — a model of tx.rs / kml/mod.rs: two-phase planning over shells, staging, and commit.
   The four flags are the places where the code decides what a failed statement leaves behind; the
   instance [gen_flags] is read off the source by the translator (gen/Gen_Nexus.v). *)
From Coq Require Import List ZArith Bool Lia.
From Verif Require Import Nexus.Model.
Import ListNotations.
Open Scope Z_scope.

Record flags := mkF {
  f_plan_abort : bool;        (* kml::execute: a planning error calls tx.abort() (discard_shells) *)
  f_refusal_discards : bool;  (* Transaction::commit: a failed commit check discards the shells *)
  f_dry_discards : bool;      (* Transaction::commit: a dry run discards the shells *)
  f_ensure_staged : bool;     (* ensure_proposition asks tx.staged_proposition before the unique index *)
  f_lookup_staging : bool     (* ... and staged_proposition walks the staging map (not just what the handles name) *)
}.

(* What a clause does to the transaction, abstracted to what matters for atomicity. *)
Inductive clause :=
| CCreate (kind key dig pay : Z) (ok : bool)   (* CREATE CONCEPT / EVIDENCE / ASSERTION / ACTIVITY ?h: the handle's shell is
                                                  minted in phase 1; applying validates ([ok]) and stages the final row *)
| CEnsure (named : bool) (key dig : Z)          (* ENSURE PROPOSITION [?h] of the tuple [key] (named = it binds a handle; the ASSERT
                                                  sugar always does): resolve or mint + stage *)
| CTouch (id dig : Z) (changes ok : bool).      (* UPDATE / ARCHIVE / RETRACT ... of an existing element: load it, stage the new
                                                  row when something changes, fail when a guard does *)

(* clauses::plan_pass *)
Definition cpass (c : clause) : Z :=
  match c with
  | CCreate 1 _ _ _ _ => 0
  | CEnsure _ _ _ => 1
  | _ => 2
  end.

Record sg := mkSg { g_id : Z; g_row : elem; g_new : bool; g_changed : bool;
                    g_named : bool   (* some handle of the block names this element *) }.

Record txs := mkT {
  t_store : list elem;     (* the element collections, shells included *)
  t_staged : list sg;
  t_shells : list Z;
  t_next : Z               (* the next document id anda_db will assign *)
}.

Definition shell (id kind : Z) : elem := mkE id kind 1 PENDING 0 0 0.

Definition mint (t : txs) (kind : Z) : txs * Z :=
  (mkT (t_store t ++ [shell (t_next t) kind]) (t_staged t) (t_shells t ++ [t_next t]) (t_next t + 1), t_next t).

(* phase 1: clauses::declare_handles over every clause *)
Fixpoint declare (t : txs) (cs : list clause) : txs * list (clause * option Z) :=
  match cs with
  | [] => (t, [])
  | (CCreate kind _ _ _ _ as c) :: cs =>
      let '(t1, id) := mint t kind in
      let '(t2, r) := declare t1 cs in (t2, (c, Some id) :: r)
  | c :: cs => let '(t2, r) := declare t cs in (t2, (c, None) :: r)
  end.

Fixpoint find_g (id : Z) (l : list sg) : option sg :=
  match l with [] => None | g :: l => if g_id g =? id then Some g else find_g id l end.

Fixpoint set_g (g : sg) (l : list sg) : list sg :=
  match l with
  | [] => [g]
  | x :: l => if g_id x =? g_id g then g :: l else x :: set_g g l
  end.

(* Transaction::staged_proposition: over the staging map, or (the seeded variant) only over the elements
   the block's handles name *)
Definition staged_tuple (f : flags) (key : Z) (l : list sg) : option sg :=
  find (fun g => (e_kind (g_row g) =? 2) && (e_key (g_row g) =? key) && (f_lookup_staging f || g_named g)) l.

Definition committed_tuple (key : Z) (store : list elem) : option elem :=
  find (fun e => (e_kind e =? 2) && (e_key e =? key) && negb (e_state e =? PENDING)) store.

(* phase 2: clauses::apply; None = the clause returned Err *)
Definition apply (f : flags) (t : txs) (co : clause * option Z) : option txs :=
  match co with
  | (CCreate kind key dig pay ok, Some id) =>
      if ok then Some (mkT (t_store t) (set_g (mkSg id (mkE id kind 0 0 dig key pay) true true true) (t_staged t)) (t_shells t) (t_next t))
      else None
  | (CCreate _ _ _ _ _, None) => None
  | (CEnsure named key dig, _) =>
      match (if f_ensure_staged f then staged_tuple f key (t_staged t) else None) with
      | Some _ => Some t
      | None =>
          match committed_tuple key (t_store t) with
          | Some _ => Some t
          | None =>
              let '(t1, id) := mint t 2 in
              Some (mkT (t_store t1) (set_g (mkSg id (mkE id 2 0 0 dig key 0) true true named) (t_staged t1)) (t_shells t1) (t_next t1))
          end
      end
  | (CTouch id dig changes ok, _) =>
      match find_e id (t_store t) with
      | None => None
      | Some e =>
          if e_state e =? PENDING then None else
          let g := match find_g id (t_staged t) with Some g => g | None => mkSg id e false false false end in
          let g' := if changes then mkSg id (mkE id (e_kind (g_row g)) (e_ver (g_row g)) (e_state (g_row g)) dig
                                              (e_key (g_row g)) (e_pay (g_row g))) (g_new g) true (g_named g) else g in
          if ok then Some (mkT (t_store t) (set_g g' (t_staged t)) (t_shells t) (t_next t)) else None
      end
  end.

Fixpoint apply_all (f : flags) (t : txs) (cs : list (clause * option Z)) : option txs :=
  match cs with
  | [] => Some t
  | c :: cs => match apply f t c with Some t1 => apply_all f t1 cs | None => None end
  end.

(* kml::plan: pass 0, 1, 2 over the same clause list; the transaction as it stands when a clause fails *)
Fixpoint apply_upto (f : flags) (t : txs) (cs : list (clause * option Z)) : txs * bool :=
  match cs with
  | [] => (t, true)
  | c :: cs => match apply f t c with Some t1 => apply_upto f t1 cs | None => (t, false) end
  end.

Definition in_pass (p : Z) (co : clause * option Z) : bool := cpass (fst co) =? p.

Definition plan (f : flags) (t : txs) (cs : list (clause * option Z)) : txs * bool :=
  let '(t0, ok0) := apply_upto f t (filter (in_pass 0) cs) in
  if negb ok0 then (t0, false) else
  let '(t1, ok1) := apply_upto f t0 (filter (in_pass 1) cs) in
  if negb ok1 then (t1, false) else
  apply_upto f t1 (filter (in_pass 2) cs).

Definition discard (shells : list Z) (store : list elem) : list elem :=
  filter (fun e => negb (memZ (e_id e) shells)) store.

(* check_concept_key_identity: a changed keyed concept whose (type,) key another staged concept or another
   stored concept holds *)
Definition key_conflict (t : txs) : bool :=
  let cl := filter (fun g => g_changed g && (e_kind (g_row g) =? 1) && negb (e_key (g_row g) =? 0)) (t_staged t) in
  negb (nodupZ (map (fun g => e_key (g_row g)) cl))
  || existsb (fun g => existsb (fun e => (e_kind e =? 1) && (e_key e =? e_key (g_row g)) && negb (e_id e =? g_id g)) (t_store t)) cl.

Fixpoint put (row : elem) (store : list elem) : list elem :=
  match store with
  | [] => []
  | e :: l => if e_id e =? e_id row then row :: l else e :: put row l
  end.

(* the unique index on tuple_key refuses a second row with the key *)
Definition index_refuses (row : elem) (store : list elem) : bool :=
  (e_kind row =? 2) && negb (e_key row =? 0)
  && existsb (fun e => (e_kind e =? 2) && (e_key e =? e_key row) && negb (e_id e =? e_id row)) store.

Definition final_row (g : sg) : elem :=
  let r := g_row g in
  mkE (g_id g) (e_kind r) (if g_new g then 1 else e_ver r + 1)
      (if e_state r =? PENDING then 0 else e_state r) (e_dig r) (e_key r) (e_pay r).

(* the write loop of commit: rows are written one by one; a failing put returns the error with the earlier
   rows already in place *)
Fixpoint write_loop (q : Z) (store : list elem) (vl : list vrow) (ch : list (Z * Z)) (gs : list sg)
  : list elem * list vrow * list (Z * Z) * bool :=
  match gs with
  | [] => (store, vl, ch, true)
  | g :: gs =>
      if negb (g_changed g) then write_loop q store vl ch gs else
      let row := final_row g in
      if index_refuses row store then (store, vl, ch, false) else
      write_loop q (put row store) (vl ++ [mkV (g_id g) (e_kind row) (e_ver row) q (e_dig row) (e_pay row)])
                 (ch ++ [(g_id g, e_ver row)]) gs
  end.

Inductive outcome :=
| OPlanRefused            (* a clause failed: Response::from(err) after the abort *)
| OCommitRefused          (* reference closure / key identity refused the commit *)
| OWriteFailed            (* a put failed inside the write loop *)
| ODry
| OCommitted (q st : Z) (ch : list (Z * Z)).

Definition resp_of (o : outcome) : resp :=
  match o with
  | OPlanRefused | OCommitRefused | OWriteFailed => Refused
  | ODry => DryRun
  | OCommitted q st ch => Committed q st ch
  end.

Definition next_id (l : list elem) : Z := fold_right (fun e m => Z.max (e_id e + 1) m) 1 l.

Definition run_statement (f : flags) (dry : bool) (time : Z) (s : space) (stmt : list clause) : outcome * space :=
  let q := s_seq s + 1 in                                     (* Store::begin_transaction *)
  let t0 := mkT (s_elems s) [] [] (next_id (s_elems s)) in
  let '(t1, cs) := declare t0 stmt in
  let '(t2, ok) := plan f t1 cs in
  let mk els j vl := mkS els j vl q (s_obs s) in
  if negb ok then
    (OPlanRefused, mk (if f_plan_abort f then discard (t_shells t2) (t_store t2) else t_store t2) (s_journal s) (s_vlog s))
  else if dry then
    (ODry, mk (if f_dry_discards f then discard (t_shells t2) (t_store t2) else t_store t2) (s_journal s) (s_vlog s))
  else if key_conflict t2 then
    (OCommitRefused, mk (if f_refusal_discards f then discard (t_shells t2) (t_store t2) else t_store t2) (s_journal s) (s_vlog s))
  else
    let '(store, vl, ch, wrote) := write_loop q (t_store t2) (s_vlog s) [] (t_staged t2) in
    if negb wrote then (OWriteFailed, mk store (s_journal s) vl)
    else
      let written := map fst ch in
      let store' := discard (filter (fun id => negb (memZ id written)) (t_shells t2)) store in
      let st := match ch with [] => 1 | _ => 0 end in
      (OCommitted q st ch, mk store' (s_journal s ++ [mkJ q st time written]) vl).
