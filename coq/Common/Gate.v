(* Common/Gate.v — shared/exclusive gate with an admission flag (DESIGN.md section 3).

   The pattern used by Collection (`operation_gate` + `lifecycle`), by the B-tree/BM25
   `mutation_gate` and by the Nexus write lock:

     mutator :  acquire shared ; check flag ; work* ; release
     closer  :  publish (flag := non-admitting) ; acquire exclusive ; work* ; release

   Any number of threads (the program counters are a list of arbitrary length), any
   interleaving (the step relation picks any thread), and the flag may also be moved by the
   environment at any time along [ftrans], which never turns a non-admitting flag into an
   admitting one.  The lock state is derived from the program counters: a thread holds the
   shared side from MHeld until it leaves MAdmitted, the exclusive side while in CHeld.
   A write-preferring or fair lock only removes behaviours.  Memory orderings and scheduler
   fairness are outside this model. *)
From Coq Require Import List Bool Arith Lia.
Import ListNotations.

Inductive pc : Type :=
| MIdle | MHeld | MAdmitted | MDone            (* mutator *)
| CIdle | CPublished | CHeld | CDone.          (* closer  *)

Definition holds_shared (p : pc) : bool := match p with MHeld | MAdmitted => true | _ => false end.
Definition holds_excl (p : pc) : bool := match p with CHeld => true | _ => false end.
Definition published (p : pc) : bool := match p with CPublished | CHeld | CDone => true | _ => false end.
Definition passed (p : pc) : bool := match p with CHeld | CDone => true | _ => false end.

Fixpoint upd {A} (l : list A) (i : nat) (x : A) : list A :=
  match l, i with
  | [], _ => []
  | _ :: r, O => x :: r
  | a :: r, S i' => a :: upd r i' x
  end.

Lemma nth_error_upd_same {A} (l : list A) i x y :
  nth_error l i = Some y -> nth_error (upd l i x) i = Some x.
Proof. revert i; induction l; destruct i; simpl; intros; try discriminate; auto. Qed.

Lemma nth_error_upd_other {A} (l : list A) i j x :
  i <> j -> nth_error (upd l i x) j = nth_error l j.
Proof.
  revert i j; induction l; intros i j H; destruct i, j; simpl; auto; try congruence.
Qed.

Lemma nth_error_upd {A} (l : list A) i j x y p :
  nth_error l i = Some y -> nth_error (upd l i x) j = Some p ->
  (j = i /\ p = x) \/ (j <> i /\ nth_error l j = Some p).
Proof.
  intros Hi Hj. destruct (Nat.eq_dec j i) as [->|Hne].
  - rewrite (nth_error_upd_same _ _ _ _ Hi) in Hj. left; split; congruence.
  - rewrite nth_error_upd_other in Hj by congruence. right; auto.
Qed.

Section Gate.
  Variable F : Type.
  Variable adm : F -> bool.                 (* does this flag value admit mutations? *)
  Variable ftrans : F -> F -> Prop.         (* moves of the flag by anyone, at any time *)
  Variable pubs : F -> F -> Prop.           (* the publish step of a closer *)
  Hypothesis ftrans_mono : forall f f', ftrans f f' -> adm f = false -> adm f' = false.
  Hypothesis pubs_closed : forall f f', pubs f f' -> adm f' = false.

  Record gstate := mkG { g_flag : F; g_pcs : list pc }.

  Inductive glabel := LTau | LWrite (i : nat) | LCloserWrite (i : nat).

  Definition free_for_shared (l : list pc) : bool := forallb (fun p => negb (holds_excl p)) l.
  Definition free_for_excl (l : list pc) : bool := forallb (fun p => negb (holds_shared p || holds_excl p)) l.

  Definition at_pc (s : gstate) (i : nat) (p : pc) : Prop := nth_error (g_pcs s) i = Some p.
  Definition set_pc (s : gstate) (i : nat) (p : pc) : gstate := mkG (g_flag s) (upd (g_pcs s) i p).

  Inductive gstep : gstate -> glabel -> gstate -> Prop :=
  | st_acquire_shared s i : at_pc s i MIdle -> free_for_shared (g_pcs s) = true ->
      gstep s LTau (set_pc s i MHeld)
  | st_check_pass s i : at_pc s i MHeld -> adm (g_flag s) = true -> gstep s LTau (set_pc s i MAdmitted)
  | st_check_reject s i : at_pc s i MHeld -> adm (g_flag s) = false -> gstep s LTau (set_pc s i MDone)
  | st_work s i : at_pc s i MAdmitted -> gstep s (LWrite i) s
  | st_release s i : at_pc s i MAdmitted -> gstep s LTau (set_pc s i MDone)
  | st_publish s i f' : at_pc s i CIdle -> pubs (g_flag s) f' ->
      gstep s LTau (mkG f' (upd (g_pcs s) i CPublished))
  | st_acquire_excl s i : at_pc s i CPublished -> free_for_excl (g_pcs s) = true ->
      gstep s LTau (set_pc s i CHeld)
  | st_closer_work s i : at_pc s i CHeld -> gstep s (LCloserWrite i) s
  | st_closer_release s i : at_pc s i CHeld -> gstep s LTau (set_pc s i CDone)
  | st_env s f' : ftrans (g_flag s) f' -> gstep s LTau (mkG f' (g_pcs s)).

  Inductive gsteps : gstate -> list glabel -> gstate -> Prop :=
  | gs_nil s : gsteps s [] s
  | gs_cons s l s' tr s'' : gstep s l s' -> gsteps s' tr s'' -> gsteps s (l :: tr) s''.

  Definition ginit (s : gstate) : Prop :=
    forall i p, at_pc s i p -> p = MIdle \/ p = CIdle.

  Definition greach (s : gstate) : Prop := exists s0 tr, ginit s0 /\ gsteps s0 tr s.

  Definition some_pc (s : gstate) (q : pc -> bool) : Prop := exists i p, at_pc s i p /\ q p = true.

  Record inv (s : gstate) : Prop := mkInv {
    inv_flag : some_pc s published -> adm (g_flag s) = false;
    inv_excl : some_pc s holds_excl -> forall j p, at_pc s j p -> holds_shared p = false;
    inv_one : forall i j, at_pc s i CHeld -> at_pc s j CHeld -> i = j;
    inv_retired : some_pc s passed -> forall j, ~ at_pc s j MAdmitted }.

  Lemma forallb_nth {A} (f : A -> bool) l i x :
    forallb f l = true -> nth_error l i = Some x -> f x = true.
  Proof.
    intros H Hn. rewrite forallb_forall in H. apply H. eapply nth_error_In; eauto.
  Qed.

  Lemma inv_init s : ginit s -> inv s.
  Proof.
    intros Hi. constructor.
    - intros (i & p & Hp & Hq). destruct (Hi _ _ Hp); subst; discriminate.
    - intros (i & p & Hp & Hq). destruct (Hi _ _ Hp); subst; discriminate.
    - intros i j Hp. destruct (Hi _ _ Hp); discriminate.
    - intros (i & p & Hp & Hq). destruct (Hi _ _ Hp); subst; discriminate.
  Qed.

  (* how [some_pc] and [at_pc] behave under an update of one program counter *)
  Lemma some_pc_set s i old new q :
    at_pc s i old -> some_pc (set_pc s i new) q -> q new = true \/ some_pc s q.
  Proof.
    intros Hold (j & p & Hp & Hq). unfold at_pc, set_pc in *; simpl in *.
    destruct (nth_error_upd _ _ _ _ _ _ Hold Hp) as [[-> ->]|[Hne Hj]]; auto.
    right. exists j, p; auto.
  Qed.

  Lemma at_pc_set s i old new j p :
    at_pc s i old -> at_pc (set_pc s i new) j p -> (j = i /\ p = new) \/ (j <> i /\ at_pc s j p).
  Proof. intros Hold Hp. unfold at_pc, set_pc in *; simpl in *. eapply nth_error_upd; eauto. Qed.

  Lemma inv_step s l s' : inv s -> gstep s l s' -> inv s'.
  Proof.
    intros [If Ie Io Ir] Hs. inversion Hs; subst; clear Hs.
    - (* acquire shared: nobody holds the exclusive side *)
      assert (Hnoex : ~ some_pc s holds_excl).
      { intros (j & p & Hp & Hq). pose proof (forallb_nth _ _ _ _ H0 Hp) as Hf. cbv beta in Hf.
        rewrite Hq in Hf. discriminate. }
      constructor.
      + intros Hp. destruct (some_pc_set _ _ _ _ _ H Hp) as [Hq|Hq]; [discriminate|auto].
      + intros Hp. destruct (some_pc_set _ _ _ _ _ H Hp) as [Hq|Hq]; [discriminate|contradiction].
      + intros a b Ha Hb.
        destruct (at_pc_set _ _ _ _ _ _ H Ha) as [[_ Hx]|[_ Ha']]; [discriminate|].
        destruct (at_pc_set _ _ _ _ _ _ H Hb) as [[_ Hx]|[_ Hb']]; [discriminate|]. eauto.
      + intros Hp j Hj. destruct (some_pc_set _ _ _ _ _ H Hp) as [Hq|Hq]; [discriminate|].
        destruct (at_pc_set _ _ _ _ _ _ H Hj) as [[_ Hx]|[_ Hj']]; [discriminate|].
        exact (Ir Hq j Hj').
    - (* check passes: the flag admits, so nobody has published *)
      assert (Hnopub : ~ some_pc s published).
      { intros Hp. rewrite (If Hp) in H0. discriminate. }
      assert (Hnopass : ~ some_pc s passed).
      { intros (j & p & Hp & Hq). apply Hnopub. exists j, p; split; auto. destruct p; try discriminate; auto. }
      constructor.
      + intros Hp. destruct (some_pc_set _ _ _ _ _ H Hp) as [Hq|Hq]; [discriminate|contradiction].
      + intros Hp. destruct (some_pc_set _ _ _ _ _ H Hp) as [Hq|Hq]; [discriminate|].
        exfalso. destruct Hq as (j & p & Hj & Hq). pose proof (Ie (ex_intro _ j (ex_intro _ p (conj Hj Hq))) _ _ H).
        discriminate.
      + intros a b Ha Hb.
        destruct (at_pc_set _ _ _ _ _ _ H Ha) as [[_ Hx]|[_ Ha']]; [discriminate|].
        destruct (at_pc_set _ _ _ _ _ _ H Hb) as [[_ Hx]|[_ Hb']]; [discriminate|]. eauto.
      + intros Hp. destruct (some_pc_set _ _ _ _ _ H Hp) as [Hq|Hq]; [discriminate|contradiction].
    - (* check rejects *)
      constructor.
      + intros Hp. destruct (some_pc_set _ _ _ _ _ H Hp) as [Hq|Hq]; [discriminate|auto].
      + intros Hp j p Hj. destruct (some_pc_set _ _ _ _ _ H Hp) as [Hq|Hq]; [discriminate|].
        destruct (at_pc_set _ _ _ _ _ _ H Hj) as [[_ ->]|[_ Hj']]; [reflexivity|eauto].
      + intros a b Ha Hb.
        destruct (at_pc_set _ _ _ _ _ _ H Ha) as [[_ Hx]|[_ Ha']]; [discriminate|].
        destruct (at_pc_set _ _ _ _ _ _ H Hb) as [[_ Hx]|[_ Hb']]; [discriminate|]. eauto.
      + intros Hp j Hj. destruct (some_pc_set _ _ _ _ _ H Hp) as [Hq|Hq]; [discriminate|].
        destruct (at_pc_set _ _ _ _ _ _ H Hj) as [[_ Hx]|[_ Hj']]; [discriminate|].
        exact (Ir Hq j Hj').
    - (* work *) constructor; auto.
    - (* release shared *)
      constructor.
      + intros Hp. destruct (some_pc_set _ _ _ _ _ H Hp) as [Hq|Hq]; [discriminate|auto].
      + intros Hp j p Hj. destruct (some_pc_set _ _ _ _ _ H Hp) as [Hq|Hq]; [discriminate|].
        destruct (at_pc_set _ _ _ _ _ _ H Hj) as [[_ ->]|[_ Hj']]; [reflexivity|eauto].
      + intros a b Ha Hb.
        destruct (at_pc_set _ _ _ _ _ _ H Ha) as [[_ Hx]|[_ Ha']]; [discriminate|].
        destruct (at_pc_set _ _ _ _ _ _ H Hb) as [[_ Hx]|[_ Hb']]; [discriminate|]. eauto.
      + intros Hp j Hj. destruct (some_pc_set _ _ _ _ _ H Hp) as [Hq|Hq]; [discriminate|].
        destruct (at_pc_set _ _ _ _ _ _ H Hj) as [[_ Hx]|[_ Hj']]; [discriminate|].
        exact (Ir Hq j Hj').
    - (* publish *)
      change (mkG f' (upd (g_pcs s) i CPublished)) with (set_pc (mkG f' (g_pcs s)) i CPublished).
      set (s1 := mkG f' (g_pcs s)).
      assert (H1 : at_pc s1 i CIdle) by exact H.
      assert (Hsome : forall q, some_pc s1 q -> some_pc s q) by (intros q Hq; exact Hq).
      constructor.
      + intros _. simpl. eapply pubs_closed; eauto.
      + intros Hp j p Hj. destruct (some_pc_set _ _ _ _ _ H1 Hp) as [Hq|Hq]; [discriminate|].
        destruct (at_pc_set _ _ _ _ _ _ H1 Hj) as [[_ ->]|[_ Hj']]; [reflexivity|].
        exact (Ie (Hsome _ Hq) j p Hj').
      + intros a b Ha Hb.
        destruct (at_pc_set _ _ _ _ _ _ H1 Ha) as [[_ Hx]|[_ Ha']]; [discriminate|].
        destruct (at_pc_set _ _ _ _ _ _ H1 Hb) as [[_ Hx]|[_ Hb']]; [discriminate|].
        exact (Io a b Ha' Hb').
      + intros Hp j Hj. destruct (some_pc_set _ _ _ _ _ H1 Hp) as [Hq|Hq]; [discriminate|].
        destruct (at_pc_set _ _ _ _ _ _ H1 Hj) as [[_ Hx]|[_ Hj']]; [discriminate|].
        exact (Ir (Hsome _ Hq) j Hj').
    - (* acquire exclusive: nobody holds either side *)
      assert (Hfree : forall j p, at_pc s j p -> holds_shared p = false /\ holds_excl p = false).
      { intros j p Hp. pose proof (forallb_nth _ _ _ _ H0 Hp) as Hf. cbv beta in Hf.
        apply negb_true_iff, orb_false_iff in Hf. exact Hf. }
      constructor.
      + intros _. simpl. apply If. exists i, CPublished; split; auto.
      + intros _ j p Hj. destruct (at_pc_set _ _ _ _ _ _ H Hj) as [[_ ->]|[_ Hj']]; [reflexivity|].
        apply (Hfree _ _ Hj').
      + intros a b Ha Hb.
        destruct (at_pc_set _ _ _ _ _ _ H Ha) as [[Ea _]|[_ Ha']];
        destruct (at_pc_set _ _ _ _ _ _ H Hb) as [[Eb _]|[_ Hb']]; subst; auto;
        try (destruct (Hfree _ _ Ha'); discriminate); try (destruct (Hfree _ _ Hb'); discriminate).
      + intros _ j Hj. destruct (at_pc_set _ _ _ _ _ _ H Hj) as [[_ Hx]|[_ Hj']]; [discriminate|].
        destruct (Hfree _ _ Hj'); discriminate.
    - (* closer work *) constructor; auto.
    - (* release exclusive *)
      assert (Hpass : some_pc s passed) by (exists i, CHeld; split; auto).
      assert (Hpub : some_pc s published) by (exists i, CHeld; split; auto).
      constructor.
      + intros _. simpl. auto.
      + intros Hp j p Hj. destruct (some_pc_set _ _ _ _ _ H Hp) as [Hq|Hq]; [discriminate|].
        destruct (at_pc_set _ _ _ _ _ _ H Hj) as [[_ ->]|[_ Hj']]; [reflexivity|eauto].
      + intros a b Ha Hb.
        destruct (at_pc_set _ _ _ _ _ _ H Ha) as [[_ Hx]|[_ Ha']]; [discriminate|].
        destruct (at_pc_set _ _ _ _ _ _ H Hb) as [[_ Hx]|[_ Hb']]; [discriminate|]. eauto.
      + intros _ j Hj. destruct (at_pc_set _ _ _ _ _ _ H Hj) as [[_ Hx]|[_ Hj']]; [discriminate|].
        exact (Ir Hpass j Hj').
    - (* environment moves the flag *)
      constructor; simpl.
      + intros Hp. eapply ftrans_mono; eauto.
      + exact Ie.
      + exact Io.
      + exact Ir.
  Qed.

  Lemma inv_steps s tr s' : inv s -> gsteps s tr s' -> inv s'.
  Proof. intros Hi Hs; induction Hs; auto. apply IHHs. eapply inv_step; eauto. Qed.

  Theorem greach_inv s : greach s -> inv s.
  Proof. intros (s0 & tr & H0 & Hs). eapply inv_steps; eauto using inv_init. Qed.

  (* while a closer holds the exclusive side nobody holds the shared side, and it is alone *)
  Theorem gate_exclusion s i :
    greach s -> at_pc s i CHeld ->
    (forall j p, at_pc s j p -> holds_shared p = false) /\ (forall j, at_pc s j CHeld -> j = i).
  Proof.
    intros Hr Hi. destruct (greach_inv _ Hr) as [_ Ie Io _]. split.
    - apply Ie. exists i, CHeld; split; auto.
    - intros j Hj. eauto.
  Qed.

  (* once some closer has published and obtained the exclusive side, no mutator is admitted *)
  Theorem gate_retired s :
    greach s -> some_pc s passed -> adm (g_flag s) = false /\ forall j, ~ at_pc s j MAdmitted.
  Proof.
    intros Hr Hp. destruct (greach_inv _ Hr) as [If _ _ Ir]. split; auto.
    apply If. destruct Hp as (i & p & Hp & Hq). exists i, p; split; auto. destruct p; try discriminate; auto.
  Qed.

  Lemma passed_stable s l s' : gstep s l s' -> some_pc s passed -> some_pc s' passed.
  Proof.
    intros Hs (j & p & Hp & Hq).
    assert (Hset : forall i old new, at_pc s i old -> (passed old = true -> passed new = true) ->
                                     some_pc (set_pc s i new) passed).
    { intros i old new Hold Himp. destruct (Nat.eq_dec j i) as [->|Hne].
      - exists i, new. split. unfold at_pc, set_pc; simpl. eapply nth_error_upd_same; eauto.
        apply Himp. unfold at_pc in *. rewrite Hold in Hp. inversion Hp; subst; auto.
      - exists j, p. split; auto. unfold at_pc, set_pc; simpl. rewrite nth_error_upd_other; auto. }
    inversion Hs; subst; try (eapply Hset; eauto; discriminate); try (exists j, p; split; auto; fail).
  Qed.

  (* ... and none is admitted in any later state: the trace after that point contains no
     mutator write, whatever the interleaving and however many calls were queued *)
  Theorem silent_after_retire s tr s' :
    greach s -> some_pc s passed -> gsteps s tr s' -> forall i, ~ In (LWrite i) tr.
  Proof.
    intros Hr Hp Hs. revert Hr Hp. induction Hs; intros Hr Hp i Hin; [inversion Hin|].
    assert (Hr' : greach s').
    { destruct Hr as (s0 & tr0 & H0 & Hs0). exists s0, (tr0 ++ [l]). split; auto.
      clear - Hs0 H. induction Hs0; simpl; [econstructor; eauto; constructor|econstructor; eauto]. }
    destruct Hin as [->|Hin].
    - inversion H; subst. destruct (gate_retired _ Hr Hp) as [_ Hn]. eapply Hn; eauto.
    - eapply IHHs; eauto using passed_stable.
  Qed.

  (* a call that is queued (not yet admitted) when the closer has passed the gate is rejected *)
  Theorem queued_call_rejected s i s' l :
    greach s -> some_pc s passed -> at_pc s i MHeld -> gstep s l s' -> at_pc s' i MHeld \/ at_pc s' i MDone.
  Proof.
    intros Hr Hp Hi Hs. destruct (gate_retired _ Hr Hp) as [Hadm _].
    assert (Hset : forall k old new, at_pc s k old -> k <> i -> at_pc (set_pc s k new) i MHeld).
    { intros k old new Hk Hne. unfold at_pc, set_pc in *; simpl. rewrite nth_error_upd_other; auto. }
    inversion Hs; subst; auto;
      try (destruct (Nat.eq_dec i0 i) as [->|Hne];
           [unfold at_pc in *; rewrite Hi in H; inversion H; subst; try discriminate|left; eapply Hset; eauto]).
    - rewrite Hadm in H0; discriminate.
    - right. unfold at_pc, set_pc; simpl. eapply nth_error_upd_same; eauto.
  Qed.
End Gate.
