(* Common/CommitPoint.v — "fresh objects, then one pointer write, then deletes of
   unreachable paths" is atomic under every crash prefix (DESIGN.md section 3).

   Setting.  One distinguished path [ptr] holds the pointer object (a manifest, a
   metadata blob, a sidecar, ...).  [refs m] lists the paths the pointer object [m]
   references.  What a loader can observe of a store is [read s]: the pointer object
   together with the content (or absence) of every path it references, in the order of
   [refs].  Every concrete loader (B-tree load_all, BM25 load, wrapper get) is a function
   of [read], so equalities of [read] transfer to it by [f_equal].

   A commit is a step list  pre ++ [Put ptr m'] ++ post  where every step of [pre] avoids
   [ptr] and the paths referenced by the *currently committed* pointer, and every step of
   [post] avoids [ptr] and the paths referenced by the *new* pointer [m'].  [pre] and
   [post] may contain both puts and deletes.

   INTERFACE (stable):
     reach, read, quiet, WellFormedCommit, commit_point_atomic, commit_point_new_value,
     read_quiet (frame lemma), quietb, split_at_ptr, wf_commit, wf_commit_sound,
     wf_abort, abort_invisible, wf_history, history_atomic. *)
From Coq Require Import List Arith Lia Bool.
From Verif Require Import Common.ObjStore.
Import ListNotations.

Set Implicit Arguments.

Section CommitPoint.
  Variables P O : Type.
  Variable peq : forall a b : P, {a = b} + {a <> b}.
  Variable ptr : P.
  Variable refs : O -> list P.

  Notation store := (store P O).
  Notation step := (step P O).
  Notation get := (get peq).
  Notation apply := (apply peq).
  Notation crash := (crash peq).

  (* paths reachable from the committed pointer *)
  Definition reach (s : store) : list P :=
    match get s ptr with Some m => refs m | None => [] end.

  (* everything a loader can see *)
  Definition read (s : store) : option (O * list (option O)) :=
    match get s ptr with
    | None => None
    | Some m => Some (m, map (get s) (refs m))
    end.

  Definition quiet (avoid : list P) (st : step) : Prop :=
    touched st <> ptr /\ ~ In (touched st) avoid.

  Definition WellFormedCommit (s : store) (l : list step) (m' : O) : Prop :=
    exists pre post,
      l = pre ++ Put ptr m' :: post /\
      Forall (quiet (reach s)) pre /\
      Forall (quiet (refs m')) post.

  (* ---- frame lemma: quiet steps are invisible *)
  Lemma read_quiet l s : Forall (quiet (reach s)) l -> read (apply s l) = read s.
  Proof.
    intros F. unfold read.
    assert (Hp : get (apply s l) ptr = get s ptr).
    { apply get_apply_untouched. intros st Hin. rewrite Forall_forall in F. apply (F st Hin). }
    rewrite Hp. destruct (get s ptr) as [m|] eqn:E; auto.
    f_equal. f_equal. apply map_ext_in. intros p Hin.
    apply get_apply_untouched. intros st Hst. rewrite Forall_forall in F.
    destruct (F st Hst) as [_ Hn]. unfold reach in Hn. rewrite E in Hn.
    intro Heq. apply Hn. rewrite Heq. exact Hin.
  Qed.

  Lemma Forall_firstn (A : Type) (Q : A -> Prop) (l : list A) k : Forall Q l -> Forall Q (firstn k l).
  Proof.
    revert k; induction l; intros k F; destruct k; simpl; auto.
    inversion F; subst. constructor; auto.
  Qed.

  Lemma reach_put_ptr s m : reach (put s ptr m) = refs m.
  Proof. unfold reach. rewrite get_put_same. reflexivity. Qed.

  (* ---- the theorem *)
  Theorem commit_point_atomic s l m' :
    WellFormedCommit s l m' ->
    forall k, read (crash k l s) = read s \/ read (crash k l s) = read (apply s l).
  Proof.
    intros (pre & post & -> & Fpre & Fpost) k.
    destruct (le_lt_dec k (length pre)) as [Hk|Hk].
    - left. rewrite crash_app_l; auto. unfold ObjStore.crash.
      apply read_quiet. apply Forall_firstn; auto.
    - right. rewrite crash_app_r by lia.
      remember (k - length pre) as j. destruct j as [|j]; [lia|].
      unfold ObjStore.crash. simpl firstn. rewrite apply_cons. rewrite apply_app, apply_cons.
      simpl apply_step.
      set (s1 := put (apply s pre) ptr m').
      transitivity (read s1).
      + apply read_quiet. unfold s1. rewrite reach_put_ptr. apply Forall_firstn; auto.
      + symmetry. apply read_quiet. unfold s1. rewrite reach_put_ptr. auto.
  Qed.

  (* what the committed state looks like: the new pointer and, for every path it
     references, what the payload phase left there (side condition: the pointer object
     does not reference its own path) *)
  Theorem commit_point_new_value s pre post m' :
    ~ In ptr (refs m') ->
    Forall (quiet (refs m')) post ->
    read (apply s (pre ++ Put ptr m' :: post)) = Some (m', map (get (apply s pre)) (refs m')).
  Proof.
    intros Hself Fpost. rewrite apply_app, apply_cons. simpl apply_step.
    rewrite read_quiet by (rewrite reach_put_ptr; auto).
    unfold read. rewrite get_put_same. f_equal. f_equal.
    apply map_ext_in. intros p Hin. apply get_put_other.
    intro Heq. subst p. contradiction.
  Qed.

  (* ---- executable checker (doubles as a monitor over a recorded mutation log) *)
  Definition quietb (avoid : list P) (st : step) : bool :=
    (if peq (touched st) ptr then false else true) && negb (mem_path peq (touched st) avoid).

  Lemma quietb_sound avoid st : quietb avoid st = true -> quiet avoid st.
  Proof.
    unfold quietb, quiet. intros H. apply andb_true_iff in H as [H1 H2].
    destruct (peq (touched st) ptr); [discriminate|]. split; auto.
    apply negb_true_iff in H2. apply mem_path_false in H2. auto.
  Qed.

  Lemma forallb_quietb_sound avoid l : forallb (quietb avoid) l = true -> Forall (quiet avoid) l.
  Proof.
    intros H. apply Forall_forall. intros st Hin.
    apply quietb_sound. rewrite forallb_forall in H. auto.
  Qed.

  (* split a log at its first write of the pointer *)
  Fixpoint split_at_ptr (l : list step) : option (list step * O * list step) :=
    match l with
    | [] => None
    | st :: r =>
        match st with
        | Put p o =>
            if peq p ptr then Some ([], o, r)
            else match split_at_ptr r with
                 | Some (a, m, b) => Some (st :: a, m, b)
                 | None => None
                 end
        | Del _ =>
            match split_at_ptr r with
            | Some (a, m, b) => Some (st :: a, m, b)
            | None => None
            end
        end
    end.

  Lemma split_at_ptr_sound l : forall a m b,
      split_at_ptr l = Some (a, m, b) -> l = a ++ Put ptr m :: b.
  Proof.
    induction l as [|st r IH]; intros a m b H; simpl in H; [discriminate|].
    destruct st as [p o|p].
    - destruct (peq p ptr).
      + inversion H; subst. reflexivity.
      + destruct (split_at_ptr r) as [[[a' m'] b']|]; [|discriminate].
        inversion H; subst. simpl. f_equal. apply IH; auto.
    - destruct (split_at_ptr r) as [[[a' m'] b']|]; [|discriminate].
      inversion H; subst. simpl. f_equal. apply IH; auto.
  Qed.

  Definition wf_commit (s : store) (l : list step) : bool :=
    match split_at_ptr l with
    | None => false
    | Some (pre, m', post) =>
        forallb (quietb (reach s)) pre && forallb (quietb (refs m')) post
    end.

  Theorem wf_commit_sound s l :
    wf_commit s l = true -> exists m', WellFormedCommit s l m'.
  Proof.
    unfold wf_commit. destruct (split_at_ptr l) as [[[pre m'] post]|] eqn:E; [|discriminate].
    intros H. apply andb_true_iff in H as [H1 H2].
    exists m', pre, post. split; [apply split_at_ptr_sound; auto|].
    split; apply forallb_quietb_sound; auto.
  Qed.

  Corollary wf_commit_atomic s l :
    wf_commit s l = true ->
    forall k, read (crash k l s) = read s \/ read (crash k l s) = read (apply s l).
  Proof. intros H. destruct (wf_commit_sound _ _ H) as [m' W]. eapply commit_point_atomic; eauto. Qed.

  (* an attempt that never reaches its pointer write (error or crash before commit) *)
  Definition wf_abort (s : store) (l : list step) : bool := forallb (quietb (reach s)) l.

  Theorem abort_invisible s l :
    wf_abort s l = true -> forall k, read (crash k l s) = read s.
  Proof.
    intros H k. unfold ObjStore.crash. apply read_quiet. apply Forall_firstn.
    apply forallb_quietb_sound; auto.
  Qed.

  (* ---- histories: a sequence of commits / aborted attempts, each well formed with
     respect to the store its predecessors left *)
  Fixpoint wf_history (s : store) (ls : list (list step)) : bool :=
    match ls with
    | [] => true
    | l :: r => (wf_commit s l || wf_abort s l) && wf_history (apply s l) r
    end.

  Theorem history_atomic ls : forall s,
      wf_history s ls = true ->
      forall k, exists j, j <= length ls /\
                          read (crash k (concat ls) s) = read (apply s (concat (firstn j ls))).
  Proof.
    induction ls as [|l r IH]; intros s H k.
    - exists 0. split; auto. simpl. unfold ObjStore.crash. rewrite firstn_nil. reflexivity.
    - simpl in H. apply andb_true_iff in H as [Hl Hr]. simpl concat.
      destruct (le_lt_dec k (length l)) as [Hk|Hk].
      + rewrite crash_app_l by auto.
        apply orb_true_iff in Hl as [Hc|Ha].
        * destruct (wf_commit_atomic _ _ Hc k) as [E|E].
          -- exists 0. split; [lia|]. simpl. exact E.
          -- exists 1. split; [simpl; lia|]. simpl. rewrite app_nil_r. exact E.
        * exists 0. split; [lia|]. simpl. apply abort_invisible; auto.
      + rewrite crash_app_r by lia.
        destruct (IH _ Hr (k - length l)) as (j & Hj & E).
        exists (S j). split; [simpl; lia|]. simpl. rewrite apply_app. exact E.
  Qed.

End CommitPoint.
