(* Common/ObjStore.v — the crash model shared by C10, C11, C08, C01 (DESIGN.md section 3).

   A backend is a finite map path -> object, represented as an association list with
   shadowing (the head binding wins).  A step is [Put p o] or [Del p]; every individual
   step is atomic and a sequence of steps can be interrupted anywhere: [crash k l s]
   applies the first [k] steps of [l] to [s].  This is the repository's own crash model
   (docs/testing.md) and what FaultStore::crash_after_mutations implements.

   Everything is parametric in the path type [P] (with a decidable equality passed
   explicitly as [peq]) and the object type [O].  Stores are compared through [get]
   ([store_eq]); no canonical form is required.

   INTERFACE (stable):
     store P O, step P O (Put/Del), touched, get, put, del, apply_step, apply, crash,
     store_eq, mem_path, apply_app, crash_le_length, crash_all, crash_0,
     get_apply_untouched, apply_store_eq, crash_app_l, crash_app_r. *)
From Coq Require Import List Arith Lia Bool.
Import ListNotations.

Set Implicit Arguments.

Section ObjStore.
  Variables P O : Type.
  Variable peq : forall a b : P, {a = b} + {a <> b}.

  Definition store := list (P * O).

  Inductive step : Type :=
  | Put (p : P) (o : O)
  | Del (p : P).

  Definition touched (st : step) : P :=
    match st with Put p _ => p | Del p => p end.

  Fixpoint get (s : store) (p : P) : option O :=
    match s with
    | [] => None
    | (q, o) :: r => if peq q p then Some o else get r p
    end.

  Definition put (s : store) (p : P) (o : O) : store := (p, o) :: s.

  Fixpoint del (s : store) (p : P) : store :=
    match s with
    | [] => []
    | (q, o) :: r => if peq q p then del r p else (q, o) :: del r p
    end.

  Definition apply_step (s : store) (st : step) : store :=
    match st with
    | Put p o => put s p o
    | Del p => del s p
    end.

  Definition apply (s : store) (l : list step) : store := fold_left apply_step l s.

  (* the store after a crash that let exactly the first k steps through *)
  Definition crash (k : nat) (l : list step) (s : store) : store := apply s (firstn k l).

  Definition store_eq (s1 s2 : store) : Prop := forall p, get s1 p = get s2 p.

  Definition mem_path (p : P) (l : list P) : bool :=
    if in_dec peq p l then true else false.

  Lemma mem_path_true p l : mem_path p l = true <-> In p l.
  Proof. unfold mem_path. destruct (in_dec peq p l); split; intros; auto; discriminate. Qed.

  Lemma mem_path_false p l : mem_path p l = false <-> ~ In p l.
  Proof. unfold mem_path. destruct (in_dec peq p l); split; intros; auto; try discriminate; tauto. Qed.

  (* ---- get / put / del *)
  Lemma get_put_same s p o : get (put s p o) p = Some o.
  Proof. simpl. destruct (peq p p); congruence. Qed.

  Lemma get_put_other s p q o : p <> q -> get (put s p o) q = get s q.
  Proof. intros. simpl. destruct (peq p q); congruence. Qed.

  Lemma get_del_same s p : get (del s p) p = None.
  Proof.
    induction s as [|[q o] r IH]; simpl; auto.
    destruct (peq q p); auto. simpl. destruct (peq q p); congruence.
  Qed.

  Lemma get_del_other s p q : p <> q -> get (del s p) q = get s q.
  Proof.
    intros Hn. induction s as [|[x o] r IH]; simpl; auto.
    destruct (peq x p); simpl.
    - subst. destruct (peq p q); congruence.
    - destruct (peq x q); auto.
  Qed.

  Lemma get_apply_step_untouched s st q : touched st <> q -> get (apply_step s st) q = get s q.
  Proof. destruct st; simpl; intros. apply get_put_other; auto. apply get_del_other; auto. Qed.

  (* ---- apply / crash *)
  Lemma apply_app s l1 l2 : apply s (l1 ++ l2) = apply (apply s l1) l2.
  Proof. unfold apply. apply fold_left_app. Qed.

  Lemma apply_nil s : apply s [] = s.
  Proof. reflexivity. Qed.

  Lemma apply_cons s st l : apply s (st :: l) = apply (apply_step s st) l.
  Proof. reflexivity. Qed.

  Lemma crash_0 l s : crash 0 l s = s.
  Proof. reflexivity. Qed.

  Lemma crash_all l s k : length l <= k -> crash k l s = apply s l.
  Proof. intros. unfold crash. rewrite firstn_all2; auto. Qed.

  Lemma crash_app_l k l1 l2 s : k <= length l1 -> crash k (l1 ++ l2) s = crash k l1 s.
  Proof.
    intros. unfold crash. rewrite firstn_app.
    replace (k - length l1) with 0 by lia. simpl. rewrite app_nil_r. reflexivity.
  Qed.

  Lemma crash_app_r k l1 l2 s :
    length l1 <= k -> crash k (l1 ++ l2) s = crash (k - length l1) l2 (apply s l1).
  Proof.
    intros. unfold crash. rewrite firstn_app, apply_app. rewrite firstn_all2; auto.
  Qed.

  Lemma get_apply_untouched l : forall s q,
      (forall st, In st l -> touched st <> q) -> get (apply s l) q = get s q.
  Proof.
    induction l as [|st l IH]; intros s q H; auto.
    rewrite apply_cons, IH.
    - apply get_apply_step_untouched. apply H. left; auto.
    - intros. apply H. right; auto.
  Qed.

  Lemma apply_step_store_eq s1 s2 st :
    store_eq s1 s2 -> store_eq (apply_step s1 st) (apply_step s2 st).
  Proof.
    intros E q. destruct st as [p o|p]; simpl.
    - destruct (peq p q); auto.
    - destruct (peq p q).
      + subst. rewrite !get_del_same. auto.
      + rewrite !get_del_other; auto.
  Qed.

  Lemma apply_store_eq l : forall s1 s2, store_eq s1 s2 -> store_eq (apply s1 l) (apply s2 l).
  Proof.
    induction l; intros; auto. rewrite !apply_cons. apply IHl. apply apply_step_store_eq; auto.
  Qed.

  Lemma store_eq_refl s : store_eq s s.
  Proof. intro; reflexivity. Qed.

  Lemma store_eq_sym s1 s2 : store_eq s1 s2 -> store_eq s2 s1.
  Proof. intros E p; symmetry; apply E. Qed.

  Lemma store_eq_trans s1 s2 s3 : store_eq s1 s2 -> store_eq s2 s3 -> store_eq s1 s3.
  Proof. intros E1 E2 p; rewrite E1; apply E2. Qed.

End ObjStore.

Arguments Put {P O} p o.
Arguments Del {P O} p.
