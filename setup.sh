#!/bin/bash
# Build the framework from files on disk only (offline): generated facts, the Coq
# development (full .vo build), and the Rust harness against /repo's working tree.
set -u
cd /verif
export CARGO_NET_OFFLINE=true
mkdir -p .cache evidence replays
python3 tools/translate.py --repo /repo --out coq/gen || echo "translator reported lost anchors (checks will report them)"
python3 - <<'PY'
import sys
sys.path.insert(0, '/verif/lib')
import vlib
ck = vlib.Check('setup', 'quick', 1)
ck.coq_project()
PY
(cd coq && timeout 3000 make -k -j16 2>&1 | grep -v "^Closed under\|^COQC\|^COQDEP" | tail -30)
[ -f harness/Cargo.lock ] || cp /repo/Cargo.lock harness/Cargo.lock
(cd harness && CARGO_TARGET_DIR=/verif/.cache/target RUSTFLAGS="--cfg anda_verif" timeout 6000 cargo build --offline --workspace --keep-going 2>&1 | grep -v "^warning\|^ *|\|^ *=\|^ *-->\|^$" | tail -20)
echo "setup done"
