//! C03 — filters are set algebra; a bounded page is an end of the full result.
//!
//! Builds real collections (ids uncorrelated with key order, duplicate / array / missing values,
//! removals and updates), runs `query_ids` / `query_last_ids` / `query_all_ids` / `search_ids` of the
//! implementation on generated filter trees and limits, and writes
//!   {"kind":"model","case":(coll, [(filter, entry)]),"obs":[[ids]]}   one line per collection,
//!   {"kind":"summary", ...}                                            counts, distribution, oracle failures.
//! The direct oracle is the set-algebra reading of the filter over the harness's own copy of the
//! documents (never over the index dump that is handed to the model).
use anda_db::{
    collection::{Collection, CollectionConfig},
    database::{AndaDB, DBConfig},
    index::HnswConfig,
    query::{Filter, Query, RRFReranker, RangeQuery, Search},
    schema::{Document, FieldEntry, FieldType, Fv, Schema, bf16},
    storage::StorageConfig,
};
use futures::FutureExt;
use h_common::*;
use object_store::memory::InMemory;
use serde_json::{Value, json};
use std::collections::{BTreeMap, BTreeSet};
use std::io::Write;
use std::panic::AssertUnwindSafe;
use std::sync::Arc;

// ------------------------------------------------------------------------------------------ filters
#[derive(Clone, Debug)]
enum Rq {
    Eq(i64),
    Gt(i64),
    Ge(i64),
    Lt(i64),
    Le(i64),
    Between(i64, i64),
    Include(Vec<i64>),
    Or(Vec<Rq>),
    And(Vec<Rq>),
    Not(Box<Rq>),
}

#[derive(Clone, Debug)]
enum Flt {
    Field(usize, Rq),
    /// a Field whose keys all have a type the index cannot convert (error stream)
    BadKey(usize, Rq),
    Or(Vec<Flt>),
    And(Vec<Flt>),
    Not(Box<Flt>),
}

/// index 0 is the primary key; 1..=4 are B-tree indexes (U64, Text, U64 array, I64); 5 does not exist
const IDX: [&str; 6] = ["_id", "age", "name", "nums", "lvl", "nosuch"];
const UNKNOWN: usize = 5;

fn to_fv(idx: usize, v: i64) -> Fv {
    match idx {
        2 => Fv::Text(format!("k{:03}", v.max(0))),
        4 => Fv::I64(v),
        _ => Fv::U64(v.max(0) as u64),
    }
}

/// keys of a type the index key cannot be converted from
fn wrong_fv(idx: usize, v: i64) -> Fv {
    match idx {
        2 => Fv::U64(v.max(0) as u64),
        _ => Fv::Text(format!("k{:03}", v.max(0))),
    }
}

fn to_range_with(idx: usize, q: &Rq, fv: &dyn Fn(usize, i64) -> Fv) -> RangeQuery<Fv> {
    match q {
        Rq::Eq(a) => RangeQuery::Eq(fv(idx, *a)),
        Rq::Gt(a) => RangeQuery::Gt(fv(idx, *a)),
        Rq::Ge(a) => RangeQuery::Ge(fv(idx, *a)),
        Rq::Lt(a) => RangeQuery::Lt(fv(idx, *a)),
        Rq::Le(a) => RangeQuery::Le(fv(idx, *a)),
        Rq::Between(a, b) => RangeQuery::Between(fv(idx, *a), fv(idx, *b)),
        Rq::Include(ks) => RangeQuery::Include(ks.iter().map(|k| fv(idx, *k)).collect()),
        Rq::Or(qs) => RangeQuery::Or(qs.iter().map(|q| Box::new(to_range_with(idx, q, fv))).collect()),
        Rq::And(qs) => RangeQuery::And(qs.iter().map(|q| Box::new(to_range_with(idx, q, fv))).collect()),
        Rq::Not(q) => RangeQuery::Not(Box::new(to_range_with(idx, q, fv))),
    }
}

fn to_range(idx: usize, q: &Rq) -> RangeQuery<Fv> {
    match q {
        Rq::Eq(a) => RangeQuery::Eq(to_fv(idx, *a)),
        Rq::Gt(a) => RangeQuery::Gt(to_fv(idx, *a)),
        Rq::Ge(a) => RangeQuery::Ge(to_fv(idx, *a)),
        Rq::Lt(a) => RangeQuery::Lt(to_fv(idx, *a)),
        Rq::Le(a) => RangeQuery::Le(to_fv(idx, *a)),
        Rq::Between(a, b) => RangeQuery::Between(to_fv(idx, *a), to_fv(idx, *b)),
        Rq::Include(ks) => RangeQuery::Include(ks.iter().map(|k| to_fv(idx, *k)).collect()),
        Rq::Or(qs) => RangeQuery::Or(qs.iter().map(|q| Box::new(to_range(idx, q))).collect()),
        Rq::And(qs) => RangeQuery::And(qs.iter().map(|q| Box::new(to_range(idx, q))).collect()),
        Rq::Not(q) => RangeQuery::Not(Box::new(to_range(idx, q))),
    }
}

fn to_filter(f: &Flt) -> Filter {
    match f {
        Flt::Field(i, q) => Filter::Field((IDX[*i].to_string(), to_range(*i, q))),
        Flt::BadKey(i, q) => Filter::Field((IDX[*i].to_string(), to_range_with(*i, q, &wrong_fv))),
        Flt::Or(fs) => Filter::Or(fs.iter().map(|f| Box::new(to_filter(f))).collect()),
        Flt::And(fs) => Filter::And(fs.iter().map(|f| Box::new(to_filter(f))).collect()),
        Flt::Not(f) => Filter::Not(Box::new(to_filter(f))),
    }
}

fn rq_term(q: &Rq) -> Value {
    match q {
        Rq::Eq(a) => ctor("REq", vec![json!(a)]),
        Rq::Gt(a) => ctor("RGt", vec![json!(a)]),
        Rq::Ge(a) => ctor("RGe", vec![json!(a)]),
        Rq::Lt(a) => ctor("RLt", vec![json!(a)]),
        Rq::Le(a) => ctor("RLe", vec![json!(a)]),
        Rq::Between(a, b) => ctor("RBetween", vec![json!(a), json!(b)]),
        Rq::Include(ks) => ctor("RInclude", vec![json!(ks)]),
        Rq::Or(qs) => ctor("ROr", vec![Value::Array(qs.iter().map(rq_term).collect())]),
        Rq::And(qs) => ctor("RAnd", vec![Value::Array(qs.iter().map(rq_term).collect())]),
        Rq::Not(q) => ctor("RNot", vec![rq_term(q)]),
    }
}

fn flt_term(f: &Flt) -> Value {
    match f {
        Flt::Field(i, q) => ctor("FField", vec![json!(IDX[*i]), rq_term(q)]),
        Flt::BadKey(i, q) => ctor("FFieldBad", vec![json!(IDX[*i]), rq_term(q)]),
        Flt::Or(fs) => ctor("FOr", vec![Value::Array(fs.iter().map(flt_term).collect())]),
        Flt::And(fs) => ctor("FAnd", vec![Value::Array(fs.iter().map(flt_term).collect())]),
        Flt::Not(f) => ctor("FNot", vec![flt_term(f)]),
    }
}

// ------------------------------------------------------------------------------------------ oracle
#[derive(Clone, Debug, Default, PartialEq)]
struct Vals {
    age: Option<i64>,
    name: Option<i64>,
    nums: Vec<i64>,
    lvl: Option<i64>,
    body: String,
    title: String,
    vec: [f32; 4],
}

impl Vals {
    fn keys(&self, idx: usize) -> Vec<i64> {
        match idx {
            1 => self.age.into_iter().collect(),
            2 => self.name.into_iter().collect(),
            3 => self.nums.clone(),
            4 => self.lvl.into_iter().collect(),
            _ => vec![],
        }
    }
}

fn key_matches(k: i64, q: &Rq) -> bool {
    match q {
        Rq::Eq(a) => k == *a,
        Rq::Gt(a) => k > *a,
        Rq::Ge(a) => k >= *a,
        Rq::Lt(a) => k < *a,
        Rq::Le(a) => k <= *a,
        Rq::Between(a, b) => *a <= k && k <= *b,
        Rq::Include(ks) => ks.contains(&k),
        Rq::Or(qs) => qs.iter().any(|q| key_matches(k, q)),
        // an empty conjunction matches nothing, as the code documents
        Rq::And(qs) => !qs.is_empty() && qs.iter().all(|q| key_matches(k, q)),
        Rq::Not(q) => !key_matches(k, q),
    }
}

/// The set-algebra reading: field predicate = some indexed key of the document satisfies it.
fn denote(f: &Flt, id: u64, v: &Vals) -> bool {
    match f {
        Flt::Field(0, q) => key_matches(id as i64, q),
        Flt::Field(i, q) => v.keys(*i).iter().any(|k| key_matches(*k, q)),
        Flt::BadKey(_, _) => false,
        Flt::Or(fs) => fs.iter().any(|f| denote(f, id, v)),
        Flt::And(fs) => !fs.is_empty() && fs.iter().all(|f| denote(f, id, v)),
        Flt::Not(f) => !denote(f, id, v),
    }
}

/// does the tree name an unknown index or carry an unconvertible key (then an error is legitimate)?
fn contains_bad(f: &Flt) -> bool {
    match f {
        Flt::Field(i, _) => *i == UNKNOWN,
        Flt::BadKey(_, _) => true,
        Flt::Or(fs) | Flt::And(fs) => fs.iter().any(contains_bad),
        Flt::Not(f) => contains_bad(f),
    }
}

/// The documented complexity budget, counted independently of the implementation:
/// depth <= 64 (filter root at 0, a range query one below its Field), nodes <= 4096,
/// branches (children of And/Or at both levels) <= 1024, Include list <= 4096 keys.
fn over_budget(f: &Flt) -> bool {
    fn rq(q: &Rq, depth: usize, nodes: &mut usize, branches: &mut usize, over: &mut bool) {
        if depth > 64 { *over = true; return; }
        *nodes += 1;
        match q {
            Rq::Include(ks) => { if ks.len() > 4096 { *over = true; } }
            Rq::Or(qs) | Rq::And(qs) => { *branches += qs.len(); for q in qs { rq(q, depth + 1, nodes, branches, over); } }
            Rq::Not(q) => rq(q, depth + 1, nodes, branches, over),
            _ => {}
        }
    }
    fn fl(f: &Flt, depth: usize, nodes: &mut usize, branches: &mut usize, over: &mut bool) {
        if depth > 64 { *over = true; return; }
        *nodes += 1;
        match f {
            Flt::Field(_, q) | Flt::BadKey(_, q) => rq(q, depth + 1, nodes, branches, over),
            Flt::Or(fs) | Flt::And(fs) => { *branches += fs.len(); for f in fs { fl(f, depth + 1, nodes, branches, over); } }
            Flt::Not(f) => fl(f, depth + 1, nodes, branches, over),
        }
    }
    let (mut n, mut b, mut over) = (0usize, 0usize, false);
    fl(f, 0, &mut n, &mut b, &mut over);
    over || n > 4096 || b > 1024
}

// ------------------------------------------------------------------------------------------ generators
struct Gen {
    rng: Rng,
    kmax: i64,
    max_id: i64,
}

impl Gen {
    fn val(&mut self, idx: usize) -> i64 {
        match idx {
            0 => self.rng.range(0, self.max_id + 2),
            4 => self.rng.range(-self.kmax / 2 - 1, self.kmax / 2 + 1),
            _ => self.rng.range(0, self.kmax + 1),
        }
    }

    fn rq(&mut self, idx: usize, depth: usize) -> Rq {
        let leaf = depth == 0 || self.rng.chance(7, 10);
        if leaf {
            match self.rng.below(9) {
                0 | 1 => Rq::Eq(self.val(idx)),
                2 => Rq::Gt(self.val(idx)),
                3 => Rq::Ge(self.val(idx)),
                4 => Rq::Lt(self.val(idx)),
                5 => Rq::Le(self.val(idx)),
                6 => {
                    let (a, b) = (self.val(idx), self.val(idx));
                    // mostly ordered, sometimes inverted
                    if self.rng.chance(4, 5) { Rq::Between(a.min(b), a.max(b)) } else { Rq::Between(a, b) }
                }
                _ => {
                    let n = self.rng.below(5) as usize;
                    let mut ks: Vec<i64> = (0..n).map(|_| self.val(idx)).collect();
                    if n > 0 && self.rng.chance(1, 3) {
                        ks.push(ks[0]); // duplicate key
                    }
                    Rq::Include(ks)
                }
            }
        } else {
            match self.rng.below(7) {
                0 | 1 | 2 => {
                    let n = self.arity();
                    Rq::Or((0..n).map(|_| self.rq(idx, depth - 1)).collect())
                }
                3 | 4 => {
                    let n = self.arity();
                    Rq::And((0..n).map(|_| self.rq(idx, depth - 1)).collect())
                }
                _ => Rq::Not(Box::new(self.rq(idx, depth - 1))),
            }
        }
    }

    fn arity(&mut self) -> usize {
        match self.rng.below(10) {
            0 => 0,
            1 => 1,
            2..=6 => 2,
            _ => 3,
        }
    }

    fn flt(&mut self, depth: usize) -> Flt {
        let leaf = depth == 0 || self.rng.chance(4, 10);
        if leaf {
            let idx = match self.rng.below(10) {
                0 | 1 => 0,
                2 | 3 | 4 => 1,
                5 | 6 => 2,
                7 | 8 => 3,
                _ => 4,
            };
            let d = self.rng.below(3) as usize;
            Flt::Field(idx, self.rq(idx, d))
        } else {
            match self.rng.below(8) {
                0 | 1 | 2 => {
                    let n = self.arity();
                    Flt::Or((0..n).map(|_| self.flt(depth - 1)).collect())
                }
                3 | 4 | 5 => {
                    let n = self.arity();
                    Flt::And((0..n).map(|_| self.flt(depth - 1)).collect())
                }
                _ => Flt::Not(Box::new(self.flt(depth - 1))),
            }
        }
    }

    /// a filter of a given top-level shape that most documents satisfy (so that a filtered search keeps most
    /// of its candidates); every top-level shape occurs, at both levels
    fn wide_flt(&mut self) -> Flt {
        let m = self.max_id;
        let small = self.rng.range(0, (m / 8).max(1));
        let large = m - self.rng.range(0, (m / 8).max(1));
        let wide_id = match self.rng.below(8) {
            0 => Rq::Ge(small),
            1 => Rq::Gt(small),
            2 => Rq::Le(large),
            3 => Rq::Lt(large),
            4 => Rq::Between(small, large),
            5 => Rq::Include((0..=m + 1).filter(|i| i % 7 != 3).collect()),
            6 => Rq::Not(Box::new(Rq::Include(vec![small, large, small]))),
            _ => Rq::Or(vec![Rq::Le(m / 2), Rq::Gt(m / 2 + 1)]),
        };
        let narrow = Flt::Field(1, Rq::Eq(self.val(1)));
        let wide_age = Flt::Field(1, Rq::Ge(0));
        match self.rng.below(10) {
            0 | 1 | 2 => Flt::Field(0, wide_id),
            3 | 4 => Flt::Not(Box::new(narrow)),
            5 => Flt::Not(Box::new(Flt::Field(0, Rq::Include(vec![small, large])))),
            6 => wide_age,
            7 => Flt::And(vec![Flt::Field(0, wide_id), Flt::Not(Box::new(narrow))]),
            8 => Flt::Or(vec![narrow, Flt::Field(0, wide_id)]),
            _ => Flt::Not(Box::new(Flt::Not(Box::new(Flt::Field(3, Rq::Ge(0)))))),
        }
    }

    /// a filter that names an unknown index or carries keys of the wrong type, alone or inside a tree
    fn bad_flt(&mut self) -> Flt {
        let leaf = match self.rng.below(4) {
            0 => Flt::Field(UNKNOWN, self.rq(UNKNOWN, 1)),
            1 => Flt::BadKey(UNKNOWN, Rq::Eq(1)),
            2 => {
                let idx = self.rng.below(5) as usize;
                let a = self.val(idx);
                let b = self.val(idx);
                match self.rng.below(3) {
                    0 => Flt::BadKey(idx, Rq::Eq(a)),
                    1 => Flt::BadKey(idx, Rq::Or(vec![Rq::Ge(a), Rq::Between(a, b)])),
                    _ => Flt::BadKey(idx, Rq::Not(Box::new(Rq::Include(vec![a, b, a])))),
                }
            }
            _ => Flt::BadKey(self.rng.below(5) as usize, Rq::Lt(3)),
        };
        let other = self.flt(1);
        let empty = Flt::Field(1, Rq::Between(5, 2)); // inverted range: matches nothing
        match self.rng.below(8) {
            0 | 1 => leaf,
            2 => Flt::And(vec![other, leaf]),
            3 => Flt::And(vec![leaf, other]),
            // And stops at an empty intersection before it reaches the bad operand
            4 => Flt::And(vec![Flt::Field(0, Rq::Include(vec![])), other, leaf]),
            5 => Flt::Or(vec![other, leaf]),
            6 => Flt::Not(Box::new(leaf)),
            _ => Flt::And(vec![other, empty, Flt::Or(vec![leaf])]),
        }
    }

    fn vals(&mut self) -> Vals {
        const WORDS: [&str; 4] = ["alpha", "beta", "gamma", "delta"];
        let mut body = String::new();
        for w in WORDS {
            for _ in 0..self.rng.below(3) {
                body.push_str(w);
                body.push(' ');
            }
        }
        if body.is_empty() {
            body.push_str("omega");
        }
        // second text field with its own vocabulary; "red" is frequent so that a text query can hit most documents
        const COLOURS: [&str; 4] = ["red", "green", "blue", "black"];
        let mut title = String::new();
        if self.rng.chance(3, 4) {
            title.push_str("red ");
        }
        for w in &COLOURS[1..] {
            for _ in 0..self.rng.below(2) {
                title.push_str(w);
                title.push(' ');
            }
        }
        if title.is_empty() {
            title.push_str("white");
        }
        // components are multiples of 1/8 in [-2, 2]: exact in bf16
        let mut vec = [0f32; 4];
        for x in vec.iter_mut() {
            *x = self.rng.range(-16, 16) as f32 / 8.0;
        }
        let nn = self.rng.below(4) as usize;
        Vals {
            age: if self.rng.chance(1, 6) { None } else { Some(self.val(1)) },
            name: if self.rng.chance(1, 6) { None } else { Some(self.val(2)) },
            nums: (0..nn).map(|_| self.val(3)).collect(),
            lvl: if self.rng.chance(1, 6) { None } else { Some(self.val(4)) },
            body,
            title,
            vec,
        }
    }
}

// ------------------------------------------------------------------------------------------ collection
fn schema() -> Schema {
    let mut b = Schema::builder();
    b.add_field(FieldEntry::new("age".into(), FieldType::Option(Box::new(FieldType::U64))).unwrap()).unwrap();
    b.add_field(FieldEntry::new("name".into(), FieldType::Option(Box::new(FieldType::Text))).unwrap()).unwrap();
    b.add_field(FieldEntry::new("nums".into(), FieldType::Array(vec![FieldType::U64])).unwrap()).unwrap();
    b.add_field(FieldEntry::new("lvl".into(), FieldType::Option(Box::new(FieldType::I64))).unwrap()).unwrap();
    b.add_field(FieldEntry::new("body".into(), FieldType::Text).unwrap()).unwrap();
    b.add_field(FieldEntry::new("title".into(), FieldType::Text).unwrap()).unwrap();
    b.add_field(FieldEntry::new("vec".into(), FieldType::Vector).unwrap()).unwrap();
    b.build().unwrap()
}

fn field_map(v: &Vals) -> BTreeMap<String, Fv> {
    let mut m = BTreeMap::new();
    m.insert("age".to_string(), v.age.map(|a| Fv::U64(a as u64)).unwrap_or(Fv::Null));
    m.insert("name".to_string(), v.name.map(|a| to_fv(2, a)).unwrap_or(Fv::Null));
    m.insert("nums".to_string(), Fv::Array(v.nums.iter().map(|a| Fv::U64(*a as u64)).collect()));
    m.insert("lvl".to_string(), v.lvl.map(Fv::I64).unwrap_or(Fv::Null));
    m.insert("body".to_string(), Fv::Text(v.body.clone()));
    m.insert("title".to_string(), Fv::Text(v.title.clone()));
    m.insert("vec".to_string(), Fv::Vector(v.vec.iter().map(|x| bf16::from_f32(*x)).collect()));
    m
}

struct Built {
    db: AndaDB,
    coll: Arc<Collection>,
    docs: BTreeMap<u64, Vals>,
}

async fn new_collection(name: &str) -> (AndaDB, Arc<Collection>) {
    let db = AndaDB::connect(
        Arc::new(InMemory::new()),
        DBConfig {
            name: name.to_string(),
            description: "verif C03".to_string(),
            storage: StorageConfig { compress_level: 0, ..Default::default() },
            lock: None,
        },
    )
    .await
    .expect("db");
    let coll = db
        .open_or_create_collection(
            schema(),
            CollectionConfig { name: "c".to_string(), description: "verif C03".to_string() },
            async |c: &mut Collection| {
                c.create_btree_index_nx(&["age"]).await?;
                c.create_btree_index_nx(&["name"]).await?;
                c.create_btree_index_nx(&["nums"]).await?;
                c.create_btree_index_nx(&["lvl"]).await?;
                c.create_bm25_index_nx(&["body"]).await?;
                c.create_bm25_index_nx(&["title"]).await?;
                c.create_hnsw_index_nx("vec", HnswConfig { dimension: 4, ..Default::default() }).await?;
                Ok(())
            },
        )
        .await
        .expect("collection");
    (db, coll)
}

async fn add(coll: &Collection, v: &Vals) -> u64 {
    let mut d = Document::new(coll.schema());
    d.set_id(0);
    for (k, fv) in field_map(v) {
        if fv != Fv::Null {
            d.set_field(&k, fv).expect("set_field");
        }
    }
    coll.add(d).await.expect("add")
}

/// Random collection: adds, then removals and updates (which disturb posting order), then more adds.
async fn build_random(g: &mut Gen, name: &str, n: usize) -> Built {
    let (db, coll) = new_collection(name).await;
    let mut docs = BTreeMap::new();
    let first = n - n / 4;
    for _ in 0..first {
        let v = g.vals();
        let id = add(&coll, &v).await;
        docs.insert(id, v);
    }
    let ids: Vec<u64> = docs.keys().copied().collect();
    for id in ids {
        match g.rng.below(10) {
            0 | 1 => {
                if docs.len() > 1 {
                    coll.remove(id).await.expect("remove");
                    docs.remove(&id);
                }
            }
            2 | 3 => {
                let v = g.vals();
                coll.update(id, field_map(&v)).await.expect("update");
                docs.insert(id, v);
            }
            _ => {}
        }
    }
    for _ in first..n {
        let v = g.vals();
        let id = add(&coll, &v).await;
        docs.insert(id, v);
    }
    Built { db, coll, docs }
}

/// The calibration collection of DESIGN.md section 0: ages 50,10,20,40,30 for ids 1..5.
async fn build_witness() -> Built {
    let (db, coll) = new_collection("witness").await;
    let mut docs = BTreeMap::new();
    for age in [50, 10, 20, 40, 30] {
        let v = Vals { age: Some(age), name: None, nums: vec![], lvl: None, body: "alpha".into(), title: "red".into(), vec: [age as f32 / 8.0, 0.0, 0.0, 0.0] };
        let id = add(&coll, &v).await;
        docs.insert(id, v);
    }
    Built { db, coll, docs }
}

fn fv_key(fv: &Fv) -> i64 {
    match fv {
        Fv::U64(u) => *u as i64,
        Fv::I64(i) => *i,
        Fv::Text(s) => s.trim_start_matches('k').parse::<i64>().unwrap_or(-1),
        _ => -1,
    }
}

/// Real index contents, in key order, postings in the index's own order.
fn dump_index(coll: &Collection, idx: usize) -> Vec<(i64, Vec<u64>)> {
    let view = coll.get_btree_index(&[IDX[idx]]).expect("index");
    let all = RangeQuery::Not(Box::new(RangeQuery::Include(vec![])));
    view.range_query_with(all, |fv, pks| (true, vec![(fv_key(&fv), pks.clone())]))
}

fn coll_term(b: &Built) -> (Value, Vec<String>) {
    let mut problems = vec![];
    let ids: Vec<u64> = b.coll.ids();
    let own: Vec<u64> = b.docs.keys().copied().collect();
    let mut sorted = ids.clone();
    sorted.sort_unstable();
    if sorted != own {
        problems.push(format!("collection ids {sorted:?} differ from the documents written {own:?}"));
    }
    let mut idxs = vec![];
    for i in 1..=4 {
        let dump = dump_index(&b.coll, i);
        // sanity: the dump is what the documents say (as sets)
        let mut want: BTreeMap<i64, BTreeSet<u64>> = BTreeMap::new();
        for (id, v) in &b.docs {
            for k in v.keys(i) {
                want.entry(k).or_default().insert(*id);
            }
        }
        let got: BTreeMap<i64, BTreeSet<u64>> =
            dump.iter().map(|(k, p)| (*k, p.iter().copied().collect())).collect();
        if got != want {
            problems.push(format!("index {} dump {got:?} differs from the documents {want:?}", IDX[i]));
        }
        let entries: Vec<Value> = dump
            .iter()
            .map(|(k, p)| json!(format!("{} {}", k, zs(p))))
            .collect();
        idxs.push(tup(vec![json!(IDX[i]), Value::Array(entries)]));
    }
    (tup(vec![json!(zs(&sorted)), Value::Array(idxs)]), problems)
}

/// integer lists travel to the model as blank-separated decimal strings (decoded by Run.parse_zs)
fn zs(xs: &[u64]) -> String {
    xs.iter().map(|x| x.to_string()).collect::<Vec<_>>().join(" ")
}

// ------------------------------------------------------------------------------------------ queries
#[derive(Clone, Debug)]
enum Entry {
    First(Option<usize>),
    Last(Option<usize>),
    All,
    /// search_ids: optional search clause (text and/or vector, with the candidate list the search stage
    /// produces for this limit), limit
    Search(Option<(Spec, Vec<u64>)>, Option<usize>),
}

/// the search clause: text goes to every BM25 index, the vector to every HNSW index of its dimension
#[derive(Clone, Debug)]
struct Spec {
    text: Option<String>,
    vector: Option<Vec<f32>>,
}

/// The candidate list of `search_ids` for this clause and limit, rebuilt from the public pieces the
/// search stage is made of: each index's own top_k answer (BM25 indexes in registration order, then
/// HNSW), fused by the default RRF reranker.  Judged against the unfiltered search in `main`.
fn candidates(coll: &Collection, spec: &Spec, l: Option<usize>) -> Vec<u64> {
    let k = top_k(l);
    let mut lists: Vec<Vec<u64>> = vec![];
    if let Some(text) = &spec.text {
        for f in ["body", "title"] {
            let ix = coll.get_bm25_index(&[f]).expect("bm25");
            lists.push(ix.search(text, k, None).into_iter().map(|r| r.0).collect());
        }
    }
    if let Some(v) = &spec.vector {
        let ix = coll.get_hnsw_index("vec").expect("hnsw");
        lists.push(ix.search(v, k).into_iter().map(|r| r.0).collect());
    }
    let mut seen = BTreeSet::new();
    RRFReranker::default().rerank(&lists).into_iter().map(|r| r.0).filter(|id| seen.insert(*id)).collect()
}

fn lim_term(l: &Option<usize>) -> Value {
    match l {
        None => Value::Null,
        Some(n) => some(nat(*n)),
    }
}

fn entry_term(e: &Entry) -> Value {
    match e {
        Entry::First(l) => ctor("EFirst", vec![lim_term(l)]),
        Entry::Last(l) => ctor("ELast", vec![lim_term(l)]),
        Entry::All => ctor("EAll", vec![]),
        Entry::Search(s, l) => ctor(
            "ESearch",
            vec![
                match s {
                    None => Value::Null,
                    Some((_, c)) => some(json!(zs(c))),
                },
                lim_term(l),
            ],
        ),
    }
}

const MAX: usize = Collection::MAX_SEARCH_LIMIT;

fn expected(full: &[u64], docs: &BTreeMap<u64, Vals>, f: &Flt, e: &Entry) -> Vec<u64> {
    match e {
        Entry::All => full.to_vec(),
        Entry::First(l) => {
            let n = l.unwrap_or(MAX).min(MAX);
            full[..n.min(full.len())].to_vec()
        }
        Entry::Last(l) => {
            let n = l.unwrap_or(MAX).min(MAX);
            full[full.len() - n.min(full.len())..].to_vec()
        }
        Entry::Search(None, l) => {
            let n = l.unwrap_or(10).min(MAX);
            full[..n.min(full.len())].to_vec()
        }
        Entry::Search(Some((_, cands)), l) => {
            let n = l.unwrap_or(10).min(MAX);
            cands
                .iter()
                .filter(|id| docs.get(id).is_some_and(|v| denote(f, **id, v)))
                .take(n)
                .copied()
                .collect()
        }
    }
}

async fn run_impl(coll: &Collection, f: &Flt, e: &Entry) -> Result<Vec<u64>, String> {
    let filter = to_filter(f);
    let fut = async {
        match e {
            Entry::First(l) => coll.query_ids(filter, *l).await,
            Entry::Last(l) => coll.query_last_ids(filter, *l).await,
            Entry::All => coll.query_all_ids(filter).await,
            Entry::Search(s, l) => {
                coll.search_ids(Query {
                    search: s.as_ref().map(|(sp, _)| Search { text: sp.text.clone(), vector: sp.vector.clone(), ..Default::default() }),
                    filter: Some(filter),
                    limit: *l,
                })
                .await
            }
        }
    };
    match AssertUnwindSafe(fut).catch_unwind().await {
        Ok(Ok(v)) => Ok(v),
        Ok(Err(err)) => {
            let m = format!("{err}");
            // small enum: budget rejection / unknown index / key conversion
            Err(if m.contains("exceeds maximum") || m.contains("exceeds the maximum") {
                "EBudget".to_string()
            } else if m.contains("not found") {
                "EIndex".to_string()
            } else if m.contains("expected ") {
                "EType".to_string()
            } else {
                format!("other: {m}")
            })
        }
        Err(_) => Err("panic".to_string()),
    }
}

fn top_k(l: Option<usize>) -> usize {
    (l.unwrap_or(10).min(MAX) * 10).min(4096)
}

fn entries_for(g: &mut Gen, b: &Built, n_match: usize, big: bool) -> Vec<Entry> {
    let n = b.docs.len();
    let mut ls: Vec<Option<usize>> = vec![None, Some(0), Some(1), Some(2), Some(n + 1)];
    if n_match >= 2 {
        ls.push(Some(g.rng.range(1, n_match as i64 - 1) as usize)); // a page that cuts
    }
    ls.push(Some(g.rng.range(0, n as i64 + 1) as usize));
    if n <= 8 {
        ls.extend((0..=n + 1).map(Some)); // every limit 0..n+1
    }
    if big || g.rng.chance(1, 8) {
        ls.push(Some(MAX + 1));
        ls.push(Some(MAX));
    }
    ls.sort();
    ls.dedup();
    let mut es = vec![Entry::All];
    for l in &ls {
        es.push(Entry::First(*l));
        es.push(Entry::Last(*l));
    }
    // search_ids: filter only, and filter over a full-text candidate list
    for l in [None, Some(0), Some(1), Some(2), Some(g.rng.range(1, n as i64 + 1) as usize)] {
        es.push(Entry::Search(None, l));
    }
    // searches: text over both BM25 indexes, vector, and hybrid; small limits make top_k (= 10 * limit) smaller
    // than the merged candidate list as soon as the per-index answers differ
    let text = *g.rng.pick(&["alpha", "beta", "gamma delta", "alpha red", "red", "alpha beta gamma delta omega red green", "nosuchword"]);
    let qv: Vec<f32> = (0..4).map(|_| g.rng.range(-16, 16) as f32 / 8.0).collect();
    let specs = [
        Spec { text: Some(text.to_string()), vector: None },
        Spec { text: Some(text.to_string()), vector: Some(qv.clone()) },
        Spec { text: None, vector: Some(qv) },
    ];
    let spec_n = g.rng.below(3) as usize;
    for (si, sp) in specs.iter().enumerate().take(3) {
        if n < 50 && si != spec_n && si != 1 {
            continue;
        }
        let mut ls: Vec<Option<usize>> = vec![Some(1), Some(g.rng.range(1, 3) as usize)];
        if si == 1 || n < 50 {
            ls.push(None);
            ls.push(Some(g.rng.range(1, n as i64 + 1) as usize));
        }
        if n >= 50 {
            ls.push(Some(3));
        }
        ls.sort();
        ls.dedup();
        for l in ls {
            let cands = candidates(&b.coll, sp, l);
            es.push(Entry::Search(Some((sp.clone(), cands)), l));
        }
    }
    es
}

fn is_btree_leaf(f: &Flt) -> bool {
    matches!(f, Flt::Field(i, _) if *i > 0 && *i != UNKNOWN)
}

// ------------------------------------------------------------------------------------------ main
/// the over-budget / at-budget stream: (filter, Coq term as raw text, what it probes)
fn budget_stream() -> Vec<(Flt, String, &'static str)> {
    fn nots(k: usize, f: Flt) -> Flt { (0..k).fold(f, |f, _| Flt::Not(Box::new(f))) }
    fn rnots(k: usize, q: Rq) -> Rq { (0..k).fold(q, |q, _| Rq::Not(Box::new(q))) }
    let leaf = || Flt::Field(1, Rq::Eq(1));
    let leaf_t = "(FField \"age\" (REq 1%Z))";
    let mut v: Vec<(Flt, String, &'static str)> = vec![];
    for k in [63usize, 64, 65] {
        v.push((nots(k, leaf()), format!("(Nat.iter {k} FNot {leaf_t})"), "filter depth"));
        v.push((Flt::Field(1, rnots(k, Rq::Eq(1))), format!("(FField \"age\" (Nat.iter {k} RNot (REq 1%Z)))"), "range depth"));
    }
    for k in [1024usize, 1025] {
        v.push((Flt::Or((0..k).map(|_| leaf()).collect()), format!("(FOr (List.repeat {leaf_t} {k}))"), "filter branches"));
        v.push((Flt::Field(1, Rq::Or((0..k).map(|_| Rq::Eq(1)).collect())),
                format!("(FField \"age\" (ROr (List.repeat (REq 1%Z) {k})))"), "range branches"));
        v.push((Flt::And(vec![Flt::Or((0..k / 2).map(|_| leaf()).collect()), Flt::Field(1, Rq::And((0..k - k / 2).map(|_| Rq::Ge(0)).collect()))]),
                format!("(FAnd [FOr (List.repeat {leaf_t} {}); FField \"age\" (RAnd (List.repeat (RGe 0%Z) {}))])", k / 2, k - k / 2), "branches summed over both levels (+2)"));
    }
    for k in [4096usize, 4097] {
        v.push((Flt::Field(1, Rq::Include(vec![1; k])), format!("(FField \"age\" (RInclude (List.repeat 1%Z {k})))"), "include keys"));
    }
    // nodes: 66 children of 62 nodes each + the root = 4093; a last child of 3 / 4 nodes gives 4096 / 4097
    let chain = || nots(50, Flt::Field(1, rnots(10, Rq::Eq(1))));
    let chain_t = format!("(Nat.iter 50 FNot (FField \"age\" (Nat.iter 10 RNot (REq 1%Z))))");
    for extra in [1usize, 2] {
        let mut kids: Vec<Flt> = (0..66).map(|_| chain()).collect();
        kids.push(nots(extra, leaf()));
        v.push((Flt::Or(kids), format!("(FOr (List.repeat {chain_t} 66 ++ [Nat.iter {extra} FNot {leaf_t}]))"), "nodes"));
    }
    v
}

#[derive(Default)]
struct Stats {
    evaluations: usize,
    cutting: usize,
    oracle_failures: usize,
    failure_classes: BTreeMap<String, usize>,
    failures: Vec<Value>,
    shape: BTreeMap<String, usize>,
    entry_kinds: BTreeMap<String, usize>,
    limit_kinds: BTreeMap<String, usize>,
    outcomes: BTreeMap<String, usize>,
    searches: usize,
    searches_longer_than_top_k: usize,
    max_candidates_over_top_k: usize,
    candidate_problems: Vec<String>,
}

fn count_leaves(f: &Flt, h: &mut BTreeMap<String, usize>) {
    fn rq(q: &Rq, lvl: &str, h: &mut BTreeMap<String, usize>) {
        let k = match q {
            Rq::Eq(_) => "Eq", Rq::Gt(_) => "Gt", Rq::Ge(_) => "Ge", Rq::Lt(_) => "Lt", Rq::Le(_) => "Le",
            Rq::Between(a, b) => if a > b { "Between-inverted" } else { "Between" },
            Rq::Include(ks) => {
                let mut d = ks.clone(); d.sort(); d.dedup();
                if ks.is_empty() { "Include-empty" } else if d.len() < ks.len() { "Include-with-duplicates" } else { "Include" }
            }
            Rq::Or(qs) => { for q in qs { rq(q, lvl, h); } if qs.is_empty() { "range-Or-empty" } else { "range-Or" } }
            Rq::And(qs) => { for q in qs { rq(q, lvl, h); } if qs.is_empty() { "range-And-empty" } else { "range-And" } }
            Rq::Not(q) => { rq(q, lvl, h); "range-Not" }
        };
        *h.entry(format!("{lvl}{k}")).or_default() += 1;
    }
    match f {
        Flt::Field(i, q) | Flt::BadKey(i, q) => rq(q, if *i == 0 { "_id:" } else { "" }, h),
        Flt::Or(fs) => { for f in fs { count_leaves(f, h); } *h.entry(if fs.is_empty() { "filter-Or-empty" } else { "filter-Or" }.into()).or_default() += 1; }
        Flt::And(fs) => { for f in fs { count_leaves(f, h); } *h.entry(if fs.is_empty() { "filter-And-empty" } else { "filter-And" }.into()).or_default() += 1; }
        Flt::Not(f) => { count_leaves(f, h); *h.entry("filter-Not".into()).or_default() += 1; }
    }
}

/// Runs every entry of one filter on the implementation, judges it with the oracle, returns (entries, obs, cuts).
async fn run_group(st: &mut Stats, built: &Built, ci: usize, f: &Flt, entries: &[Entry], note: &str) -> (Vec<Value>, Vec<Value>, Vec<bool>) {
    let full: Vec<u64> = built.docs.iter().filter(|(id, v)| denote(f, **id, v)).map(|(id, _)| *id).collect();
    let bad = contains_bad(f);
    let over = over_budget(f);
    let all_ok = run_impl(&built.coll, f, &Entry::All).await.as_deref() == Ok(&full[..]);
    let (mut es, mut obs, mut cuts_v) = (vec![], vec![], vec![]);
    for e in entries {
        let want = expected(&full, &built.docs, f, e);
        let got = run_impl(&built.coll, f, e).await;
        st.evaluations += 1;
        if let Entry::Search(Some((sp, cands)), l) = e {
            st.searches += 1;
            let k = top_k(*l);
            if cands.len() > k {
                st.searches_longer_than_top_k += 1;
                st.max_candidates_over_top_k = st.max_candidates_over_top_k.max(cands.len() - k);
            }
            // the rebuilt candidate list is what the search stage produces: the unfiltered search is its head
            let lim = l.unwrap_or(10).min(MAX);
            let plain = built.coll.search_ids(Query {
                search: Some(Search { text: sp.text.clone(), vector: sp.vector.clone(), ..Default::default() }),
                filter: None,
                limit: *l,
            }).await;
            let head: Vec<u64> = cands.iter().take(lim).copied().collect();
            if plain.as_ref().ok() != Some(&head) && st.candidate_problems.len() < 5 {
                st.candidate_problems.push(format!("unfiltered search {sp:?} limit {l:?} gave {plain:?}, rebuilt candidates start {head:?}"));
            }
        }
        let (ek, l) = match e {
            Entry::First(l) => ("query_ids", Some(*l)),
            Entry::Last(l) => ("query_last_ids", Some(*l)),
            Entry::All => ("query_all_ids", None),
            Entry::Search(None, l) => ("search_ids(filter only)", Some(*l)),
            Entry::Search(Some((sp, _)), l) => (
                match (&sp.text, &sp.vector) {
                    (Some(_), Some(_)) => "search_ids(text + vector + filter)",
                    (Some(_), None) => "search_ids(text + filter)",
                    _ => "search_ids(vector + filter)",
                },
                Some(*l),
            ),
        };
        *st.entry_kinds.entry(ek.to_string()).or_default() += 1;
        if let Some(l) = l {
            let n = built.docs.len();
            let k = match l {
                None => "None",
                Some(0) => "0",
                Some(x) if x > MAX => "MAX+1",
                Some(x) if x == MAX => "MAX",
                Some(x) if x == n + 1 => "n+1",
                Some(x) if x <= n => "1..n",
                _ => "other",
            };
            *st.limit_kinds.entry(k.to_string()).or_default() += 1;
        }
        let lim = match e {
            Entry::First(l) | Entry::Last(l) => Some(l.unwrap_or(MAX).min(MAX)),
            Entry::Search(_, l) => Some(l.unwrap_or(10).min(MAX)),
            Entry::All => None,
        };
        let cuts = !over && !bad && lim.is_some_and(|l| l > 0 && l < full.len());
        if cuts {
            st.cutting += 1;
        }
        // the oracle: within budget and well-formed -> exactly the set-algebra page; over budget -> rejected
        // as such; an unknown index / unconvertible key may fail, but an Ok answer must still be the page
        // (the offending leaf reads as the empty set)
        let ok = if over {
            matches!(&got, Err(k) if k == "EBudget")
        } else {
            match &got {
                Ok(v) => *v == want,
                Err(k) => bad && (k == "EIndex" || k == "EType"),
            }
        };
        *st.outcomes.entry(match &got { Ok(_) => "ok".to_string(), Err(k) => k.split(':').next().unwrap_or("other").to_string() }).or_default() += 1;
        if !ok {
            st.oracle_failures += 1;
            let class = if over || matches!(&got, Err(k) if k == "EBudget") {
                "complexity-budget"
            } else if got.is_err() {
                "error-or-panic"
            } else if matches!(e, Entry::All) {
                "match-set"
            } else if is_btree_leaf(f) && all_ok && !matches!(e, Entry::Search(Some(_), _)) {
                "btree-leaf-limit-before-sort"
            } else if matches!(e, Entry::Search(Some(_), _)) {
                "search-restriction"
            } else if all_ok {
                "page-not-an-end-of-full-result"
            } else {
                "match-set"
            };
            *st.failure_classes.entry(class.to_string()).or_default() += 1;
            if st.failures.len() < 12 || (st.failure_classes[class] == 1 && st.failures.len() < 24) {
                let ftxt = format!("{:?}", to_filter(f));
                st.failures.push(json!({
                    "class": class,
                    "what": format!("{} returned {:?}, expected {}", entry_name(e), got.as_ref().map(|v| &v[..v.len().min(40)]),
                                    if over { "a complexity-budget rejection".to_string() } else { format!("{:?} (set-algebra reading)", &want[..want.len().min(40)]) }),
                    "collection": built.docs.iter().map(|(id, v)| json!({"_id": id, "age": v.age, "name": v.name, "nums": v.nums, "lvl": v.lvl})).take(64).collect::<Vec<_>>(),
                    "documents": built.docs.len(),
                    "filter": if ftxt.len() > 1200 { format!("{} ... ({note})", &ftxt[..1200]) } else { ftxt },
                    "entry": format!("{e:?}").chars().take(300).collect::<String>(),
                    "full_match_set": full.iter().take(64).collect::<Vec<_>>(),
                    "expected": want.iter().take(64).collect::<Vec<_>>(),
                    "observed": format!("{:?}", got.as_ref().map(|v| v.iter().take(64).collect::<Vec<_>>())),
                    "collection_index": ci,
                }));
            }
        }
        es.push(entry_term(e));
        obs.push(match got {
            Ok(v) => ctor("OOk", vec![json!(zs(&v))]),
            Err(k) if k == "EBudget" || k == "EIndex" || k == "EType" => ctor("OErr", vec![ctor(&k, vec![])]),
            Err(_) => json!({"raw": "(OOk \"-1\")"}), // panic / unclassified error: never equal to a model value
        });
        cuts_v.push(cuts);
    }
    (es, obs, cuts_v)
}

#[tokio::main]
async fn main() {
    let args: Vec<String> = std::env::args().collect();
    let out_path = arg_value(&args, "--out").unwrap_or_else(|| "/dev/stdout".into());
    let n_colls: usize = arg_value(&args, "--colls").and_then(|s| s.parse().ok()).unwrap_or(40);
    let max_docs: usize = arg_value(&args, "--maxdocs").and_then(|s| s.parse().ok()).unwrap_or(40);
    let n_filters: usize = arg_value(&args, "--filters").and_then(|s| s.parse().ok()).unwrap_or(24);
    let depth: usize = arg_value(&args, "--depth").and_then(|s| s.parse().ok()).unwrap_or(4);
    let big: usize = arg_value(&args, "--big").and_then(|s| s.parse().ok()).unwrap_or(0);
    let hybrid: usize = arg_value(&args, "--hybrid").and_then(|s| s.parse().ok()).unwrap_or(0);
    let mut out = std::io::BufWriter::new(std::fs::File::create(&out_path).expect("out"));
    let mut rng = Rng::from_env();

    let mut st = Stats::default();
    let mut sizes: BTreeMap<usize, usize> = BTreeMap::new();
    let mut dump_problems: Vec<String> = vec![];
    let mut key_id_inversions = 0usize;
    let mut leaf_kinds: BTreeMap<String, usize> = BTreeMap::new();
    let (mut docs_total, mut docs_missing, mut docs_array_multi, mut docs_array_empty, mut docs_dup_key) = (0usize, 0usize, 0usize, 0usize, 0usize);
    let (mut n_bad_filters, mut n_budget_filters, mut n_reshaped) = (0usize, 0usize, 0usize);
    let mut state_changes_after_rejected = 0usize;

    for ci in 0..(n_colls + 1 + big + hybrid) {
        let is_hybrid = ci > n_colls + big;
        let is_big = ci > n_colls && !is_hybrid;
        let mut g = Gen { rng: rng.fork(), kmax: 8, max_id: 0 };
        let built = if ci == 0 {
            build_witness().await
        } else if is_big {
            g.kmax = 40;
            let n = MAX + 60 + g.rng.below(60) as usize;
            build_random(&mut g, &format!("big{ci}"), n).await
        } else if is_hybrid {
            // 60..300 documents: far more than top_k = 10..30 of the small-limit searches below
            let n = 60 + g.rng.below(241) as usize;
            g.kmax = 6 + g.rng.below(8) as i64;
            build_random(&mut g, &format!("h{ci}"), n).await
        } else {
            let n = 1 + g.rng.below(max_docs as u64) as usize;
            g.kmax = 3 + g.rng.below(8) as i64;
            build_random(&mut g, &format!("c{ci}"), n).await
        };
        g.max_id = built.docs.keys().next_back().copied().unwrap_or(0) as i64;
        *sizes.entry(built.docs.len().min(60) / 10 * 10).or_default() += 1;
        let ages: Vec<i64> = built.docs.values().filter_map(|v| v.age).collect();
        if ages.windows(2).any(|w| w[0] > w[1]) {
            key_id_inversions += 1;
        }
        let mut seen_age = BTreeSet::new();
        for v in built.docs.values() {
            docs_total += 1;
            if v.age.is_none() || v.name.is_none() || v.lvl.is_none() { docs_missing += 1; }
            if v.nums.len() >= 2 { docs_array_multi += 1; }
            if v.nums.is_empty() { docs_array_empty += 1; }
            if let Some(a) = v.age { if !seen_age.insert(a) { docs_dup_key += 1; } }
        }
        let (cterm, problems) = coll_term(&built);
        dump_problems.extend(problems);

        // (filter, optional raw Coq term, note)
        let mut filters: Vec<(Flt, Option<String>, &'static str)> = vec![];
        if ci == 0 {
            let leaf = Flt::Field(1, Rq::Ge(0));
            filters.push((leaf.clone(), None, ""));
            filters.push((Flt::And(vec![leaf.clone()]), None, ""));
            filters.push((Flt::Or(vec![leaf.clone()]), None, ""));
            filters.push((Flt::Not(Box::new(Flt::Not(Box::new(leaf)))), None, ""));
            for (f, t, note) in budget_stream() {
                n_budget_filters += 1;
                filters.push((f, Some(t), note));
            }
        } else {
            let nf = if is_big { n_filters / 2 } else { n_filters };
            for fi in 0..nf {
                let d = g.rng.below(depth as u64 + 1) as usize;
                // hybrid collections: mostly filters that keep most documents, of every top-level shape
                let f = if is_hybrid && fi * 4 < nf * 3 { g.wide_flt() } else { g.flt(d) };
                // logically equal re-shapings of the same filter must give the same pages
                match g.rng.below(12) {
                    0 => { n_reshaped += 1; filters.push((Flt::And(vec![f.clone()]), None, "")) }
                    1 => { n_reshaped += 1; filters.push((Flt::Or(vec![f.clone()]), None, "")) }
                    2 => { n_reshaped += 1; filters.push((Flt::Not(Box::new(Flt::Not(Box::new(f.clone())))), None, "")) }
                    _ => {}
                }
                filters.push((f, None, ""));
            }
            // the error stream: unknown index / unconvertible key, alone and inside trees
            for _ in 0..(if is_big { 1 } else { 1 + nf / 4 }) {
                n_bad_filters += 1;
                filters.push((g.bad_flt(), None, "error stream"));
            }
        }

        let before = (built.coll.ids(), (1..=4).map(|i| dump_index(&built.coll, i)).collect::<Vec<_>>());
        let mut groups: Vec<Value> = vec![];
        let mut obs: Vec<Value> = vec![];
        let mut cuts: Vec<Value> = vec![];
        for (f, raw, note) in &filters {
            let kind = match f {
                Flt::Field(0, _) => "id-leaf",
                Flt::Field(UNKNOWN, _) => "unknown-index-leaf",
                Flt::Field(_, _) => "btree-leaf",
                Flt::BadKey(_, _) => "bad-key-leaf",
                Flt::Or(_) => "or",
                Flt::And(_) => "and",
                Flt::Not(_) => "not",
            };
            *st.shape.entry(kind.to_string()).or_default() += 1;
            if raw.is_none() {
                count_leaves(f, &mut leaf_kinds);
            }
            let n_match = built.docs.iter().filter(|(id, v)| denote(f, **id, v)).count();
            let entries = if raw.is_some() {
                vec![Entry::All, Entry::First(None), Entry::Last(Some(1)), Entry::First(Some(0)), Entry::Search(None, Some(1))]
            } else if ci == 0 {
                vec![Entry::All, Entry::First(Some(2)), Entry::Last(Some(2)), Entry::First(None), Entry::Search(None, Some(1))]
            } else {
                entries_for(&mut g, &built, n_match, is_big)
            };
            let (es, os, cs) = run_group(&mut st, &built, ci, f, &entries, note).await;
            let fterm = match raw {
                Some(t) => json!({"raw": t}),
                None => flt_term(f),
            };
            groups.push(tup(vec![fterm, Value::Array(es)]));
            obs.push(Value::Array(os));
            cuts.push(json!(cs));
        }
        // a rejected (or failing) query changes nothing: ids and every index as before
        let after = (built.coll.ids(), (1..=4).map(|i| dump_index(&built.coll, i)).collect::<Vec<_>>());
        if before != after {
            state_changes_after_rejected += 1;
        }
        let line = json!({"kind": "model", "case": tup(vec![cterm, Value::Array(groups)]), "obs": Value::Array(obs), "cuts": cuts,
                          "docs": built.docs.len(), "witness": ci == 0});
        writeln!(out, "{line}").unwrap();
        let _ = built.db.close().await;
    }

    let summary = json!({
        "kind": "summary",
        "collections": n_colls + 1 + big + hybrid,
        "evaluations": st.evaluations,
        "cutting_evaluations": st.cutting,
        "oracle_failures": st.oracle_failures,
        "failure_classes": st.failure_classes,
        "failures": st.failures,
        "top_level_shapes": st.shape,
        "entry_points": st.entry_kinds,
        "limits": st.limit_kinds,
        "outcomes": st.outcomes,
        "node_kinds": leaf_kinds,
        "documents": {"total": docs_total, "with_a_missing_indexed_value": docs_missing, "with_array_of_2_or_more_keys": docs_array_multi,
                      "with_empty_array": docs_array_empty, "sharing_an_age_key_with_an_earlier_document": docs_dup_key},
        "searches": {"with_a_search_clause": st.searches, "candidate_list_longer_than_top_k": st.searches_longer_than_top_k,
                     "max_candidates_beyond_top_k": st.max_candidates_over_top_k, "hybrid_collections": hybrid},
        "candidate_problems": st.candidate_problems,
        "streams": {"error_stream_filters": n_bad_filters, "budget_stream_filters": n_budget_filters, "reshaped_filters": n_reshaped},
        "collections_whose_state_changed_during_queries": state_changes_after_rejected,
        "collection_sizes": sizes,
        "collections_with_key_order_not_id_order": key_id_inversions,
        "dump_problems": dump_problems.iter().take(5).collect::<Vec<_>>(),
        "dump_problem_count": dump_problems.len(),
        "max_search_limit": MAX,
    });
    writeln!(out, "{summary}").unwrap();
    out.flush().unwrap();
}

fn entry_name(e: &Entry) -> String {
    match e {
        Entry::First(l) => format!("query_ids(limit {l:?})"),
        Entry::Last(l) => format!("query_last_ids(limit {l:?})"),
        Entry::All => "query_all_ids".to_string(),
        Entry::Search(None, l) => format!("search_ids(filter only, limit {l:?})"),
        Entry::Search(Some((sp, c)), l) => format!("search_ids(text {:?}, vector {:?} -> {} candidates {:?}, limit {l:?})", sp.text, sp.vector, c.len(), &c[..c.len().min(40)]),
    }
}
