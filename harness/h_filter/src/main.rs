//! C03 — filters are set algebra; a bounded page is an end of the full result.
//!
//! Builds real collections (ids uncorrelated with key order, duplicate / array / missing values,
//! removals and updates), runs `query_ids` / `query_last_ids` / `query_all_ids` / `search_ids` of the
//! implementation on generated filter trees and limits, and writes
//!   {"kind":"model","case":(coll, [(filter, entry)]),"obs":[[ids]]}   one line per collection,
//!   {"kind":"summary", ...}                                            counts, distribution, oracle failures.
//! The direct oracle is the set-algebra reading of the filter over the harness's own copy of the
//! documents (never over the index dump that is handed to the model).
use anda_db::{
    collection::{Collection, CollectionConfig},
    database::{AndaDB, DBConfig},
    query::{Filter, Query, RangeQuery, Search},
    schema::{Document, FieldEntry, FieldType, Fv, Schema},
    storage::StorageConfig,
};
use futures::FutureExt;
use h_common::*;
use object_store::memory::InMemory;
use serde_json::{Value, json};
use std::collections::{BTreeMap, BTreeSet};
use std::io::Write;
use std::panic::AssertUnwindSafe;
use std::sync::Arc;

// ------------------------------------------------------------------------------------------ filters
#[derive(Clone, Debug)]
enum Rq {
    Eq(i64),
    Gt(i64),
    Ge(i64),
    Lt(i64),
    Le(i64),
    Between(i64, i64),
    Include(Vec<i64>),
    Or(Vec<Rq>),
    And(Vec<Rq>),
    Not(Box<Rq>),
}

#[derive(Clone, Debug)]
enum Flt {
    Field(usize, Rq),
    Or(Vec<Flt>),
    And(Vec<Flt>),
    Not(Box<Flt>),
}

/// index 0 is the primary key; 1..=4 are B-tree indexes (U64, Text, U64 array, I64)
const IDX: [&str; 5] = ["_id", "age", "name", "nums", "lvl"];

fn to_fv(idx: usize, v: i64) -> Fv {
    match idx {
        2 => Fv::Text(format!("k{:03}", v.max(0))),
        4 => Fv::I64(v),
        _ => Fv::U64(v.max(0) as u64),
    }
}

fn to_range(idx: usize, q: &Rq) -> RangeQuery<Fv> {
    match q {
        Rq::Eq(a) => RangeQuery::Eq(to_fv(idx, *a)),
        Rq::Gt(a) => RangeQuery::Gt(to_fv(idx, *a)),
        Rq::Ge(a) => RangeQuery::Ge(to_fv(idx, *a)),
        Rq::Lt(a) => RangeQuery::Lt(to_fv(idx, *a)),
        Rq::Le(a) => RangeQuery::Le(to_fv(idx, *a)),
        Rq::Between(a, b) => RangeQuery::Between(to_fv(idx, *a), to_fv(idx, *b)),
        Rq::Include(ks) => RangeQuery::Include(ks.iter().map(|k| to_fv(idx, *k)).collect()),
        Rq::Or(qs) => RangeQuery::Or(qs.iter().map(|q| Box::new(to_range(idx, q))).collect()),
        Rq::And(qs) => RangeQuery::And(qs.iter().map(|q| Box::new(to_range(idx, q))).collect()),
        Rq::Not(q) => RangeQuery::Not(Box::new(to_range(idx, q))),
    }
}

fn to_filter(f: &Flt) -> Filter {
    match f {
        Flt::Field(i, q) => Filter::Field((IDX[*i].to_string(), to_range(*i, q))),
        Flt::Or(fs) => Filter::Or(fs.iter().map(|f| Box::new(to_filter(f))).collect()),
        Flt::And(fs) => Filter::And(fs.iter().map(|f| Box::new(to_filter(f))).collect()),
        Flt::Not(f) => Filter::Not(Box::new(to_filter(f))),
    }
}

fn rq_term(q: &Rq) -> Value {
    match q {
        Rq::Eq(a) => ctor("REq", vec![json!(a)]),
        Rq::Gt(a) => ctor("RGt", vec![json!(a)]),
        Rq::Ge(a) => ctor("RGe", vec![json!(a)]),
        Rq::Lt(a) => ctor("RLt", vec![json!(a)]),
        Rq::Le(a) => ctor("RLe", vec![json!(a)]),
        Rq::Between(a, b) => ctor("RBetween", vec![json!(a), json!(b)]),
        Rq::Include(ks) => ctor("RInclude", vec![json!(ks)]),
        Rq::Or(qs) => ctor("ROr", vec![Value::Array(qs.iter().map(rq_term).collect())]),
        Rq::And(qs) => ctor("RAnd", vec![Value::Array(qs.iter().map(rq_term).collect())]),
        Rq::Not(q) => ctor("RNot", vec![rq_term(q)]),
    }
}

fn flt_term(f: &Flt) -> Value {
    match f {
        Flt::Field(i, q) => ctor("FField", vec![json!(IDX[*i]), rq_term(q)]),
        Flt::Or(fs) => ctor("FOr", vec![Value::Array(fs.iter().map(flt_term).collect())]),
        Flt::And(fs) => ctor("FAnd", vec![Value::Array(fs.iter().map(flt_term).collect())]),
        Flt::Not(f) => ctor("FNot", vec![flt_term(f)]),
    }
}

// ------------------------------------------------------------------------------------------ oracle
#[derive(Clone, Debug, Default, PartialEq)]
struct Vals {
    age: Option<i64>,
    name: Option<i64>,
    nums: Vec<i64>,
    lvl: Option<i64>,
    body: String,
}

impl Vals {
    fn keys(&self, idx: usize) -> Vec<i64> {
        match idx {
            1 => self.age.into_iter().collect(),
            2 => self.name.into_iter().collect(),
            3 => self.nums.clone(),
            4 => self.lvl.into_iter().collect(),
            _ => vec![],
        }
    }
}

fn key_matches(k: i64, q: &Rq) -> bool {
    match q {
        Rq::Eq(a) => k == *a,
        Rq::Gt(a) => k > *a,
        Rq::Ge(a) => k >= *a,
        Rq::Lt(a) => k < *a,
        Rq::Le(a) => k <= *a,
        Rq::Between(a, b) => *a <= k && k <= *b,
        Rq::Include(ks) => ks.contains(&k),
        Rq::Or(qs) => qs.iter().any(|q| key_matches(k, q)),
        // an empty conjunction matches nothing, as the code documents
        Rq::And(qs) => !qs.is_empty() && qs.iter().all(|q| key_matches(k, q)),
        Rq::Not(q) => !key_matches(k, q),
    }
}

/// The set-algebra reading: field predicate = some indexed key of the document satisfies it.
fn denote(f: &Flt, id: u64, v: &Vals) -> bool {
    match f {
        Flt::Field(0, q) => key_matches(id as i64, q),
        Flt::Field(i, q) => v.keys(*i).iter().any(|k| key_matches(*k, q)),
        Flt::Or(fs) => fs.iter().any(|f| denote(f, id, v)),
        Flt::And(fs) => !fs.is_empty() && fs.iter().all(|f| denote(f, id, v)),
        Flt::Not(f) => !denote(f, id, v),
    }
}

// ------------------------------------------------------------------------------------------ generators
struct Gen {
    rng: Rng,
    kmax: i64,
    max_id: i64,
}

impl Gen {
    fn val(&mut self, idx: usize) -> i64 {
        match idx {
            0 => self.rng.range(0, self.max_id + 2),
            4 => self.rng.range(-self.kmax / 2 - 1, self.kmax / 2 + 1),
            _ => self.rng.range(0, self.kmax + 1),
        }
    }

    fn rq(&mut self, idx: usize, depth: usize) -> Rq {
        let leaf = depth == 0 || self.rng.chance(7, 10);
        if leaf {
            match self.rng.below(9) {
                0 | 1 => Rq::Eq(self.val(idx)),
                2 => Rq::Gt(self.val(idx)),
                3 => Rq::Ge(self.val(idx)),
                4 => Rq::Lt(self.val(idx)),
                5 => Rq::Le(self.val(idx)),
                6 => {
                    let (a, b) = (self.val(idx), self.val(idx));
                    // mostly ordered, sometimes inverted
                    if self.rng.chance(4, 5) { Rq::Between(a.min(b), a.max(b)) } else { Rq::Between(a, b) }
                }
                _ => {
                    let n = self.rng.below(5) as usize;
                    let mut ks: Vec<i64> = (0..n).map(|_| self.val(idx)).collect();
                    if n > 0 && self.rng.chance(1, 3) {
                        ks.push(ks[0]); // duplicate key
                    }
                    Rq::Include(ks)
                }
            }
        } else {
            match self.rng.below(7) {
                0 | 1 | 2 => {
                    let n = self.arity();
                    Rq::Or((0..n).map(|_| self.rq(idx, depth - 1)).collect())
                }
                3 | 4 => {
                    let n = self.arity();
                    Rq::And((0..n).map(|_| self.rq(idx, depth - 1)).collect())
                }
                _ => Rq::Not(Box::new(self.rq(idx, depth - 1))),
            }
        }
    }

    fn arity(&mut self) -> usize {
        match self.rng.below(10) {
            0 => 0,
            1 => 1,
            2..=6 => 2,
            _ => 3,
        }
    }

    fn flt(&mut self, depth: usize) -> Flt {
        let leaf = depth == 0 || self.rng.chance(4, 10);
        if leaf {
            let idx = match self.rng.below(10) {
                0 | 1 => 0,
                2 | 3 | 4 => 1,
                5 | 6 => 2,
                7 | 8 => 3,
                _ => 4,
            };
            let d = self.rng.below(3) as usize;
            Flt::Field(idx, self.rq(idx, d))
        } else {
            match self.rng.below(8) {
                0 | 1 | 2 => {
                    let n = self.arity();
                    Flt::Or((0..n).map(|_| self.flt(depth - 1)).collect())
                }
                3 | 4 | 5 => {
                    let n = self.arity();
                    Flt::And((0..n).map(|_| self.flt(depth - 1)).collect())
                }
                _ => Flt::Not(Box::new(self.flt(depth - 1))),
            }
        }
    }

    fn vals(&mut self) -> Vals {
        const WORDS: [&str; 4] = ["alpha", "beta", "gamma", "delta"];
        let mut body = String::new();
        for w in WORDS {
            for _ in 0..self.rng.below(3) {
                body.push_str(w);
                body.push(' ');
            }
        }
        if body.is_empty() {
            body.push_str("omega");
        }
        let nn = self.rng.below(4) as usize;
        Vals {
            age: if self.rng.chance(1, 6) { None } else { Some(self.val(1)) },
            name: if self.rng.chance(1, 6) { None } else { Some(self.val(2)) },
            nums: (0..nn).map(|_| self.val(3)).collect(),
            lvl: if self.rng.chance(1, 6) { None } else { Some(self.val(4)) },
            body,
        }
    }
}

// ------------------------------------------------------------------------------------------ collection
fn schema() -> Schema {
    let mut b = Schema::builder();
    b.add_field(FieldEntry::new("age".into(), FieldType::Option(Box::new(FieldType::U64))).unwrap()).unwrap();
    b.add_field(FieldEntry::new("name".into(), FieldType::Option(Box::new(FieldType::Text))).unwrap()).unwrap();
    b.add_field(FieldEntry::new("nums".into(), FieldType::Array(vec![FieldType::U64])).unwrap()).unwrap();
    b.add_field(FieldEntry::new("lvl".into(), FieldType::Option(Box::new(FieldType::I64))).unwrap()).unwrap();
    b.add_field(FieldEntry::new("body".into(), FieldType::Text).unwrap()).unwrap();
    b.build().unwrap()
}

fn field_map(v: &Vals) -> BTreeMap<String, Fv> {
    let mut m = BTreeMap::new();
    m.insert("age".to_string(), v.age.map(|a| Fv::U64(a as u64)).unwrap_or(Fv::Null));
    m.insert("name".to_string(), v.name.map(|a| to_fv(2, a)).unwrap_or(Fv::Null));
    m.insert("nums".to_string(), Fv::Array(v.nums.iter().map(|a| Fv::U64(*a as u64)).collect()));
    m.insert("lvl".to_string(), v.lvl.map(Fv::I64).unwrap_or(Fv::Null));
    m.insert("body".to_string(), Fv::Text(v.body.clone()));
    m
}

struct Built {
    db: AndaDB,
    coll: Arc<Collection>,
    docs: BTreeMap<u64, Vals>,
}

async fn new_collection(name: &str) -> (AndaDB, Arc<Collection>) {
    let db = AndaDB::connect(
        Arc::new(InMemory::new()),
        DBConfig {
            name: name.to_string(),
            description: "verif C03".to_string(),
            storage: StorageConfig { compress_level: 0, ..Default::default() },
            lock: None,
        },
    )
    .await
    .expect("db");
    let coll = db
        .open_or_create_collection(
            schema(),
            CollectionConfig { name: "c".to_string(), description: "verif C03".to_string() },
            async |c: &mut Collection| {
                c.create_btree_index_nx(&["age"]).await?;
                c.create_btree_index_nx(&["name"]).await?;
                c.create_btree_index_nx(&["nums"]).await?;
                c.create_btree_index_nx(&["lvl"]).await?;
                c.create_bm25_index_nx(&["body"]).await?;
                Ok(())
            },
        )
        .await
        .expect("collection");
    (db, coll)
}

async fn add(coll: &Collection, v: &Vals) -> u64 {
    let mut d = Document::new(coll.schema());
    d.set_id(0);
    for (k, fv) in field_map(v) {
        if fv != Fv::Null {
            d.set_field(&k, fv).expect("set_field");
        }
    }
    coll.add(d).await.expect("add")
}

/// Random collection: adds, then removals and updates (which disturb posting order), then more adds.
async fn build_random(g: &mut Gen, name: &str, n: usize) -> Built {
    let (db, coll) = new_collection(name).await;
    let mut docs = BTreeMap::new();
    let first = n - n / 4;
    for _ in 0..first {
        let v = g.vals();
        let id = add(&coll, &v).await;
        docs.insert(id, v);
    }
    let ids: Vec<u64> = docs.keys().copied().collect();
    for id in ids {
        match g.rng.below(10) {
            0 | 1 => {
                if docs.len() > 1 {
                    coll.remove(id).await.expect("remove");
                    docs.remove(&id);
                }
            }
            2 | 3 => {
                let v = g.vals();
                coll.update(id, field_map(&v)).await.expect("update");
                docs.insert(id, v);
            }
            _ => {}
        }
    }
    for _ in first..n {
        let v = g.vals();
        let id = add(&coll, &v).await;
        docs.insert(id, v);
    }
    Built { db, coll, docs }
}

/// The calibration collection of DESIGN.md section 0: ages 50,10,20,40,30 for ids 1..5.
async fn build_witness() -> Built {
    let (db, coll) = new_collection("witness").await;
    let mut docs = BTreeMap::new();
    for age in [50, 10, 20, 40, 30] {
        let v = Vals { age: Some(age), name: None, nums: vec![], lvl: None, body: "alpha".into() };
        let id = add(&coll, &v).await;
        docs.insert(id, v);
    }
    Built { db, coll, docs }
}

fn fv_key(fv: &Fv) -> i64 {
    match fv {
        Fv::U64(u) => *u as i64,
        Fv::I64(i) => *i,
        Fv::Text(s) => s.trim_start_matches('k').parse::<i64>().unwrap_or(-1),
        _ => -1,
    }
}

/// Real index contents, in key order, postings in the index's own order.
fn dump_index(coll: &Collection, idx: usize) -> Vec<(i64, Vec<u64>)> {
    let view = coll.get_btree_index(&[IDX[idx]]).expect("index");
    let all = RangeQuery::Not(Box::new(RangeQuery::Include(vec![])));
    view.range_query_with(all, |fv, pks| (true, vec![(fv_key(&fv), pks.clone())]))
}

fn coll_term(b: &Built) -> (Value, Vec<String>) {
    let mut problems = vec![];
    let ids: Vec<u64> = b.coll.ids();
    let own: Vec<u64> = b.docs.keys().copied().collect();
    let mut sorted = ids.clone();
    sorted.sort_unstable();
    if sorted != own {
        problems.push(format!("collection ids {sorted:?} differ from the documents written {own:?}"));
    }
    let mut idxs = vec![];
    for i in 1..=4 {
        let dump = dump_index(&b.coll, i);
        // sanity: the dump is what the documents say (as sets)
        let mut want: BTreeMap<i64, BTreeSet<u64>> = BTreeMap::new();
        for (id, v) in &b.docs {
            for k in v.keys(i) {
                want.entry(k).or_default().insert(*id);
            }
        }
        let got: BTreeMap<i64, BTreeSet<u64>> =
            dump.iter().map(|(k, p)| (*k, p.iter().copied().collect())).collect();
        if got != want {
            problems.push(format!("index {} dump {got:?} differs from the documents {want:?}", IDX[i]));
        }
        let entries: Vec<Value> = dump.iter().map(|(k, p)| tup(vec![json!(k), json!(p)])).collect();
        idxs.push(tup(vec![json!(IDX[i]), Value::Array(entries)]));
    }
    (tup(vec![json!(sorted), Value::Array(idxs)]), problems)
}

// ------------------------------------------------------------------------------------------ queries
#[derive(Clone, Debug)]
enum Entry {
    First(Option<usize>),
    Last(Option<usize>),
    All,
    /// search_ids: optional full-text search (text, candidates as the BM25 index returns them), limit
    Search(Option<(String, Vec<u64>)>, Option<usize>),
}

fn lim_term(l: &Option<usize>) -> Value {
    match l {
        None => Value::Null,
        Some(n) => some(nat(*n)),
    }
}

fn entry_term(e: &Entry) -> Value {
    match e {
        Entry::First(l) => ctor("EFirst", vec![lim_term(l)]),
        Entry::Last(l) => ctor("ELast", vec![lim_term(l)]),
        Entry::All => ctor("EAll", vec![]),
        Entry::Search(s, l) => ctor(
            "ESearch",
            vec![
                match s {
                    None => Value::Null,
                    Some((_, c)) => some(json!(c)),
                },
                lim_term(l),
            ],
        ),
    }
}

const MAX: usize = Collection::MAX_SEARCH_LIMIT;

fn expected(full: &[u64], docs: &BTreeMap<u64, Vals>, f: &Flt, e: &Entry) -> Vec<u64> {
    match e {
        Entry::All => full.to_vec(),
        Entry::First(l) => {
            let n = l.unwrap_or(MAX).min(MAX);
            full[..n.min(full.len())].to_vec()
        }
        Entry::Last(l) => {
            let n = l.unwrap_or(MAX).min(MAX);
            full[full.len() - n.min(full.len())..].to_vec()
        }
        Entry::Search(None, l) => {
            let n = l.unwrap_or(10).min(MAX);
            full[..n.min(full.len())].to_vec()
        }
        Entry::Search(Some((_, cands)), l) => {
            let n = l.unwrap_or(10).min(MAX);
            cands
                .iter()
                .filter(|id| docs.get(id).is_some_and(|v| denote(f, **id, v)))
                .take(n)
                .copied()
                .collect()
        }
    }
}

async fn run_impl(coll: &Collection, f: &Flt, e: &Entry) -> Result<Vec<u64>, String> {
    let filter = to_filter(f);
    let fut = async {
        match e {
            Entry::First(l) => coll.query_ids(filter, *l).await,
            Entry::Last(l) => coll.query_last_ids(filter, *l).await,
            Entry::All => coll.query_all_ids(filter).await,
            Entry::Search(s, l) => {
                coll.search_ids(Query {
                    search: s.as_ref().map(|(text, _)| Search { text: Some(text.clone()), ..Default::default() }),
                    filter: Some(filter),
                    limit: *l,
                })
                .await
            }
        }
    };
    match AssertUnwindSafe(fut).catch_unwind().await {
        Ok(Ok(v)) => Ok(v),
        Ok(Err(err)) => Err(format!("error: {err}")),
        Err(_) => Err("panic".to_string()),
    }
}

fn top_k(l: Option<usize>) -> usize {
    (l.unwrap_or(10).min(MAX) * 10).min(4096)
}

fn entries_for(g: &mut Gen, b: &Built, n_match: usize, big: bool) -> Vec<Entry> {
    let n = b.docs.len();
    let mut ls: Vec<Option<usize>> = vec![None, Some(0), Some(1), Some(2), Some(n + 1)];
    if n_match >= 2 {
        ls.push(Some(g.rng.range(1, n_match as i64 - 1) as usize)); // a page that cuts
    }
    ls.push(Some(g.rng.range(0, n as i64 + 1) as usize));
    if big || g.rng.chance(1, 8) {
        ls.push(Some(MAX + 1));
        ls.push(Some(MAX));
    }
    ls.sort();
    ls.dedup();
    let mut es = vec![Entry::All];
    for l in &ls {
        es.push(Entry::First(*l));
        es.push(Entry::Last(*l));
    }
    // search_ids: filter only, and filter over a full-text candidate list
    for l in [None, Some(0), Some(1), Some(2), Some(g.rng.range(1, n as i64 + 1) as usize)] {
        es.push(Entry::Search(None, l));
    }
    let bm25 = b.coll.get_bm25_index(&["body"]).expect("bm25");
    let text = *g.rng.pick(&["alpha", "beta", "gamma delta", "alpha beta gamma delta omega", "nosuchword"]);
    for l in [None, Some(1), Some(g.rng.range(1, n as i64 + 1) as usize)] {
        if l == Some(0) {
            continue;
        }
        let cands: Vec<u64> = bm25.search(text, top_k(l), None).into_iter().map(|r| r.0).collect();
        es.push(Entry::Search(Some((text.to_string(), cands)), l));
    }
    es
}

fn is_btree_leaf(f: &Flt) -> bool {
    matches!(f, Flt::Field(i, _) if *i > 0)
}

// ------------------------------------------------------------------------------------------ main
#[tokio::main]
async fn main() {
    let args: Vec<String> = std::env::args().collect();
    let out_path = arg_value(&args, "--out").unwrap_or_else(|| "/dev/stdout".into());
    let n_colls: usize = arg_value(&args, "--colls").and_then(|s| s.parse().ok()).unwrap_or(40);
    let max_docs: usize = arg_value(&args, "--maxdocs").and_then(|s| s.parse().ok()).unwrap_or(40);
    let n_filters: usize = arg_value(&args, "--filters").and_then(|s| s.parse().ok()).unwrap_or(24);
    let depth: usize = arg_value(&args, "--depth").and_then(|s| s.parse().ok()).unwrap_or(4);
    let big: usize = arg_value(&args, "--big").and_then(|s| s.parse().ok()).unwrap_or(0);
    let mut out = std::io::BufWriter::new(std::fs::File::create(&out_path).expect("out"));
    let mut rng = Rng::from_env();

    let mut evaluations = 0usize;
    let mut cutting = 0usize; // evaluations whose limit is smaller than the match set
    let mut failures: Vec<Value> = vec![];
    let mut oracle_failures = 0usize;
    let mut failure_classes: BTreeMap<String, usize> = BTreeMap::new();
    let mut shape: BTreeMap<String, usize> = BTreeMap::new();
    let mut sizes: BTreeMap<usize, usize> = BTreeMap::new();
    let mut dump_problems: Vec<String> = vec![];
    let mut key_id_inversions = 0usize; // collections where key order and id order disagree somewhere

    for ci in 0..(n_colls + 1 + big) {
        let is_big = ci > n_colls;
        let mut g = Gen { rng: rng.fork(), kmax: 8, max_id: 0 };
        let built = if ci == 0 {
            build_witness().await
        } else if is_big {
            g.kmax = 40;
            let n = MAX + 60 + g.rng.below(60) as usize;
            build_random(&mut g, &format!("big{ci}"), n).await
        } else {
            let n = 1 + g.rng.below(max_docs as u64) as usize;
            g.kmax = 3 + g.rng.below(8) as i64;
            build_random(&mut g, &format!("c{ci}"), n).await
        };
        g.max_id = built.docs.keys().next_back().copied().unwrap_or(0) as i64;
        *sizes.entry(built.docs.len().min(60) / 10 * 10).or_default() += 1;
        let ages: Vec<i64> = built.docs.values().filter_map(|v| v.age).collect();
        if ages.windows(2).any(|w| w[0] > w[1]) {
            key_id_inversions += 1;
        }
        let (cterm, problems) = coll_term(&built);
        dump_problems.extend(problems);

        let mut filters: Vec<Flt> = vec![];
        if ci == 0 {
            let leaf = Flt::Field(1, Rq::Ge(0));
            filters.push(leaf.clone());
            filters.push(Flt::And(vec![leaf.clone()]));
            filters.push(Flt::Or(vec![leaf.clone()]));
            filters.push(Flt::Not(Box::new(Flt::Not(Box::new(leaf)))));
        } else {
            let nf = if is_big { n_filters / 2 } else { n_filters };
            for _ in 0..nf {
                let d = g.rng.below(depth as u64 + 1) as usize;
                let f = g.flt(d);
                // logically equal re-shapings of the same filter must give the same pages
                match g.rng.below(12) {
                    0 => filters.push(Flt::And(vec![f.clone()])),
                    1 => filters.push(Flt::Or(vec![f.clone()])),
                    2 => filters.push(Flt::Not(Box::new(Flt::Not(Box::new(f.clone()))))),
                    _ => {}
                }
                filters.push(f);
            }
        }

        let mut queries: Vec<Value> = vec![];
        let mut obs: Vec<Value> = vec![];
        for f in &filters {
            let full: Vec<u64> = built.docs.iter().filter(|(id, v)| denote(f, **id, v)).map(|(id, _)| *id).collect();
            let kind = match f {
                Flt::Field(0, _) => "id-leaf",
                Flt::Field(_, _) => "btree-leaf",
                Flt::Or(_) => "or",
                Flt::And(_) => "and",
                Flt::Not(_) => "not",
            };
            *shape.entry(kind.to_string()).or_default() += 1;
            let entries = if ci == 0 {
                vec![Entry::All, Entry::First(Some(2)), Entry::Last(Some(2)), Entry::First(None), Entry::Search(None, Some(1))]
            } else {
                entries_for(&mut g, &built, full.len(), is_big)
            };
            let all_ok = run_impl(&built.coll, f, &Entry::All).await.as_deref() == Ok(&full[..]);
            for e in &entries {
                let want = expected(&full, &built.docs, f, e);
                let got = run_impl(&built.coll, f, e).await;
                evaluations += 1;
                let lim = match e {
                    Entry::First(l) | Entry::Last(l) => Some(l.unwrap_or(MAX).min(MAX)),
                    Entry::Search(_, l) => Some(l.unwrap_or(10).min(MAX)),
                    Entry::All => None,
                };
                let cuts = lim.is_some_and(|l| l > 0 && l < full.len());
                if cuts {
                    cutting += 1;
                }
                let ok = got.as_ref().is_ok_and(|v| *v == want);
                if !ok {
                    oracle_failures += 1;
                    let class = if got.is_err() {
                        "error-or-panic"
                    } else if matches!(e, Entry::All) {
                        "match-set"
                    } else if is_btree_leaf(f) && all_ok && !matches!(e, Entry::Search(Some(_), _)) {
                        "btree-leaf-limit-before-sort"
                    } else if matches!(e, Entry::Search(Some(_), _)) {
                        "search-restriction"
                    } else if all_ok {
                        "page-not-an-end-of-full-result"
                    } else {
                        "match-set"
                    };
                    *failure_classes.entry(class.to_string()).or_default() += 1;
                    if failures.len() < 12 || (failure_classes[class] == 1 && failures.len() < 24) {
                        failures.push(json!({
                            "class": class,
                            "what": format!("{} returned {:?}, the set-algebra reading gives {:?}", entry_name(e), got, want),
                            "collection": built.docs.iter().map(|(id, v)| json!({"_id": id, "age": v.age, "name": v.name, "nums": v.nums, "lvl": v.lvl})).take(64).collect::<Vec<_>>(),
                            "documents": built.docs.len(),
                            "filter": format!("{:?}", to_filter(f)),
                            "entry": format!("{e:?}"),
                            "full_match_set": full.iter().take(64).collect::<Vec<_>>(),
                            "expected": want.iter().take(64).collect::<Vec<_>>(),
                            "observed": format!("{:?}", got.as_ref().map(|v| v.iter().take(64).collect::<Vec<_>>())),
                            "collection_index": ci,
                        }));
                    }
                }
                queries.push(tup(vec![flt_term(f), entry_term(e), json!(cuts)]));
                obs.push(match got {
                    Ok(v) => some(json!(v)),
                    Err(_) => Value::Null,
                });
            }
        }
        let line = json!({"kind": "model", "case": tup(vec![cterm, Value::Array(queries)]), "obs": Value::Array(obs),
                          "docs": built.docs.len(), "witness": ci == 0});
        writeln!(out, "{line}").unwrap();
        let _ = built.db.close().await;
    }

    let summary = json!({
        "kind": "summary",
        "collections": n_colls + 1 + big,
        "evaluations": evaluations,
        "cutting_evaluations": cutting,
        "oracle_failures": oracle_failures,
        "failure_classes": failure_classes,
        "failures": failures,
        "top_level_shapes": shape,
        "collection_sizes": sizes,
        "collections_with_key_order_not_id_order": key_id_inversions,
        "dump_problems": dump_problems.iter().take(5).collect::<Vec<_>>(),
        "dump_problem_count": dump_problems.len(),
        "max_search_limit": MAX,
    });
    writeln!(out, "{summary}").unwrap();
    out.flush().unwrap();
}

fn entry_name(e: &Entry) -> String {
    match e {
        Entry::First(l) => format!("query_ids(limit {l:?})"),
        Entry::Last(l) => format!("query_last_ids(limit {l:?})"),
        Entry::All => "query_all_ids".to_string(),
        Entry::Search(None, l) => format!("search_ids(filter only, limit {l:?})"),
        Entry::Search(Some((t, c)), l) => format!("search_ids(text {t:?} -> candidates {:?}, limit {l:?})", &c[..c.len().min(24)]),
    }
}
