mod c11;
mod probe;
mod tok;

fn main() {
    let args: Vec<String> = std::env::args().collect();
    match args.get(1).map(|s| s.as_str()) {
        Some("c11") => c11::main(&args[2..]),
        Some("replay") => c11::replay(&args[2..]),
        Some("probe") => probe::main(&args[2..]),
        _ => {
            eprintln!("usage: h_bm25 <c11|probe> ...");
            std::process::exit(2);
        }
    }
}
