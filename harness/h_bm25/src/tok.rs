//! Whitespace tokenizer (ASCII space / tab / newline separated words, no case folding).
//! The Coq model's `ws_tokens` is the same function.
use anda_db_tfs::{Token, TokenStream, Tokenizer};

#[derive(Clone, Default)]
pub struct Ws;

pub struct WsStream<'a> {
    text: &'a str,
    pos: usize,
    token: Token,
}

impl Tokenizer for Ws {
    type TokenStream<'a> = WsStream<'a>;
    fn token_stream<'a>(&'a mut self, text: &'a str) -> WsStream<'a> {
        WsStream { text, pos: 0, token: Token::default() }
    }
}

impl TokenStream for WsStream<'_> {
    fn advance(&mut self) -> bool {
        let bytes = self.text.as_bytes();
        let mut i = self.pos;
        while i < bytes.len() && bytes[i] == b' ' { i += 1; }
        if i >= bytes.len() { self.pos = i; return false; }
        let start = i;
        while i < bytes.len() && bytes[i] != b' ' { i += 1; }
        self.token.text.clear();
        self.token.text.push_str(&self.text[start..i]);
        self.token.offset_from = start;
        self.token.offset_to = i;
        self.token.position = self.token.position.wrapping_add(1);
        self.pos = i;
        true
    }
    fn token(&self) -> &Token { &self.token }
    fn token_mut(&mut self) -> &mut Token { &mut self.token }
}

/// Independent reading of the tokenizer + the `len <= 1` noise filter of `collect_tokens`.
pub fn words(text: &str) -> Vec<&str> {
    text.split(' ').filter(|w| w.len() > 1).collect()
}
