//! C11 — BM25 full-text index: run generated histories (insert / remove with original or
//! non-original text / re-insert / purge_ids / compact / flush / flush+load) on the real
//! `BM25Index` with a whitespace tokenizer, observe every result, and
//!   * print one `model` case per history for the Coq model (Bm25/Run.v `check_case`),
//!   * print one `flush` case per flush for the Coq-proved write-log monitor (`wf_flush_log`),
//!   * judge everything with direct oracles on the implementation (naive inverted index built
//!     with the same tokenizer, BTreeSet set algebra, sortedness / prefix / repeatability of the
//!     ranking, counters, every crash prefix of every flush loaded with the real `load_all`).
use crate::tok::{Ws, words};
use anda_db_tfs::{BM25Config, BM25Error, BM25Index, BM25Params, BucketObject, QueryType};
use h_common::*;
use serde_json::{Value, json};
use std::cell::RefCell;
use std::collections::{BTreeMap, BTreeSet, HashMap};
use std::io::Write;
use std::panic::{AssertUnwindSafe, catch_unwind};

pub const VOCAB: [&str; 12] = [
    "red", "blue", "fox", "dog", "sun", "moon", "rock", "wind", "salt", "gold", "iron", "wolf",
];
const BIG_K: usize = 10_000;

type Index = BM25Index<Ws>;

// ------------------------------------------------------------------------------------ queries
#[derive(Clone, Debug)]
pub enum Q {
    Term(String),
    And(Vec<Q>),
    Or(Vec<Q>),
    Not(Box<Q>),
}

fn gen_query(rng: &mut Rng, depth: usize) -> Q {
    let leaf = depth == 0 || rng.chance(1, 4);
    if leaf {
        return Q::Term(rng.pick(&VOCAB).to_string());
    }
    match rng.below(7) {
        0 | 1 => Q::And((0..rng.range(2, 3)).map(|_| gen_query(rng, depth - 1)).collect()),
        2 | 3 => Q::Or((0..rng.range(2, 3)).map(|_| gen_query(rng, depth - 1)).collect()),
        4 | 5 => Q::Not(Box::new(gen_query(rng, depth - 1))),
        // AND whose operands are mostly NOTs: the positives/negatives split and the all-negative start
        _ => Q::And(
            (0..rng.range(2, 3))
                .map(|_| {
                    if rng.chance(3, 4) { Q::Not(Box::new(gen_query(rng, depth - 1))) } else { gen_query(rng, depth - 1) }
                })
                .collect(),
        ),
    }
}

fn render(q: &Q) -> String {
    match q {
        Q::Term(t) => t.clone(),
        Q::And(cs) => format!("({})", cs.iter().map(render).collect::<Vec<_>>().join(" AND ")),
        Q::Or(cs) => format!("({})", cs.iter().map(render).collect::<Vec<_>>().join(" OR ")),
        Q::Not(c) => match **c {
            Q::Not(_) => format!("NOT ({})", render(c)),
            _ => format!("NOT {}", render(c)),
        },
    }
}

fn ast_json(q: &QueryType) -> Value {
    match q {
        QueryType::Term(t) => ctor("QTerm", vec![json!(t)]),
        QueryType::And(cs) => ctor("QAnd", vec![Value::Array(cs.iter().map(|c| ast_json(c)).collect())]),
        QueryType::Or(cs) => ctor("QOr", vec![Value::Array(cs.iter().map(|c| ast_json(c)).collect())]),
        QueryType::Not(c) => ctor("QNot", vec![ast_json(c)]),
    }
}

/// Naive inverted index: which ids have an entry under which token.
#[derive(Clone, Default)]
struct Naive {
    /// strict reading of the property: the live documents and their texts
    texts: BTreeMap<u64, String>,
    /// entries the implementation is documented to keep (incl. stale ones left by a remove()
    /// that was given non-original text) — used only to *classify* a strict failure
    entries: BTreeMap<String, BTreeSet<u64>>,
}

impl Naive {
    fn universe(&self) -> BTreeSet<u64> { self.texts.keys().copied().collect() }
    fn term_strict(&self, t: &str) -> BTreeSet<u64> {
        let qs: BTreeSet<&str> = words(t).into_iter().collect();
        self.texts.iter().filter(|(_, text)| words(text).iter().any(|w| qs.contains(w))).map(|(id, _)| *id).collect()
    }
    fn term_stale(&self, t: &str) -> BTreeSet<u64> {
        let mut out = BTreeSet::new();
        for w in words(t) {
            if let Some(ids) = self.entries.get(w) {
                out.extend(ids.iter().filter(|id| self.texts.contains_key(id)));
            }
        }
        out
    }
    fn eval(&self, q: &Q, stale: bool) -> BTreeSet<u64> {
        match q {
            Q::Term(t) => if stale { self.term_stale(t) } else { self.term_strict(t) },
            Q::And(cs) => {
                let mut it = cs.iter().map(|c| self.eval(c, stale));
                match it.next() {
                    None => BTreeSet::new(),
                    Some(first) => it.fold(first, |a, b| a.intersection(&b).copied().collect()),
                }
            }
            Q::Or(cs) => cs.iter().flat_map(|c| self.eval(c, stale)).collect(),
            Q::Not(c) => { let e = self.eval(c, stale); self.universe().difference(&e).copied().collect() }
        }
    }
    fn insert(&mut self, id: u64, text: &str) {
        self.texts.insert(id, text.to_string());
        for w in words(text) { self.entries.entry(w.to_string()).or_default().insert(id); }
    }
    fn remove(&mut self, id: u64, text: &str) {
        self.texts.remove(&id);
        for w in words(text) {
            if let Some(s) = self.entries.get_mut(w) { s.remove(&id); }
        }
    }
    fn purge(&mut self, ids: &BTreeSet<u64>) {
        for id in ids { self.texts.remove(id); }
        for s in self.entries.values_mut() { s.retain(|id| !ids.contains(id)); }
    }
    fn reload(&mut self) {
        let live = self.universe();
        for s in self.entries.values_mut() { s.retain(|id| live.contains(id)); }
    }
    fn has_ghost(&self) -> bool {
        self.entries.iter().any(|(w, ids)| ids.iter().any(|id| match self.texts.get(id) {
            Some(text) => !words(text).contains(&w.as_str()),
            None => false,
        }))
    }
}

// ------------------------------------------------------------------------------------ store
#[derive(Clone, Default)]
struct MemStore {
    meta: Option<Vec<u8>>,
    buckets: HashMap<BucketObject, Vec<u8>>,
}

#[derive(Clone)]
enum W {
    Bucket(BucketObject, Vec<u8>),
    Meta(Vec<u8>),
}

fn apply_write(st: &mut MemStore, w: &W) {
    match w {
        W::Bucket(o, d) => { st.buckets.insert(*o, d.clone()); }
        W::Meta(d) => st.meta = Some(d.clone()),
    }
}

fn load(st: &MemStore) -> Result<Option<Index>, String> {
    let Some(meta) = &st.meta else { return Ok(None) };
    let r = catch_unwind(AssertUnwindSafe(|| {
        futures::executor::block_on(Index::load_all(Ws, meta.as_slice(), async |o| Ok(st.buckets.get(&o).cloned())))
    }));
    match r {
        Ok(Ok(ix)) => Ok(Some(ix)),
        Ok(Err(e)) => Err(format!("load_all failed: {e}")),
        Err(_) => Err("load_all panicked".to_string()),
    }
}

fn manifest_of(meta: &[u8]) -> BTreeMap<u32, u64> {
    Index::load_metadata(Ws, meta).map(|ix| ix.metadata().buckets).unwrap_or_default()
}

/// What a reader can see of an index: every vocabulary term and a few boolean queries
/// (ids and score bits, in result order), document count and average length bits.
fn battery(ix: Option<&Index>) -> Vec<(String, Vec<(u64, u32)>)> {
    let mut out = Vec::new();
    let Some(ix) = ix else { return out };
    for w in VOCAB {
        out.push((w.to_string(), ix.search(w, BIG_K, None).into_iter().map(|(i, s)| (i, s.to_bits())).collect()));
    }
    for q in ["red AND blue", "fox OR (moon AND NOT dog)", "NOT gold", "NOT red AND NOT sun"] {
        out.push((q.to_string(), ix.search_advanced(q, BIG_K, None).into_iter().map(|(i, s)| (i, s.to_bits())).collect()));
    }
    let st = ix.stats();
    out.push(("#stats".to_string(), vec![(st.num_elements, st.avg_doc_tokens.to_bits())]));
    out
}

// ------------------------------------------------------------------------------------ run
fn f32_key(x: f32) -> i64 {
    let mut k = x.to_bits() as i32;
    k ^= (((k >> 31) as u32) >> 1) as i32;
    k as i64
}

fn param_choices() -> Vec<Option<BM25Params>> {
    vec![
        None,
        Some(BM25Params { k1: 1.2, b: 0.75 }),
        Some(BM25Params { k1: f32::NAN, b: f32::NAN }),
        Some(BM25Params { k1: -1.0, b: 2.0 }),
        Some(BM25Params { k1: f32::INFINITY, b: f32::NEG_INFINITY }),
        Some(BM25Params { k1: f32::MAX, b: 0.5 }),
        Some(BM25Params { k1: 0.0, b: 0.0 }),
        Some(BM25Params { k1: 1e-30, b: -0.0 }),
    ]
}

struct Ctx {
    /// ids removed or purged so far in the current history (a resurrected document must be one of them)
    removed: BTreeSet<u64>,
    failures: Vec<Value>,
    n_fail: usize,
    evaluations: usize,
    dist: BTreeMap<String, usize>,
}

impl Ctx {
    fn fail(&mut self, class: &str, what: String, history: &[String], extra: Value) {
        self.n_fail += 1;
        if self.failures.iter().filter(|f| f["class"] == class).count() < 3 {
            self.failures.push(json!({"class": class, "what": what, "history": history, "detail": extra}));
        }
    }
    fn bump(&mut self, k: &str) { *self.dist.entry(k.to_string()).or_default() += 1; }
}

fn hits_json(hits: &[(u64, f32)]) -> Value {
    Value::Array(hits.iter().map(|(i, s)| tup(vec![json!(i), json!(f32_key(*s)), json!(s.is_nan())])).collect())
}

/// Run one query in every way the property talks about; returns (hits for k = "all", tops).
fn observe_query(
    cx: &mut Ctx, ix: &Index, rng: &mut Rng, text: &str, advanced: bool, expect_strict: &BTreeSet<u64>,
    expect_stale: &BTreeSet<u64>, history: &[String],
) -> (Vec<(u64, f32)>, Vec<(usize, Vec<u64>)>) {
    let params = rng.pick(&param_choices()).clone();
    let run = |k: usize, p: Option<BM25Params>| -> Result<Vec<(u64, f32)>, String> {
        let r = catch_unwind(AssertUnwindSafe(|| {
            if advanced { ix.try_search_advanced(text, k, p).map_err(|e| e.to_string()) } else { Ok(ix.search(text, k, p)) }
        }));
        match r { Ok(x) => x, Err(_) => Err("panic".to_string()) }
    };
    let ptxt = format!("{params:?}");
    let all = match run(BIG_K, params.clone()) {
        Ok(h) => h,
        Err(e) => {
            cx.fail("query-error", format!("query {text:?} failed: {e}"), history, json!({"query": text, "params": ptxt}));
            return (vec![], vec![]);
        }
    };
    cx.evaluations += 1;
    let ids: BTreeSet<u64> = all.iter().map(|h| h.0).collect();
    let input = json!({"query": text, "advanced": advanced, "params": ptxt,
        "returned": all.iter().map(|h| h.0).collect::<Vec<_>>(), "expected": expect_strict});
    if ids.len() != all.len() {
        cx.fail("duplicate-result", format!("query {text:?} returned a document twice"), history, input.clone());
    }
    if &ids != expect_strict {
        if &ids == expect_stale {
            cx.fail("stale-reinsert-ghost",
                format!("query {text:?} returns a document whose current text does not contain the term (stale posting revived by re-insert)"),
                history, input.clone());
        } else {
            cx.fail("retrieval-set", format!("query {text:?} does not return exactly the documents it denotes"), history, input.clone());
        }
    }
    // finite, non-negative scores; sorted by (score desc, id asc)
    for w in all.windows(2) {
        let (a, b) = (w[0], w[1]);
        let ok = a.1 > b.1 || (a.1 == b.1 && a.0 < b.0);
        if !ok {
            cx.fail("rank-order", format!("query {text:?}: results not ordered by descending score then ascending id"), history, input.clone());
            break;
        }
    }
    if all.iter().any(|h| !h.1.is_finite() || h.1 < 0.0 || (h.1 == 0.0 && h.1.is_sign_negative())) {
        cx.fail("score-range", format!("query {text:?}: a score is not finite and non-negative"), history,
            json!({"input": input, "scores": all.iter().map(|h| format!("{}", h.1)).collect::<Vec<_>>()}));
    }
    // repeated query agrees bit for bit
    match run(BIG_K, params.clone()) {
        Ok(again) if again.iter().map(|h| (h.0, h.1.to_bits())).eq(all.iter().map(|h| (h.0, h.1.to_bits()))) => {}
        _ => cx.fail("repeat", format!("query {text:?}: repeated query disagrees"), history, input.clone()),
    }
    // top-k is a prefix of top-(k+1) and of the full list, for every k
    let mut tops = Vec::new();
    let n = all.len();
    let mut prev: Vec<(u64, u32)> = vec![];
    for k in 0..=(n + 1) {
        let got: Vec<(u64, u32)> = match run(k, params.clone()) {
            Ok(h) => h.into_iter().map(|h| (h.0, h.1.to_bits())).collect(),
            Err(_) => { cx.fail("query-error", format!("query {text:?} failed at k={k}"), history, input.clone()); break; }
        };
        cx.evaluations += 1;
        let want: Vec<(u64, u32)> = all.iter().take(k).map(|h| (h.0, h.1.to_bits())).collect();
        if got != want || got.len() < prev.len() || got[..prev.len()] != prev[..] {
            cx.fail("topk-prefix", format!("query {text:?}: top-{k} is not the first {k} of the full ranking"), history,
                json!({"input": input, "k": k, "got": got.iter().map(|h| h.0).collect::<Vec<_>>()}));
            break;
        }
        if k >= 1 && k <= n && (k == 1 || k + 1 == n || rng.chance(1, 3)) {
            tops.push((k, got.iter().map(|h| h.0).collect()));
        }
        prev = got;
    }
    if n >= 2 { cx.bump("queries_with_2plus_hits"); }
    if all.windows(2).any(|w| w[0].1 == w[1].1) { cx.bump("queries_with_score_ties"); }
    (all, tops)
}

fn stats_op(cx: &mut Ctx, ix: &Index, naive: &Naive, history: &[String]) -> Value {
    let st = ix.stats();
    let mut docs = Vec::new();
    let mut total: u64 = 0;
    for id in 0..=12u64 {
        if let Some(n) = ix.get_doc_tokens(id) {
            docs.push(tup(vec![json!(id), json!(n)]));
            total += n as u64;
        }
    }
    // counters: document count and average length (= total_tokens / count) follow the documents
    let want_docs: Vec<(u64, usize)> = naive.texts.iter().map(|(id, t)| (*id, words(t).len())).collect();
    let got_docs: Vec<(u64, usize)> = (0..=12u64).filter_map(|id| ix.get_doc_tokens(id).map(|n| (id, n))).collect();
    let n = got_docs.len();
    let want_avg = if n == 0 { 0.0f32 } else { total as f32 / n as f32 };
    if st.num_elements as usize != n || ix.len() != n || st.avg_doc_tokens.to_bits() != want_avg.to_bits() || got_docs != want_docs {
        cx.fail("counters", "document count / per-document lengths / average length disagree with the indexed documents".to_string(), history,
            json!({"num_elements": st.num_elements, "avg_doc_tokens": st.avg_doc_tokens, "doc_tokens": got_docs, "expected_doc_tokens": want_docs}));
    }
    // total_tokens is private: recover it from the average (exact for these magnitudes)
    let total_obs = (st.avg_doc_tokens as f64 * n as f64).round() as u64;
    ctor("RStats", vec![json!(st.num_elements), json!(total_obs), Value::Array(docs)])
}

fn random_text(rng: &mut Rng) -> String {
    let n = rng.range(1, 5);
    let mut ws: Vec<&str> = (0..n).map(|_| { let m = if rng.chance(1, 2) { 5 } else { 12 }; *rng.pick(&VOCAB[..m]) }).collect();
    if rng.chance(1, 10) { ws.push("x"); }
    if rng.chance(1, 12) { ws.insert(0, ""); }
    ws.join(" ")
}

/// One flush: record the write log, explore every crash prefix with the real loader.
fn doc_ids(ix: &Index) -> BTreeSet<u64> {
    (0..=3100u64).filter(|id| ix.get_doc_tokens(*id).is_some()).collect()
}

fn dump_json(ix: &Index, strict: bool) -> Value {
    let (buckets, postings, _) = ix.verif_dump();
    ctor("RDump", vec![json!(strict),
        Value::Array(buckets.iter().map(|(b, d, t, ids)| tup(vec![json!(b), json!(d), json!(t), json!(ids)])).collect()),
        Value::Array(postings.iter().map(|(t, b, _)| tup(vec![json!(t), json!(b)])).collect())])
}

/// "The live index answers = the answers after loading what the completed flush left behind."
/// Must hold for EVERY history.  The one documented exception is identified narrowly: documents
/// that were removed earlier come back (class stale-reinsert-resurrection) while every other
/// answer is unchanged; a live document that is missing after the reload is never excused.
fn compare_reload(cx: &mut Ctx, live: &Index, loaded: Option<&Index>, when: &str, history: &[String]) {
    let lv = battery(Some(live));
    let ld = battery(loaded);
    if lv == ld { return; }
    let live_ids = doc_ids(live);
    let loaded_ids = loaded.map(doc_ids).unwrap_or_default();
    let lost: Vec<u64> = live_ids.difference(&loaded_ids).copied().collect();
    let back: BTreeSet<u64> = loaded_ids.difference(&live_ids).copied().collect();
    let diff: Vec<_> = lv.iter().zip(ld.iter()).filter(|(a, b)| a != b).take(3)
        .map(|(a, b)| json!({"query": a.0, "live": a.1.iter().map(|h| h.0).collect::<Vec<_>>(), "loaded": b.1.iter().map(|h| h.0).collect::<Vec<_>>()})).collect();
    let detail = json!({"when": when, "live_documents": live_ids, "loaded_documents": loaded_ids, "lost": lost, "came_back": back, "diff": diff});
    if !lost.is_empty() {
        cx.fail("reload-loses-document", format!("{when}: indexed document(s) {lost:?} are missing after flush + load"), history, detail);
    } else if !back.is_empty() && back.is_subset(&cx.removed) && lv.len() == ld.len() && lv.iter().zip(ld.iter()).all(|(a, b)| {
        a.0 == "#stats" || a.1.iter().map(|h| h.0).collect::<BTreeSet<_>>()
            == b.1.iter().map(|h| h.0).filter(|i| !back.contains(i)).collect::<BTreeSet<_>>()
    }) {
        cx.fail("stale-reinsert-resurrection", format!("{when}: removed document(s) {back:?} come back after flush + load (all other answers unchanged)"), history, detail);
    } else {
        cx.fail("reload-divergence", format!("{when}: the loaded index does not answer like the live one"), history, detail);
    }
}

/// One flush: record the write log, explore every crash prefix with the real loader.
/// Returns the bucket ids it rewrote (None when the flush itself failed).
fn flush_explore(
    cx: &mut Ctx, ix: &Index, store: &mut MemStore, now: u64, history: &[String], out: &mut impl Write,
) -> Option<Vec<u32>> {
    let log: RefCell<Vec<W>> = RefCell::new(Vec::new());
    let r = futures::executor::block_on(ix.flush_with(
        now,
        |data| { log.borrow_mut().push(W::Meta(data)); std::future::ready(Ok(())) },
        |obj, data| { log.borrow_mut().push(W::Bucket(obj, data)); std::future::ready(Ok(())) },
    ));
    let outcome = match r {
        Ok(o) => o,
        Err(e) => { cx.fail("flush-error", format!("flush failed: {e}"), history, json!(null)); return None; }
    };
    let log = log.into_inner();
    let written: Vec<u32> = log.iter().filter_map(|w| match w { W::Bucket(o, _) => Some(o.bucket_id), _ => None }).collect();
    if !outcome.saved {
        if !log.is_empty() { cx.fail("flush-atomicity", "flush reported saved=false after writing".into(), history, json!(null)); }
        cx.bump("flushes_noop");
        // nothing to write: what is on disk must already answer like the live index
        if store.meta.is_some() {
            match load(store) {
                Ok(i) => compare_reload(cx, ix, i.as_ref(), "no-op flush", history),
                Err(e) => cx.fail("load-error", e, history, json!("committed store")),
            }
        }
        return Some(written);
    }
    cx.bump("flushes");
    if written.len() >= 2 { cx.bump("flushes_with_2plus_dirty_buckets"); }
    // monitor case: committed manifest, existing objects, the write log, the obsolete list
    let committed: BTreeMap<u32, u64> = store.meta.as_deref().map(manifest_of).unwrap_or_default();
    let mf = |m: &BTreeMap<u32, u64>| Value::Array(m.iter().map(|(b, g)| tup(vec![json!(b), json!(g)])).collect());
    let existing = Value::Array(store.buckets.keys().map(|o| tup(vec![json!(o.bucket_id), json!(o.generation)])).collect());
    let steps: Vec<Value> = log.iter().map(|w| match w {
        W::Bucket(o, _) => ctor("WBucket", vec![json!(o.bucket_id), json!(o.generation)]),
        W::Meta(d) => ctor("WMeta", vec![mf(&manifest_of(d))]),
    }).collect();
    let obsolete = Value::Array(outcome.obsolete.iter().map(|o| tup(vec![json!(o.bucket_id), json!(o.generation)])).collect());
    writeln!(out, "{}", json!({"kind": "flush", "case": tup(vec![mf(&committed), existing, Value::Array(steps), obsolete])})).unwrap();

    // direct oracle: every crash prefix, loaded by the real loader, answers like the old snapshot;
    // the completed flush (and every prefix of the deletion of obsolete objects) like the live index
    let old_view = match load(store) { Ok(ix0) => battery(ix0.as_ref()), Err(e) => { cx.fail("load-error", e, history, json!("committed store")); return None; } };
    let mut st = store.clone();
    for k in 0..=log.len() {
        if k > 0 { apply_write(&mut st, &log[k - 1]); }
        cx.evaluations += 1;
        let loaded = match load(&st) {
            Ok(i) => i,
            Err(e) => { cx.fail("crash-prefix", format!("crash after {k} of {} writes: {e}", log.len()), history, json!({"k": k})); continue; }
        };
        if k < log.len() {
            let view = battery(loaded.as_ref());
            if view != old_view {
                let diff: Vec<_> = view.iter().zip(old_view.iter()).filter(|(a, b)| a != b).take(2)
                    .map(|(a, b)| json!({"query": a.0, "loaded": a.1, "expected": b.1})).collect();
                cx.fail("crash-prefix", format!("loading after {k} of {} flush writes does not answer like the last committed snapshot", log.len()), history,
                    json!({"k": k, "writes": log.len(), "diff": diff}));
            }
        } else {
            compare_reload(cx, ix, loaded.as_ref(), "completed flush", history);
        }
    }
    // after the commit the caller deletes the obsolete objects, one by one, possibly interrupted
    for o in &outcome.obsolete {
        st.buckets.remove(o);
        cx.evaluations += 1;
        match load(&st) {
            Ok(i) => compare_reload(cx, ix, i.as_ref(), &format!("after deleting obsolete object {o:?}"), history),
            Err(e) => cx.fail("crash-prefix", format!("after deleting obsolete {o:?}: {e}"), history, json!(null)),
        }
    }
    *store = st;
    Some(written)
}


/// Concurrency (partial, a stress run, not an exploration): mutator threads insert and remove
/// documents (original text) on disjoint id ranges while another thread compacts in a loop;
/// afterwards — in memory and after flush + load — every vocabulary term must return exactly the
/// surviving documents containing it ("concurrent mutations with compaction lose nothing").
fn stress(cx: &mut Ctx, rng: &mut Rng, rounds: usize) {
    use std::sync::Arc;
    use std::sync::atomic::{AtomicBool, Ordering};
    cx.removed.clear();
    for round in 0..rounds {
        let overload = *rng.pick(&[48usize, 64, 128]);
        let ix = Arc::new(Index::new("stress".to_string(), Ws, Some(BM25Config { bm25: BM25Params::default(), bucket_overload_size: overload })));
        let stop = Arc::new(AtomicBool::new(false));
        let compactor = { let ix = ix.clone(); let stop = stop.clone(); std::thread::spawn(move || {
            let mut n = 0u64;
            while !stop.load(Ordering::Relaxed) { ix.compact_buckets(); n += 1; std::thread::yield_now(); }
            n
        }) };
        let mut handles = Vec::new();
        for t in 0..3u64 {
            let ix = ix.clone();
            let mut r = rng.fork();
            handles.push(std::thread::spawn(move || {
                let mut live: BTreeMap<u64, String> = BTreeMap::new();
                for step in 0..120u64 {
                    let id = t * 1000 + r.range(1, 25) as u64;
                    if let Some(text) = live.remove(&id) {
                        ix.remove(id, &text, step);
                    } else {
                        let n = r.range(1, 4);
                        let text = (0..n).map(|_| *r.pick(&VOCAB)).collect::<Vec<_>>().join(" ");
                        if ix.insert(id, &text, step).is_ok() { live.insert(id, text); }
                    }
                }
                live
            }));
        }
        let mut naive = Naive::default();
        for h in handles { for (id, text) in h.join().unwrap() { naive.insert(id, &text); } }
        stop.store(true, Ordering::Relaxed);
        let compactions = compactor.join().unwrap();
        *cx.dist.entry("stress_compactions".into()).or_default() += compactions as usize;
        let history = vec![format!("stress round {round}: 3 mutator threads x 120 ops, {compactions} concurrent compactions, bucket_overload_size={overload}")];
        let check = |cx: &mut Ctx, ix: &Index, when: &str| {
            for w in VOCAB {
                cx.evaluations += 1;
                let got: BTreeSet<u64> = ix.search(w, BIG_K, None).into_iter().map(|h| h.0).collect();
                let want = naive.term_strict(w);
                if got != want {
                    cx.fail("concurrent-compaction-loss", format!("{when}: term {w:?} does not return the surviving documents"), &history,
                        json!({"missing": want.difference(&got).collect::<Vec<_>>(), "extra": got.difference(&want).collect::<Vec<_>>()}));
                }
            }
            if ix.len() != naive.texts.len() {
                cx.fail("concurrent-compaction-loss", format!("{when}: document count {} != {}", ix.len(), naive.texts.len()), &history, json!(null));
            }
        };
        check(cx, &ix, "in memory");
        let mut store = MemStore::default();
        let mut sink = std::io::sink();
        if flush_explore(cx, &ix, &mut store, 1, &history, &mut sink).is_some() {
            match load(&store) {
                Ok(Some(nix)) => check(cx, &nix, "after flush + load"),
                Ok(None) => {}
                Err(e) => cx.fail("load-error", e, &history, json!(null)),
            }
        }
        cx.bump("stress_rounds");
    }
}

/// Replay a recorded history (the `history` array of a failure / replay file) on the real index
/// and print what every vocabulary term returns next to the naive oracle, after each step that
/// touches the durable state.
pub fn replay(args: &[String]) {
    let path = args.first().expect("usage: h_bm25 replay <file.json>");
    let v: Value = serde_json::from_str(&std::fs::read_to_string(path).expect("read")).expect("json");
    let hist = v.get("history").or_else(|| v.pointer("/failing_input/history")).and_then(|h| h.as_array()).expect("history").clone();
    let mut ix = Index::new("replay".to_string(), Ws, None);
    let mut naive = Naive::default();
    let mut store = MemStore::default();
    let mut cx = Ctx { removed: BTreeSet::new(), failures: vec![], n_fail: 0, evaluations: 0, dist: BTreeMap::new() };
    let mut sink = std::io::sink();
    let unq = |s: &str| -> String { serde_json::from_str::<String>(s).unwrap_or_else(|_| s.trim_matches('"').to_string()) };
    for (i, line) in hist.iter().enumerate() {
        let line = line.as_str().unwrap_or("");
        let h = vec![line.to_string()];
        if let Some(r) = line.strip_prefix("new(bucket_overload_size=") {
            let n: usize = r.trim_end_matches(')').parse().unwrap();
            ix = Index::new("replay".to_string(), Ws, Some(BM25Config { bm25: BM25Params::default(), bucket_overload_size: n }));
        } else if let Some(r) = line.strip_prefix("insert(") {
            let (id, text) = r.trim_end_matches(')').split_once(", ").unwrap();
            let (id, text) = (id.parse::<u64>().unwrap(), unq(text));
            if ix.insert(id, &text, i as u64).is_ok() { naive.insert(id, &text); }
        } else if let Some(r) = line.strip_prefix("remove(") {
            let (id, text) = r.trim_end_matches(')').split_once(", ").unwrap();
            let (id, text) = (id.parse::<u64>().unwrap(), unq(text));
            ix.remove(id, &text, i as u64);
            naive.remove(id, &text);
        } else if let Some(r) = line.strip_prefix("purge_ids({") {
            let ids: BTreeSet<u64> = r.trim_end_matches("})").split(", ").filter_map(|x| x.parse().ok()).collect();
            ix.purge_ids(&ids, i as u64);
            naive.purge(&ids);
        } else if line == "compact_buckets()" {
            ix.compact_buckets();
        } else if line == "flush()" || line == "flush(); load_all()" {
            flush_explore(&mut cx, &ix, &mut store, i as u64, &h, &mut sink);
            if line != "flush()" {
                if let Ok(Some(nix)) = load(&store) { ix = nix; naive.reload(); }
            }
            let docs: Vec<(u64, usize)> = (0..=12u64).filter_map(|id| ix.get_doc_tokens(id).map(|n| (id, n))).collect();
            println!("step {i} {line}: doc_tokens {docs:?} expected ids {:?} manifest {:?}", naive.universe(),
                store.meta.as_deref().map(manifest_of));
        } else if line.starts_with("search") || line.starts_with("stress") {
            continue;
        }
    }
    for w in VOCAB {
        let got: Vec<u64> = ix.search(w, BIG_K, None).into_iter().map(|h| h.0).collect();
        println!("{w}: returned {got:?} strict-expected {:?}", naive.term_strict(w));
    }
    println!("oracle failures while replaying: {}", cx.n_fail);
    for f in cx.failures { println!("{}", f); }
}

#[derive(Clone, Debug)]
enum Op {
    Ins(u64, String),
    Rem(u64, String),
    Purge(BTreeSet<u64>),
    Compact,
    Flush,
    Reload,
    Search(String),
    Query(Q),
}

/// The insert / remove-with-wrong-text / re-insert family on one id, with a flush (or flush + load)
/// between every pair of operations.
fn wrong_text_family(r: &mut Rng, id_space: u64) -> Vec<Op> {
    let a = r.range(1, id_space as i64) as u64;
    let other = 1 + (a % id_space);
    let n = r.range(1, 3) as usize;
    let t_words: Vec<&str> = (0..n).map(|_| *r.pick(&VOCAB[..6])).collect();
    let t = t_words.join(" ");
    let wrong: Vec<&str> = VOCAB.iter().copied().filter(|w| !t_words.contains(w)).collect();
    let mut ops = vec![Op::Ins(a, t.clone())];
    for _ in 0..r.range(3, 8) {
        ops.push(if r.chance(2, 3) { Op::Flush } else { Op::Reload });
        ops.push(match r.below(10) {
            0..=3 => Op::Ins(a, t.clone()),
            4..=6 => { let k = r.range(1, 2); Op::Rem(a, (0..k).map(|_| *r.pick(&wrong)).collect::<Vec<_>>().join(" ")) }
            7 => Op::Rem(a, t.clone()),
            8 => Op::Ins(a, random_text(r)),
            _ => Op::Ins(other, if r.chance(1, 2) { t.clone() } else { random_text(r) }),
        });
        if r.chance(1, 4) { ops.push(Op::Search(t_words[0].to_string())); }
    }
    ops.push(if r.chance(1, 2) { Op::Flush } else { Op::Reload });
    ops
}

fn random_op(r: &mut Rng, id_space: u64, unclean: bool, naive: &Naive, last_text: &BTreeMap<u64, String>) -> Op {
    let c = r.below(100);
    if c < 34 {
        let id = r.range(1, id_space as i64) as u64;
        // a re-insert often reuses the text the id had before (same (id, freq) pairs as stale entries)
        match last_text.get(&id) {
            Some(t) if unclean && r.chance(1, 2) => Op::Ins(id, t.clone()),
            _ => Op::Ins(id, random_text(r)),
        }
    } else if c < 52 {
        let id = r.range(1, id_space as i64 + 1) as u64;
        match (naive.texts.get(&id), unclean && r.chance(1, 2)) {
            (Some(t), false) => Op::Rem(id, t.clone()),
            _ => Op::Rem(id, random_text(r)),
        }
    } else if c < 58 {
        Op::Purge((0..r.below(3)).map(|_| r.range(1, id_space as i64 + 1) as u64).collect())
    } else if c < 62 {
        Op::Compact
    } else if c < 67 {
        Op::Flush
    } else if c < 73 {
        Op::Reload
    } else if c < 80 {
        let n = r.range(1, 3);
        Op::Search((0..n).map(|_| if r.chance(1, 10) { "x" } else { *r.pick(&VOCAB) }).collect::<Vec<_>>().join(" "))
    } else {
        Op::Query(gen_query(r, 3))
    }
}

pub fn main(args: &[String]) {
    let mut rng = Rng::from_env();
    let n_hist: usize = arg_value(args, "--histories").and_then(|s| s.parse().ok()).unwrap_or(300);
    let max_ops: usize = arg_value(args, "--max-ops").and_then(|s| s.parse().ok()).unwrap_or(36);
    let out_path = arg_value(args, "--out").unwrap_or_else(|| "/dev/stdout".into());
    let mut out = std::io::BufWriter::new(std::fs::File::create(&out_path).expect("out"));
    let mut cx = Ctx { removed: BTreeSet::new(), failures: vec![], n_fail: 0, evaluations: 0, dist: BTreeMap::new() };

    for h in 0..n_hist {
        let mut r = rng.fork();
        // clean histories remove with the original text only; the others also pass non-original text;
        // every fourth history starts with the flush-dense wrong-text family
        let dense = h % 4 == 1;
        let unclean = dense || h % 3 == 2;
        let overload = *r.pick(&[48usize, 64, 96, 200, 512 * 1024]);
        let mut ix = Index::new("c11".to_string(), Ws, Some(BM25Config { bm25: BM25Params::default(), bucket_overload_size: overload }));
        let mut naive = Naive::default();
        let mut store = MemStore::default();
        let mut history: Vec<String> = vec![format!("new(bucket_overload_size={overload})")];
        let mut rops: Vec<Value> = Vec::new();
        let id_space = *r.pick(&[3u64, 5, 8]);
        let mut script: std::collections::VecDeque<Op> = if dense { wrong_text_family(&mut r, id_space).into() } else { Default::default() };
        let n_ops = script.len() + r.range(6, max_ops as i64) as usize / if dense { 2 } else { 1 };
        let mut last_text: BTreeMap<u64, String> = BTreeMap::new();
        let mut nontrivial = false;
        let mut was_ghost = false;
        cx.removed.clear();
        for step in 0..n_ops {
            let now = step as u64 + 1;
            let op = match script.pop_front() { Some(op) => op, None => random_op(&mut r, id_space, unclean, &naive, &last_text) };
            let mut mutated = true;
            match op {
                Op::Ins(id, text) => {
                    history.push(format!("insert({id}, {text:?})"));
                    let before: BTreeSet<String> = ix.verif_dump().1.into_iter().map(|p| p.0).collect();
                    let res = ix.insert(id, &text, now);
                    let code = match &res { Ok(()) => 0, Err(BM25Error::AlreadyExists { .. }) => 1, Err(BM25Error::TokenizeFailed { .. }) => 2, Err(_) => 3 };
                    let want = if words(&text).is_empty() { 2 } else if naive.texts.contains_key(&id) { 1 } else { 0 };
                    if code != want { cx.fail("insert-result", format!("insert returned code {code}, expected {want}"), &history, json!(null)); }
                    if code == 0 { naive.insert(id, &text); last_text.insert(id, text.clone()); }
                    cx.bump(["insert_ok", "insert_exists", "insert_tokenize_failed", "insert_other"][code]);
                    let place: Vec<Value> = ix.verif_dump().1.iter().filter(|p| !before.contains(&p.0)).map(|p| tup(vec![json!(p.0), json!(p.1)])).collect();
                    rops.push(ctor("RInsert", vec![json!(id), json!(text), json!(code), Value::Array(place)]));
                }
                Op::Rem(id, text) => {
                    let orig = naive.texts.get(&id).cloned();
                    let covering = orig.as_ref().map(|t| words(t).iter().all(|w| words(&text).contains(w))).unwrap_or(true);
                    history.push(format!("remove({id}, {text:?})"));
                    let got = ix.remove(id, &text, now);
                    if got != orig.is_some() { cx.fail("remove-result", format!("remove returned {got}"), &history, json!(null)); }
                    naive.remove(id, &text);
                    cx.removed.insert(id);
                    cx.bump(if orig.is_none() { "remove_missing" } else if covering { "remove_original" } else { "remove_non_original" });
                    rops.push(ctor("RRemove", vec![json!(id), json!(text), json!(got)]));
                }
                Op::Purge(ids) => {
                    history.push(format!("purge_ids({ids:?})"));
                    let want = ids.iter().filter(|i| naive.texts.contains_key(i)).count();
                    let got = ix.purge_ids(&ids, now);
                    if got != want { cx.fail("purge-result", format!("purge_ids returned {got}, expected {want}"), &history, json!(null)); }
                    naive.purge(&ids);
                    cx.removed.extend(ids.iter().copied());
                    cx.bump("purge");
                    rops.push(ctor("RPurge", vec![Value::Array(ids.iter().map(|i| json!(i)).collect()), json!(got)]));
                }
                Op::Compact => {
                    history.push("compact_buckets()".into());
                    let before = battery(Some(&ix));
                    let (old_n, _new_n) = ix.compact_buckets();
                    if battery(Some(&ix)) != before { cx.fail("compaction", "compaction changes the answers".into(), &history, json!(null)); }
                    if old_n > 1 { cx.bump("compactions_multi_bucket"); }
                    let place: Vec<Value> = ix.verif_dump().1.iter().map(|p| tup(vec![json!(p.0), json!(p.1)])).collect();
                    rops.push(ctor("RCompact", vec![Value::Array(place)]));
                }
                Op::Flush => {
                    history.push("flush()".into());
                    match flush_explore(&mut cx, &ix, &mut store, now, &history, &mut out) {
                        Some(written) => rops.push(ctor("RFlush", vec![json!(written)])),
                        None => break,
                    }
                }
                Op::Reload => {
                    history.push("flush(); load_all()".into());
                    let Some(written) = flush_explore(&mut cx, &ix, &mut store, now, &history, &mut out) else { break };
                    match load(&store) {
                        Ok(Some(nix)) => {
                            let same_docs = doc_ids(&nix) == naive.universe();
                            ix = nix;
                            naive.reload();
                            rops.push(ctor("RReload", vec![json!(written)]));
                            cx.bump("reloads");
                            if !same_docs {
                                // already reported by compare_reload (resurrection or loss): the history ends here,
                                // the bucket-level model still has to reproduce what was loaded
                                rops.push(dump_json(&ix, false));
                                cx.bump("histories_ended_by_reload_changing_the_documents");
                                break;
                            }
                        }
                        Ok(None) => { history.pop(); rops.push(ctor("RFlush", vec![json!(written)])); }
                        Err(e) => { cx.fail("load-error", e, &history, json!(null)); break; }
                    }
                }
                Op::Search(text) => {
                    mutated = false;
                    history.push(format!("search({text:?})"));
                    let strict = naive.term_strict(&text);
                    let stale = naive.term_stale(&text);
                    let (all, tops) = observe_query(&mut cx, &ix, &mut r, &text, false, &strict, &stale, &history);
                    if all.len() >= 2 { nontrivial = true; }
                    rops.push(ctor("RSearch", vec![json!(text), hits_json(&all),
                        Value::Array(tops.iter().map(|(k, ids)| tup(vec![json!(k), json!(ids)])).collect())]));
                    history.pop();
                }
                Op::Query(q) => {
                    mutated = false;
                    let mut text = render(&q);
                    if text.starts_with('(') && text.ends_with(')') && r.chance(1, 2) && matches!(q, Q::And(_) | Q::Or(_)) {
                        text = text[1..text.len() - 1].to_string();
                    }
                    let parsed = QueryType::parse(&text);
                    history.push(format!("search_advanced({text:?})"));
                    let strict = naive.eval(&q, false);
                    let stale = naive.eval(&q, true);
                    let (all, tops) = observe_query(&mut cx, &ix, &mut r, &text, true, &strict, &stale, &history);
                    if all.len() >= 2 { nontrivial = true; }
                    cx.bump(match q { Q::Term(_) => "q_term", Q::And(_) => "q_and", Q::Or(_) => "q_or", Q::Not(_) => "q_not" });
                    rops.push(ctor("RQuery", vec![ast_json(&parsed), hits_json(&all),
                        Value::Array(tops.iter().map(|(k, ids)| tup(vec![json!(k), json!(ids)])).collect())]));
                    history.pop();
                }
            }
            if mutated {
                // bucket bookkeeping (dirty flags, listed tokens, doc_ids, token owners) vs the bucket-level model;
                // bucket-level model vs whole-index model
                rops.push(dump_json(&ix, true));
            }
            if r.chance(1, 3) || step + 1 == n_ops {
                rops.push(stats_op(&mut cx, &ix, &naive, &history));
            }
            if !was_ghost && naive.has_ghost() {
                was_ghost = true;
                cx.bump("histories_with_a_revived_stale_posting");
            }
        }
        if naive.has_ghost() { cx.bump("histories_ending_with_ghost_entries"); }
        cx.bump(if dense { "histories_dense_wrong_text_family" } else if unclean { "histories_unclean" } else { "histories_clean" });
        writeln!(out, "{}", json!({"kind": "model", "case": Value::Array(rops), "nontrivial": nontrivial, "history": history})).unwrap();
    }
    let n_stress: usize = arg_value(args, "--stress").and_then(|s| s.parse().ok()).unwrap_or(0);
    stress(&mut cx, &mut rng, n_stress);
    writeln!(out, "{}", json!({"kind": "summary", "histories": n_hist, "evaluations": cx.evaluations,
        "oracle_failures": cx.n_fail, "failures": cx.failures, "distribution": cx.dist})).unwrap();
}
