use crate::tok::Ws;
use anda_db_tfs::BM25Index;
use h_common::Rng;
use std::collections::BTreeSet;

const V: [&str; 6] = ["red", "blue", "fox", "dog", "sun", "moon"];

pub fn main(_args: &[String]) {
    // 1. stale posting revived by re-insert
    let idx = BM25Index::new("p".to_string(), Ws, None);
    idx.insert(1, "red blue", 0).unwrap();
    idx.insert(2, "blue", 0).unwrap();
    println!("remove(1,'blue') = {}", idx.remove(1, "blue", 1));
    idx.insert(1, "gold", 2).unwrap();
    println!("search red after re-insert of 1 as 'gold': {:?}", idx.search("red", 10, None));

    // 2. do repeated multi-term queries agree?
    let mut rng = Rng::new(7);
    let mut bit_diffs = 0;
    let mut order_diffs = 0;
    let mut shown = 0;
    for trial in 0..3000 {
        let idx = BM25Index::new("p".to_string(), Ws, None);
        let n = rng.range(2, 6) as u64;
        let mut texts = vec![];
        for id in 1..=n {
            let len = rng.range(1, 6);
            let t: Vec<&str> = (0..len).map(|_| *rng.pick(&V)).collect();
            let t = t.join(" ");
            idx.insert(id, &t, 0).unwrap();
            texts.push(t);
        }
        let q = "red blue fox dog";
        let mut seen_bits = BTreeSet::new();
        let mut seen_order = BTreeSet::new();
        for _ in 0..12 {
            let r = idx.search(q, 10, None);
            seen_bits.insert(r.iter().map(|h| (h.0, h.1.to_bits())).collect::<Vec<_>>());
            seen_order.insert(r.iter().map(|h| h.0).collect::<Vec<_>>());
        }
        if seen_bits.len() > 1 { bit_diffs += 1; }
        if seen_order.len() > 1 {
            order_diffs += 1;
            if shown < 3 { shown += 1; println!("trial {trial}: texts {texts:?} query {q:?} orders {seen_order:?} bits {seen_bits:?}"); }
        }
    }
    println!("of 3000 indexes: {bit_diffs} with differing score bits across 12 repeats, {order_diffs} with differing ORDER");
}
