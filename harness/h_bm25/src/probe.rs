use crate::tok::Ws;
use anda_db_tfs::BM25Index;

pub fn main(_args: &[String]) {
    let idx = BM25Index::new("p".to_string(), Ws, None);
    idx.insert(1, "red blue", 0).unwrap();
    idx.insert(2, "blue", 0).unwrap();
    println!("remove(1,'blue') = {}", idx.remove(1, "blue", 1));
    println!("search red after stale remove: {:?}", idx.search("red", 10, None));
    idx.insert(1, "gold", 2).unwrap();
    println!("search red after re-insert of 1 as 'gold': {:?}", idx.search("red", 10, None));
    println!("search gold: {:?}", idx.search("gold", 10, None));
    println!("stats: {:?}", idx.stats());
}
