//! C14 — service keys confine callers to their database; reads never write.
//!
//! Drives the real axum router (`build_router(AppState)`) with `tower::ServiceExt::oneshot` over an in-memory
//! object store wrapped in `anda_object_store::FaultStore` (its mutation counter/log is the recording store).
//!
//! * worlds: key/database histories executed through the admin RPC API (`db.create/open/connect/close/
//!   set_api_key/remove_api_key`, restart = shutdown + `AppState::connect` over the same store);
//! * matrix: route x method name (every name of both generated tables + unknown names) x params variant x
//!   principal (incl. malformed Authorization headers) x encoding, enumerated completely per world;
//! * every cell is (a) written as a model case (status/body class) and (b) judged by the direct oracle below,
//!   which reads the property on the implementation without the model;
//! * reads phase: every Read-classified method of the generated tables, with parameters that make the handler
//!   run, over databases/collections in each lifecycle state; the mutation counter must not move.
use anda_db_server::{AppState, ServerOptions, build_router};
use anda_object_store::{FaultHandle, FaultStore};
use axum::{
    Router,
    body::Body,
    http::{Request, header},
};
use futures::TryStreamExt;
use h_common::{Rng, arg_value, ctor, some, tup};
use http_body_util::BodyExt;
use object_store::{GetOptions, ObjectStore, PutPayload, memory::InMemory, path::Path};
use serde_json::{Value, json};
use sha3::Digest;
use std::{
    collections::{BTreeMap, BTreeSet},
    io::Write,
    sync::Arc,
    time::Duration,
};
use tower::ServiceExt;

const PRIMARY: &str = "corp_main";
const A: &str = "tenant_a";
const B: &str = "tenant_b";
const C: &str = "tenant_c";
const MISSING: &str = "no_such_db";
const MALFORMED: &str = "Bad-Name";
const ADMIN: &str = "adm-key-0";
const MAX_BODY: usize = 32 * 1024;
const MAX_DBS: usize = 5;

type Store = FaultStore<InMemory>;

struct Tables {
    root: Vec<(String, String, String)>,
    db: Vec<(String, String, String)>,
    unauthorized: (u16, String, String),
}

impl Tables {
    fn load(path: &str) -> Tables {
        let v: Value = serde_json::from_str(&std::fs::read_to_string(path).expect("tables file")).expect("tables json");
        let rows = |k: &str| -> Vec<(String, String, String)> {
            v[k].as_array()
                .unwrap()
                .iter()
                .map(|r| (r[0].as_str().unwrap().into(), r[1].as_str().unwrap().into(), r[2].as_str().unwrap().into()))
                .collect()
        };
        let status = match v["unauthorized"][0].as_str().unwrap() {
            "UNAUTHORIZED" => 401,
            "FORBIDDEN" => 403,
            "NOT_FOUND" => 404,
            _ => 0,
        };
        Tables {
            root: rows("root_table"),
            db: rows("db_table"),
            unauthorized: (status, v["unauthorized"][1].as_str().unwrap().into(), v["unauthorized"][2].as_str().unwrap().into()),
        }
    }
    fn effect(&self, root: bool, name: &str) -> Option<&str> {
        let t = if root { &self.root } else { &self.db };
        t.iter().find(|r| r.0 == name).map(|r| r.2.as_str())
    }
}

#[derive(Clone)]
enum Op {
    Create(String, Option<String>),
    Open(String),
    Connect(String),
    Close(String),
    SetKey(String, String),
    RemoveKey(String),
    Restart,
}

impl Op {
    fn term(&self) -> Value {
        let s = |x: &String| json!(x);
        match self {
            Op::Create(n, k) => ctor("OCreate", vec![s(n), k.as_ref().map(|k| some(json!(k))).unwrap_or(Value::Null)]),
            Op::Open(n) => ctor("OOpen", vec![s(n)]),
            Op::Connect(n) => ctor("OConnect", vec![s(n)]),
            Op::Close(n) => ctor("OClose", vec![s(n)]),
            Op::SetKey(n, k) => ctor("OSetKey", vec![s(n), s(k)]),
            Op::RemoveKey(n) => ctor("ORemoveKey", vec![s(n)]),
            Op::Restart => ctor("ORestart", vec![]),
        }
    }
}

#[derive(Clone, Copy, PartialEq)]
enum Ct {
    Cbor,
    Json,
    Plain,
}

struct Resp {
    status: u16,
    headers: Vec<(String, String)>,
    body: Vec<u8>,
    attempts: u64,
    log: Vec<(String, String)>,
}

impl Resp {
    /// The envelope decoded according to the response Content-Type.
    fn value(&self) -> Option<Value> {
        let ct = self.headers.iter().find(|h| h.0 == "content-type").map(|h| h.1.as_str()).unwrap_or("");
        if ct.starts_with("application/cbor") {
            cbor2::de::from_reader::<Value, _>(&self.body[..]).ok()
        } else if ct.starts_with("application/json") {
            serde_json::from_slice(&self.body).ok()
        } else {
            None
        }
    }
    fn code(&self) -> String {
        self.value().and_then(|v| v["error"]["code"].as_str().map(String::from)).unwrap_or_default()
    }
    fn message(&self) -> String {
        self.value().and_then(|v| v["error"]["message"].as_str().map(String::from)).unwrap_or_default()
    }
}

struct World {
    label: String,
    store: Arc<Store>,
    fh: FaultHandle,
    state: AppState,
    app: Router,
    admin: Option<String>,
    ops: Vec<Value>,
    op_results: Vec<Value>,
    /// The harness's own record of which key currently opens which database (from the operations it issued and
    /// the success answers it got) — the direct oracle's notion of "entitled", independent of the model.
    bound: BTreeMap<String, String>,
    keys_seen: BTreeSet<String>,
    requests: u64,
}

fn options(admin: &Option<String>) -> ServerOptions {
    ServerOptions {
        name: "srv".into(),
        version: "9.9.9".into(),
        primary_db: PRIMARY.into(),
        description: "verif".into(),
        api_key: admin.clone(),
        flush_interval: Duration::from_secs(24 * 3600),
        request_timeout: Duration::from_secs(60),
        max_body_size: MAX_BODY,
        max_databases: MAX_DBS,
        ..Default::default()
    }
}

fn encode(ct: Ct, v: &Value) -> Vec<u8> {
    match ct {
        Ct::Json | Ct::Plain => serde_json::to_vec(v).unwrap(),
        Ct::Cbor => {
            let mut b = Vec::new();
            cbor2::ser::to_writer(v, &mut b).unwrap();
            b
        }
    }
}

impl World {
    async fn new(label: &str, admin: Option<&str>) -> World {
        let (store, fh) = FaultStore::wrap(InMemory::new());
        Self::over(label, Arc::new(store), fh, admin.map(String::from)).await
    }

    async fn over(label: &str, store: Arc<Store>, fh: FaultHandle, admin: Option<String>) -> World {
        let state = AppState::connect(store.clone() as Arc<dyn ObjectStore>, options(&admin)).await.expect("AppState::connect");
        let app = build_router(state.clone());
        let mut keys_seen = BTreeSet::new();
        if let Some(a) = &admin {
            keys_seen.insert(a.clone());
        }
        World {
            label: label.into(),
            store,
            fh,
            state,
            app,
            admin,
            ops: vec![],
            op_results: vec![],
            bound: BTreeMap::new(),
            keys_seen,
            requests: 0,
        }
    }

    async fn send(&mut self, verb: &str, path: &str, auth: Option<&str>, ct: Ct, body: Vec<u8>) -> Resp {
        let mut b = Request::builder().method(verb).uri(path);
        match ct {
            Ct::Cbor => b = b.header(header::CONTENT_TYPE, "application/cbor"),
            Ct::Json => b = b.header(header::CONTENT_TYPE, "application/json"),
            Ct::Plain => b = b.header(header::CONTENT_TYPE, "text/plain"),
        }
        if let Some(a) = auth {
            b = b.header(header::AUTHORIZATION, a);
        }
        let before = self.fh.mutation_count();
        let before_log = self.fh.mutation_log().len();
        let resp = self.app.clone().oneshot(b.body(Body::from(body)).unwrap()).await.unwrap();
        let status = resp.status().as_u16();
        let mut headers: Vec<(String, String)> =
            resp.headers().iter().map(|(k, v)| (k.as_str().to_string(), v.to_str().unwrap_or("?").to_string())).collect();
        headers.sort();
        let body = resp.into_body().collect().await.map(|b| b.to_bytes().to_vec()).unwrap_or_default();
        for _ in 0..4 {
            tokio::task::yield_now().await;
        }
        self.requests += 1;
        let log = self.fh.mutation_log();
        Resp {
            status,
            headers,
            body,
            attempts: self.fh.mutation_count() - before,
            log: log[before_log.min(log.len())..].iter().map(|(op, p)| (format!("{op:?}"), p.clone())).collect(),
        }
    }

    async fn rpc(&mut self, token: Option<&str>, path: &str, ct: Ct, method: &str, params: Value) -> Resp {
        let auth = token.map(|t| format!("Bearer {t}"));
        self.send("POST", path, auth.as_deref(), ct, encode(ct, &json!({"method": method, "params": params}))).await
    }

    async fn admin_rpc(&mut self, path: &str, method: &str, params: Value) -> Resp {
        let admin = self.admin.clone();
        let ct = if self.requests % 2 == 0 { Ct::Cbor } else { Ct::Json };
        self.rpc(admin.as_deref(), path, ct, method, params).await
    }

    async fn restart(&mut self) {
        self.state.shutdown().await;
        self.state = AppState::connect(self.store.clone() as Arc<dyn ObjectStore>, options(&self.admin)).await.expect("reconnect");
        self.app = build_router(self.state.clone());
    }

    /// Executes one history operation through the admin API and records what was observed.
    async fn apply(&mut self, op: &Op) -> u16 {
        self.ops.push(op.term());
        let r = match op {
            Op::Create(n, k) => {
                let mut p = json!({"name": n});
                if let Some(k) = k {
                    p["api_key"] = json!(k);
                    self.keys_seen.insert(k.clone());
                }
                self.admin_rpc("/", "db.create", p).await
            }
            Op::Open(n) => self.admin_rpc("/", "db.open", json!({"name": n})).await,
            Op::Connect(n) => self.admin_rpc("/", "db.connect", json!({"name": n})).await,
            Op::Close(n) => self.admin_rpc("/", "db.close", json!({"name": n})).await,
            Op::SetKey(n, k) => {
                self.keys_seen.insert(k.clone());
                self.admin_rpc("/", "db.set_api_key", json!({"name": n, "api_key": k})).await
            }
            Op::RemoveKey(n) => self.admin_rpc("/", "db.remove_api_key", json!({"name": n})).await,
            Op::Restart => {
                self.restart().await;
                self.op_results.push(ctor("OOp", vec![json!({"raw": "OpOk"})]));
                return 200;
            }
        };
        let code = r.code();
        let res = match (r.status, code.as_str()) {
            (200, _) => "OpOk",
            (400, "invalid_input") => "OpInvalidInput",
            (409, "conflict") => "OpConflict",
            (409, "already_exists") => "OpAlreadyExists",
            (404, "not_found") => "OpNotFound",
            (409, "limit_exceeded") => "OpLimit",
            _ => "",
        };
        if res.is_empty() {
            self.op_results.push(ctor("OOpOther", vec![json!(r.status as i64), json!(code)]));
        } else {
            self.op_results.push(ctor("OOp", vec![json!({"raw": res})]));
        }
        if r.status == 200 {
            match op {
                Op::Create(n, Some(k)) | Op::SetKey(n, k) => {
                    self.bound.insert(n.clone(), k.clone());
                }
                Op::RemoveKey(n) => {
                    self.bound.remove(n);
                }
                _ => {}
            }
        }
        r.status
    }

    /// Puts recognisable content into every open database (admin API): a collection with marker documents, an
    /// extension entry; then flushes.
    async fn seed_data(&mut self) {
        let names = self.admin_rpc("/", "db.list", Value::Null).await.value().map(|v| v["result"].clone()).unwrap_or(Value::Null);
        let names: Vec<String> = names.as_array().map(|a| a.iter().filter_map(|x| x.as_str().map(String::from)).collect()).unwrap_or_default();
        for db in names {
            let path = format!("/{db}");
            let have = self.admin_rpc(&path, "collection.list", Value::Null).await.value().map(|v| v["result"].to_string()).unwrap_or_default();
            if !have.contains("articles") {
                self.admin_rpc(&path, "collection.create", create_params("articles")).await;
                for i in 0..3u64 {
                    self.admin_rpc(
                        &path,
                        "doc.add",
                        json!({"collection": "articles", "doc": {"title": format!("{} hello {i}", marker(&db)), "body": format!("body of {db} anda"), "score": 10 * i}}),
                    )
                    .await;
                }
                self.admin_rpc(&path, "db.save_extension", json!({"key": "note", "value": format!("EXT_{}", marker(&db))})).await;
            }
            self.admin_rpc(&path, "db.flush", Value::Null).await;
        }
    }

    async fn snapshot(&self, exclude: &[String]) -> BTreeMap<String, (usize, u64)> {
        snapshot_store(self.store.inner(), exclude).await
    }
}

async fn snapshot_store(inner: &InMemory, exclude: &[String]) -> BTreeMap<String, (usize, u64)> {
    let metas: Vec<_> = inner.list(None).try_collect().await.unwrap_or_default();
    let mut out = BTreeMap::new();
    for m in metas {
        let p = m.location.to_string();
        if exclude.iter().any(|e| p == *e || p.starts_with(&format!("{e}/"))) {
            continue;
        }
        let bytes = match inner.get_opts(&m.location, GetOptions::default()).await {
            Ok(r) => r.bytes().await.map(|b| b.to_vec()).unwrap_or_default(),
            Err(_) => vec![],
        };
        let mut h: u64 = 0xcbf29ce484222325;
        for b in &bytes {
            h ^= *b as u64;
            h = h.wrapping_mul(0x100000001b3);
        }
        out.insert(p, (bytes.len(), h));
    }
    out
}

fn marker(db: &str) -> String {
    format!("SECRET_{}", db.to_uppercase())
}

fn schema() -> Value {
    json!({"fields": [
        {"name": "_id", "description": "", "type": "U64", "unique": true, "index": 0},
        {"name": "title", "description": "t", "type": "Text", "unique": false, "index": 1},
        {"name": "body", "description": "b", "type": "Text", "unique": false, "index": 2},
        {"name": "score", "description": "s", "type": {"Option": "U64"}, "unique": false, "index": 3}
    ]})
}

fn create_params(name: &str) -> Value {
    json!({"config": {"name": name, "description": "c"}, "schema": schema(), "btree_indexes": [["score"]], "bm25_indexes": ["title", "body"]})
}

/// Parameters that make the handler of `method` run on a database holding the seeded `articles` collection.
/// `None`: the harness has no template for this method name (a method added to the table later).
fn valid_params(root: bool, method: &str) -> Option<Value> {
    let c = "articles";
    Some(if root {
        match method {
            "info" | "db.list" => Value::Null,
            "db.create" => json!({"name": "evil_db", "api_key": "evil-key"}),
            "db.open" | "db.connect" | "db.close" | "db.remove_api_key" => json!({"name": B}),
            "db.set_api_key" => json!({"name": B, "api_key": "evil-key"}),
            _ => return None,
        }
    } else {
        match method {
            "info" | "db.metadata" | "db.stats" | "db.flush" | "collection.list" => Value::Null,
            "db.set_read_only" => json!({"read_only": false}),
            "db.get_extension" | "db.remove_extension" => json!({"key": "note"}),
            "db.save_extension" => json!({"key": "note2", "value": "v"}),
            "collection.create" => create_params("extra"),
            "collection.ensure" => create_params(c),
            "collection.metadata" | "collection.stats" | "collection.flush" | "doc.count" => json!({"collection": c}),
            "collection.delete" => json!({"collection": "scratch"}),
            "collection.set_read_only" => json!({"collection": c, "read_only": false}),
            "collection.get_extension" | "collection.remove_extension" => json!({"collection": c, "key": "ck"}),
            "collection.save_extension" => json!({"collection": c, "key": "ck", "value": 7}),
            "doc.add" => json!({"collection": c, "doc": {"title": "mine", "body": "own anda", "score": 5}}),
            "doc.add_many" => json!({"collection": c, "docs": [{"title": "m1", "body": "x", "score": 1}, {"title": "m2", "body": "y", "score": 2}]}),
            "doc.get" | "doc.exists" => json!({"collection": c, "_id": 1}),
            "doc.remove" => json!({"collection": c, "_id": 3}),
            "doc.get_many" => json!({"collection": c, "_ids": [1, 2, 999]}),
            "doc.update" => json!({"collection": c, "_id": 1, "fields": {"score": 11}}),
            "doc.search" | "doc.search_ids" => json!({"collection": c, "query": {"search": {"text": "hello"}, "filter": {"Field": ["score", {"Ge": 0}]}, "limit": 5}}),
            "doc.query_ids" | "doc.query_last_ids" => json!({"collection": c, "filter": {"Field": ["score", {"Ge": 0}]}, "limit": 5}),
            _ => return None,
        }
    })
}

/// One object carrying every parameter name the API knows, all pointing at somebody else's data.
fn cross_params() -> Value {
    json!({
        "name": B, "api_key": "evil-key", "description": "x", "collection": format!("../{B}/articles"), "key": "server:api_keys",
        "value": "x", "read_only": false, "_id": 1, "_ids": [1, 2], "doc": {"title": "x", "body": "y"}, "docs": [], "fields": {"score": 1},
        "filter": {"Field": ["score", {"Ge": 0}]}, "limit": 2, "query": {"filter": {"Field": ["score", {"Ge": 0}]}, "limit": 2},
        "config": {"name": format!("../{B}/x"), "description": ""}, "schema": schema()
    })
}

struct Principal {
    label: &'static str,
    header: Option<String>,
    /// What `Authorization: Bearer <key>` parsing should yield for this header (the harness's own reading).
    token: Option<String>,
    /// Use every params variant (otherwise only absent params).
    full: bool,
}

fn principals(w: &World, key_a: &str, key_b: &str, revoked: &str) -> Vec<Principal> {
    let admin = w.admin.clone().unwrap_or_else(|| ADMIN.to_string());
    let bearer = |k: &str| Some(format!("Bearer {k}"));
    let open_instance = w.admin.is_none();
    vec![
        Principal { label: "none", header: None, token: None, full: !open_instance },
        Principal { label: "garbage", header: bearer("zz-not-a-key"), token: Some("zz-not-a-key".into()), full: !open_instance },
        Principal { label: "key_a", header: bearer(key_a), token: Some(key_a.into()), full: !open_instance },
        Principal { label: "key_b", header: bearer(key_b), token: Some(key_b.into()), full: !open_instance },
        Principal { label: "revoked", header: bearer(revoked), token: Some(revoked.into()), full: !open_instance },
        Principal { label: "basic_admin", header: Some(format!("Basic {admin}")), token: None, full: false },
        Principal { label: "lowercase_scheme", header: Some(format!("bearer {admin}")), token: None, full: false },
        Principal { label: "admin_trailing_space", header: Some(format!("Bearer {admin} ")), token: Some(format!("{admin} ")), full: false },
        Principal { label: "admin_double_space", header: Some(format!("Bearer  {admin}")), token: Some(format!(" {admin}")), full: false },
        Principal { label: "bare_admin", header: Some(admin.clone()), token: None, full: false },
        Principal { label: "empty_bearer", header: Some("Bearer ".into()), token: Some(String::new()), full: false },
        Principal { label: "key_a_prefix", header: bearer(&key_a[..key_a.len() - 1]), token: Some(key_a[..key_a.len() - 1].into()), full: false },
        // the admin goes last: everything before it must have left foreign state untouched
        Principal { label: "admin", header: bearer(&admin), token: Some(admin.clone()), full: false },
    ]
}

struct Out {
    file: std::io::BufWriter<std::fs::File>,
    failures: Vec<Value>,
    oracle_failures: u64,
    evaluations: u64,
    classes: BTreeMap<String, u64>,
    by_principal: BTreeMap<String, u64>,
    tenant_handled: u64,
    tenant_writes: u64,
    model_cases: u64,
    reads: BTreeMap<String, u64>,
    untemplated: BTreeSet<String>,
    read_ok_by_method: BTreeMap<String, u64>,
    read_writers: BTreeMap<String, u64>,
    probe_cases: u64,
    probe_entitled: u64,
    enum_histories: u64,
    worlds: Vec<Value>,
}

impl Out {
    fn fail(&mut self, class: &str, what: String, detail: Value) {
        self.oracle_failures += 1;
        if self.failures.iter().filter(|f| f["class"] == class).count() < 6 {
            self.failures.push(json!({"class": class, "what": what, "input": detail}));
        }
    }
}

fn resp_brief(r: &Resp) -> Value {
    json!({"status": r.status, "code": r.code(), "message": r.message(), "mutations_attempted": r.attempts,
           "mutation_log": r.log.iter().take(6).collect::<Vec<_>>(),
           "body": String::from_utf8_lossy(&r.body[..r.body.len().min(300)])})
}

/// The observation handed to the Coq model (`Server/Run.v: obs`).
fn classify(root_route: bool, rpc_route: bool, verb: &str, db: &str, method: &str, r: &Resp, t: &Tables) -> Value {
    let v = r.value();
    let code = r.code();
    let envelope = v.as_ref().map(|v| v.get("result").is_some() || v.get("error").is_some()).unwrap_or(false);
    let c = |n: &str| ctor(n, vec![]);
    if r.status == t.unauthorized.0 && code == t.unauthorized.1 && r.message() == t.unauthorized.2 {
        return c("OUnauthorized");
    }
    if !envelope {
        return match r.status {
            404 => c("ONoRoute"),
            405 => c("ONotAllowed"),
            s => ctor("OOther", vec![json!(s as i64), json!("")]),
        };
    }
    if verb == "GET" && root_route && r.status == 200 {
        let res = &v.as_ref().unwrap()["result"];
        if res.get("name").is_some() && res.get("databases").is_none() && res.get("primary_db").is_none() {
            return c("OHealth");
        }
    }
    match (r.status, code.as_str()) {
        (415, "unsupported_media_type") => return c("OUnsupported"),
        (413, "payload_too_large") => return c("OTooLarge"),
        (400, "bad_request") => return c("OBadRequest"),
        (400, "method_not_found") => return c("OMethodNotFound"),
        (404, "not_found") if rpc_route && !root_route && r.message() == format!("database {db:?} not found") => return c("ODbNotFound"),
        _ => {}
    }
    if r.status == 401 || r.status == 403 {
        return ctor("OOther", vec![json!(r.status as i64), json!(code)]);
    }
    // reached a handler; `info` shows which principal the handler was given
    let mut seen = Value::Null;
    if method == "info" && r.status == 200 {
        let res = &v.as_ref().unwrap()["result"];
        seen = some(c(if res["primary_db"].is_null() { "PDatabase" } else { "PAdmin" }));
    }
    ctor("OHandled", vec![seen])
}

fn sha3_hex(s: &str) -> String {
    let mut h = sha3::Sha3_256::new();
    h.update(s.as_bytes());
    hex::encode(h.finalize())
}

fn contains(hay: &[u8], needle: &[u8]) -> bool {
    !needle.is_empty() && hay.windows(needle.len()).any(|w| w == needle)
}

struct MatrixCfg {
    key_a: String,
    key_b: String,
    revoked: String,
    reduced: bool,
}

async fn matrix(w: &mut World, t: &Tables, out: &mut Out, cfg: &MatrixCfg) {
    let mut names: Vec<String> = Vec::new();
    for r in t.root.iter().chain(t.db.iter()) {
        if !names.contains(&r.0) {
            names.push(r.0.clone());
        }
    }
    for u in ["", "nope", "db.drop", "INFO", "doc.get ", "db.Create", "collection.list.x", "root.info"] {
        names.push(u.to_string());
    }
    // (uri, decoded segments)
    let mut routes: Vec<(String, Vec<String>)> = vec![
        ("/".into(), vec![]),
        (format!("/{A}"), vec![A.into()]),
        (format!("/{B}"), vec![B.into()]),
        (format!("/{C}"), vec![C.into()]),
        (format!("/{PRIMARY}"), vec![PRIMARY.into()]),
        (format!("/{MISSING}"), vec![MISSING.into()]),
        (format!("/{MALFORMED}"), vec![MALFORMED.into()]),
        ("/tenant%5Fb".into(), vec![B.into()]),
        (format!("/{A}/extra"), vec![A.into(), "extra".into()]),
        (format!("/{A}/"), vec![A.into(), "".into()]),
    ];
    if cfg.reduced {
        routes.retain(|r| !r.0.contains('%') && r.0 != format!("/{MALFORMED}"));
    }
    let admin = w.admin.clone();
    let admin_view_before = w.rpc(admin.as_deref(), "/", Ct::Json, "db.list", Value::Null).await.body;
    let mut reference: BTreeMap<&'static str, (u16, Vec<(String, String)>, Vec<u8>)> = BTreeMap::new();
    let hashes: Vec<(String, String)> = w.keys_seen.iter().map(|k| (k.clone(), sha3_hex(k))).collect();
    let world_term = tup(vec![w.admin.as_ref().map(|a| some(json!(a))).unwrap_or(Value::Null), json!(w.ops.clone())]);

    for p in principals(w, &cfg.key_a, &cfg.key_b, &cfg.revoked) {
        let is_admin = w.admin.is_none() || (p.token.is_some() && p.token == w.admin);
        let entitled: Vec<String> = w.bound.iter().filter(|(_, k)| Some(*k) == p.token.as_ref()).map(|(d, _)| d.clone()).collect();
        let before = if is_admin { BTreeMap::new() } else { w.snapshot(&entitled).await };
        for (uri, segs) in &routes {
            let root_route = segs.is_empty();
            let rpc_route = segs.len() <= 1 && segs.first().map(|s| !s.is_empty()).unwrap_or(true);
            let db = segs.first().cloned().unwrap_or_default();
            for ct in [Ct::Cbor, Ct::Json, Ct::Plain] {
                for verb in ["POST", "GET", "PUT"] {
                    // bodies: (model body term, method name, bytes, params label)
                    let mut bodies: Vec<(Value, String, Vec<u8>, &str)> = Vec::new();
                    let small = verb != "POST" || ct == Ct::Plain || !rpc_route;
                    if small {
                        bodies.push((ctor("BOk", vec![json!("info")]), "info".into(), encode(ct, &json!({"method": "info"})), "absent"));
                        if verb == "POST" && rpc_route {
                            bodies.push((ctor("BOk", vec![json!("doc.add")]), "doc.add".into(), encode(ct, &json!({"method": "doc.add", "params": valid_params(false, "doc.add")})), "valid"));
                        }
                    } else {
                        for m in &names {
                            bodies.push((ctor("BOk", vec![json!(m)]), m.clone(), encode(ct, &json!({"method": m})), "absent"));
                            if p.full {
                                if let Some(v) = valid_params(root_route, m).or_else(|| valid_params(!root_route, m)) {
                                    bodies.push((ctor("BOk", vec![json!(m)]), m.clone(), encode(ct, &json!({"method": m, "params": v})), "valid"));
                                }
                                bodies.push((ctor("BOk", vec![json!(m)]), m.clone(), encode(ct, &json!({"method": m, "params": cross_params()})), "cross"));
                            }
                        }
                        bodies.push((ctor("BMalformed", vec![]), String::new(), b"\xff\xfe{not a body".to_vec(), "malformed"));
                        bodies.push((ctor("BTooLarge", vec![]), "info".into(), encode(ct, &json!({"method": "info", "params": {"junk": "x".repeat(MAX_BODY + 4096)}})), "oversized"));
                    }
                    let mut obs_list = Vec::new();
                    for (bterm, method, bytes, plabel) in bodies {
                        let req_bytes = bytes.clone();
                        let r = w.send(verb, uri, p.header.as_deref(), ct, bytes).await;
                        out.evaluations += 1;
                        let obs = classify(root_route, rpc_route, verb, &db, &method, &r, t);
                        *out.classes.entry(obs["c"].as_str().unwrap_or("?").to_string()).or_default() += 1;
                        *out.by_principal.entry(p.label.to_string()).or_default() += 1;
                        obs_list.push(tup(vec![bterm, obs.clone()]));
                        let input = || {
                            json!({"world": w.label, "history": w.ops, "verb": verb, "uri": uri, "authorization": p.header, "principal": p.label,
                                   "content_type": match ct { Ct::Cbor => "application/cbor", Ct::Json => "application/json", Ct::Plain => "text/plain" },
                                   "method": method, "params": plabel, "response": resp_brief(&r)})
                        };
                        // ---------------- direct oracle (no model involved) ----------------
                        if verb == "POST" && rpc_route {
                            let entitled_here = !root_route && entitled.contains(&db);
                            if !is_admin && !entitled_here {
                                // must be the one uniform rejection, and nothing may have been written
                                let enc = if ct == Ct::Json { "json" } else { "cbor" };
                                let same = match reference.get(enc) {
                                    None => {
                                        reference.insert(enc, (r.status, r.headers.clone(), r.body.clone()));
                                        true
                                    }
                                    Some(x) => x.0 == r.status && x.1 == r.headers && x.2 == r.body,
                                };
                                let right = r.status == t.unauthorized.0 && r.code() == t.unauthorized.1 && r.message() == t.unauthorized.2;
                                if !same || !right || r.attempts != 0 {
                                    out.fail("outsider-not-rejected-uniformly",
                                        format!("{} on {uri} ({method}) is not the uniform {} rejection", p.label, t.unauthorized.0), input());
                                }
                            }
                            if !is_admin && entitled_here {
                                if obs["c"] == "OHandled" {
                                    out.tenant_handled += 1;
                                }
                                out.tenant_writes += r.attempts;
                                if let Some(bad) = r.log.iter().find(|(_, path)| !path.starts_with(&format!("{db}/"))) {
                                    out.fail("tenant-escape", format!("{} on {uri} ({method}) wrote outside its database: {}", p.label, bad.1), input());
                                }
                                let mut needles: Vec<String> = vec![PRIMARY.into(), A.into(), B.into(), C.into()];
                                needles.retain(|n| *n != db);
                                for n in [PRIMARY, A, B, C] {
                                    if n != db {
                                        needles.push(marker(n));
                                    }
                                }
                                for (k, h) in &hashes {
                                    if k.trim().len() < 6 {
                                        continue;
                                    }
                                    needles.push(h.clone());
                                    if Some(k) != p.token.as_ref() {
                                        needles.push(k.clone());
                                    }
                                }
                                for n in needles {
                                    if contains(&r.body, n.as_bytes()) && !contains(&req_bytes, n.as_bytes()) && !contains(uri.as_bytes(), n.as_bytes()) {
                                        out.fail("tenant-escape", format!("{} on {uri} ({method}) was shown {n:?}", p.label), input());
                                    }
                                }
                            }
                            if t.effect(root_route, &method) == Some("Read") && r.attempts != 0 {
                                out.fail("read-method-writes", format!("Read-classified {method} on {uri} wrote to storage: {:?}", r.log.first()), input());
                            }
                        }
                        if verb == "GET" && root_route {
                            for n in [PRIMARY, A, B, C] {
                                if contains(&r.body, n.as_bytes()) {
                                    out.fail("health-leaks", format!("GET / shows {n}"), input());
                                }
                            }
                        }
                    }
                    let vterm = ctor(match verb { "POST" => "POST", "GET" => "GET", _ => "OTHER" }, vec![]);
                    let cterm = ctor(match ct { Ct::Cbor => "CtCbor", Ct::Json => "CtJson", Ct::Plain => "CtNone" }, vec![]);
                    let case = tup(vec![world_term.clone(), vterm, json!(segs), p.header.as_ref().map(|h| some(json!(h))).unwrap_or(Value::Null), cterm]);
                    out.model_cases += 1;
                    writeln!(out.file, "{}", json!({"kind": "model", "case": case, "obs": obs_list, "nontrivial": p.label != "admin" && rpc_route && verb == "POST",
                                                   "key": format!("{}|{}|{}|{}|{:?}", w.label, verb, uri, p.label, ct as u8 as usize)})).unwrap();
                }
            }
        }
        if !is_admin {
            // nothing outside the databases this caller's key opens may have changed, in storage or in the registry
            let after = w.snapshot(&entitled).await;
            if before != after {
                let changed: Vec<&String> = after.keys().chain(before.keys()).filter(|k| before.get(*k) != after.get(*k)).take(5).collect();
                out.fail("foreign-state-changed", format!("requests of {} changed objects it is not entitled to: {changed:?}", p.label),
                         json!({"world": w.label, "history": w.ops, "principal": p.label, "authorization": p.header, "changed": changed}));
            }
            let view = w.rpc(admin.as_deref(), "/", Ct::Json, "db.list", Value::Null).await.body;
            if view != admin_view_before {
                out.fail("foreign-state-changed", format!("requests of {} changed the set of open databases", p.label),
                         json!({"world": w.label, "history": w.ops, "principal": p.label}));
            }
        }
    }
    // the key bindings after all non-admin traffic: every recorded binding still opens its database, nothing else does
    let bound = w.bound.clone();
    for (db, k) in &bound {
        let r = w.rpc(Some(k), &format!("/{db}"), Ct::Json, "info", Value::Null).await;
        if r.status == 401 {
            out.fail("foreign-state-changed", format!("the key bound to {db} stopped working after non-admin traffic"), json!({"world": w.label, "history": w.ops}));
        }
    }
}

#[derive(Clone, Copy, PartialEq, Debug)]
enum Life {
    Fresh,
    Unflushed,
    Flushed,
    DbReadOnly,
    CollectionReadOnly,
    Reopened,
    Restarted,
    CrashImage,
    Closed,
    Missing,
}

/// "Reads never write": every Read-classified method of the generated tables, over databases in each lifecycle state.
async fn reads_phase(t: &Tables, out: &mut Out) {
    let key_a = "ka-reads";
    for life in [Life::Fresh, Life::Unflushed, Life::Flushed, Life::DbReadOnly, Life::CollectionReadOnly, Life::Reopened, Life::Restarted,
                 Life::CrashImage, Life::Closed, Life::Missing] {
        let mut w = World::new(&format!("reads/{life:?}"), Some(ADMIN)).await;
        if life != Life::Missing {
            w.apply(&Op::Create(A.into(), Some(key_a.into()))).await;
        }
        if !matches!(life, Life::Fresh | Life::Missing) {
            w.admin_rpc(&format!("/{A}"), "collection.create", create_params("articles")).await;
            for i in 0..4u64 {
                w.admin_rpc(&format!("/{A}"), "doc.add", json!({"collection": "articles", "doc": {"title": format!("hello {i}"), "body": "anda body", "score": i}})).await;
            }
            w.admin_rpc(&format!("/{A}"), "db.save_extension", json!({"key": "note", "value": "n"})).await;
            w.admin_rpc(&format!("/{A}"), "collection.save_extension", json!({"collection": "articles", "key": "ck", "value": 1})).await;
        }
        match life {
            Life::Flushed | Life::DbReadOnly | Life::CollectionReadOnly => {
                w.admin_rpc(&format!("/{A}"), "db.flush", Value::Null).await;
            }
            _ => {}
        }
        if life == Life::DbReadOnly {
            w.admin_rpc(&format!("/{A}"), "db.set_read_only", json!({"read_only": true})).await;
        }
        if life == Life::CollectionReadOnly {
            w.admin_rpc(&format!("/{A}"), "collection.set_read_only", json!({"collection": "articles", "read_only": true})).await;
        }
        if life == Life::Closed {
            w.apply(&Op::Close(A.into())).await;
        }
        // the object store exactly as it is now (documents added, nothing flushed, the process gone)
        let crash_base: Option<Arc<Store>> = if life == Life::CrashImage { Some(w.store.clone()) } else { None };
        let mut crash_orig: Option<World> = None;
        let mut calls: Vec<(bool, String)> = t.db.iter().filter(|r| r.2 == "Read").map(|r| (false, r.0.clone())).collect();
        calls.extend(t.root.iter().filter(|r| r.2 == "Read").map(|r| (true, r.0.clone())));
        for (root, method) in calls {
            let params = match valid_params(root, &method) {
                Some(p) => p,
                None => {
                    out.untemplated.insert(method.clone());
                    Value::Null
                }
            };
            for caller in ["admin", "key_a"] {
                if root && caller != "admin" {
                    continue;
                }
                for ct in [Ct::Cbor, Ct::Json] {
                    // a cold handle for every single call: the first read after a reopen / restart is the one that matters
                    if life == Life::Reopened {
                        w.apply(&Op::Close(A.into())).await;
                        w.apply(&Op::Open(A.into())).await;
                    }
                    if life == Life::Restarted {
                        w.apply(&Op::Restart).await;
                    }
                    if let Some(base) = &crash_base {
                        // a new process over a copy of that image, for every single call
                        let copy = InMemory::new();
                        let metas: Vec<_> = base.inner().list(None).try_collect().await.unwrap_or_default();
                        for m in metas {
                            let bytes = base.inner().get_opts(&m.location, GetOptions::default()).await.unwrap().bytes().await.unwrap();
                            copy.put_opts(&Path::from(m.location.to_string()), PutPayload::from(bytes), Default::default()).await.unwrap();
                        }
                        let (store, fh) = FaultStore::wrap(copy);
                        let bound = w.bound.clone();
                        let mut fresh = World::over("reads/CrashImage/copy", Arc::new(store), fh, Some(ADMIN.into())).await;
                        fresh.bound = bound;
                        let old = std::mem::replace(&mut w, fresh);
                        if old.label == "reads/CrashImage/copy" {
                            old.state.shutdown().await;
                        } else {
                            crash_orig = Some(old); // keep the dead process's state from flushing into the image
                        }
                    }
                    let token = if caller == "admin" { ADMIN } else { key_a };
                    let path = if root { "/".to_string() } else { format!("/{A}") };
                    let r = w.rpc(Some(token), &path, ct, &method, params.clone()).await;
                    out.evaluations += 1;
                    *out.reads.entry(format!("{life:?}/{}", r.status)).or_default() += 1;
                    if r.status == 200 {
                        *out.read_ok_by_method.entry(method.clone()).or_default() += 1;
                    }
                    if r.attempts != 0 {
                        *out.read_writers.entry(format!("{life:?}/{method}")).or_default() += 1;
                        out.fail(if life == Life::CrashImage { "read-method-writes-crash-recovery" } else { "read-method-writes" },
                            format!("Read-classified {method} wrote to storage with the database in state {life:?}: {:?}", r.log.first()),
                            json!({"lifecycle": format!("{life:?}"), "history": w.ops, "method": method, "params": params, "caller": caller,
                                   "content_type": if ct == Ct::Cbor { "application/cbor" } else { "application/json" }, "response": resp_brief(&r)}));
                    }
                }
            }
        }
        w.state.shutdown().await;
        if let Some(o) = crash_orig {
            o.state.shutdown().await;
        }
    }
}

/// The operations the enumerated histories are made of: two databases, two keys, every kind of admin operation.
fn alphabet() -> Vec<Op> {
    let (k1, k2) = ("enum-key-1".to_string(), "enum-key-2".to_string());
    vec![
        Op::Create(A.into(), Some(k1.clone())),
        Op::Create(B.into(), Some(k2.clone())),
        Op::Create(A.into(), None),
        Op::SetKey(A.into(), k1.clone()),
        Op::SetKey(A.into(), k2.clone()),
        Op::SetKey(B.into(), k1.clone()),
        Op::RemoveKey(A.into()),
        Op::RemoveKey(B.into()),
        Op::Close(A.into()),
        Op::Open(A.into()),
        Op::Restart,
    ]
}

/// `info` on every database path with every token; each answer is compared with the model, and the direct
/// oracle requires the uniform rejection for every (token, database) pair the harness's own record of the
/// admin operations does not entitle.
async fn probe(w: &mut World, t: &Tables, out: &mut Out, reference: &mut Option<(u16, Vec<(String, String)>, Vec<u8>)>) {
    let tokens: [Option<&str>; 5] = [None, Some(ADMIN), Some("enum-key-1"), Some("enum-key-2"), Some("enum-key-0")];
    let mut obs_list = Vec::new();
    for db in [A, B, PRIMARY, MISSING] {
        for tok in tokens {
            let r = w.rpc(tok, &format!("/{db}"), Ct::Json, "info", Value::Null).await;
            out.evaluations += 1;
            let obs = classify(false, true, "POST", db, "info", &r, t);
            let is_admin = tok == Some(ADMIN);
            let entitled = tok.is_some() && w.bound.get(db).map(|k| k.as_str()) == tok;
            if !is_admin && !entitled {
                let same = match reference {
                    None => {
                        *reference = Some((r.status, r.headers.clone(), r.body.clone()));
                        true
                    }
                    Some(x) => x.0 == r.status && x.1 == r.headers && x.2 == r.body,
                };
                let right = r.status == t.unauthorized.0 && r.code() == t.unauthorized.1 && r.message() == t.unauthorized.2;
                if !same || !right || r.attempts != 0 {
                    out.fail("outsider-not-rejected-uniformly",
                        format!("after {} admin operations, token {tok:?} (not bound to {db}) is not rejected on /{db}: {}", w.ops.len(), r.status),
                        json!({"history": w.ops, "history_results": w.op_results, "uri": format!("/{db}"), "authorization": tok.map(|t| format!("Bearer {t}")),
                               "method": "info", "bound_now": w.bound, "response": resp_brief(&r)}));
                }
            }
            if entitled && !is_admin {
                out.probe_entitled += 1;
            }
            obs_list.push(tup(vec![json!([db]), tok.map(|t| some(json!(format!("Bearer {t}")))).unwrap_or(Value::Null), obs]));
        }
    }
    out.probe_cases += 1;
    writeln!(out.file, "{}", json!({"kind": "probe", "case": tup(vec![some(json!(ADMIN)), json!(w.ops.clone())]), "obs": obs_list,
                                   "key": format!("enum|{}", serde_json::to_string(&w.ops).unwrap_or_default())})).unwrap();
}

/// Every sequence of 1..=max_len operations of the alphabet; the bindings are probed after the sequence and
/// again after a restart of the server over the same object store.
async fn enumerated_histories(t: &Tables, out: &mut Out, max_len: usize) {
    let alpha = alphabet();
    let mut reference = None;
    for len in 1..=max_len {
        let mut idx = vec![0usize; len];
        loop {
            let mut w = World::new("enum", Some(ADMIN)).await;
            for i in &idx {
                w.apply(&alpha[*i]).await;
            }
            probe(&mut w, t, out, &mut reference).await;
            w.apply(&Op::Restart).await;
            probe(&mut w, t, out, &mut reference).await;
            writeln!(out.file, "{}", json!({"kind": "history", "case": tup(vec![some(json!(ADMIN)), json!(w.ops.clone())]), "obs": w.op_results.clone(), "label": "enum"})).unwrap();
            out.enum_histories += 1;
            w.state.shutdown().await;
            // next index vector
            let mut k = len;
            loop {
                if k == 0 {
                    break;
                }
                k -= 1;
                idx[k] += 1;
                if idx[k] < alpha.len() {
                    break;
                }
                idx[k] = 0;
                if k == 0 {
                    k = usize::MAX;
                    break;
                }
            }
            if k == usize::MAX {
                break;
            }
        }
    }
}

fn random_history(rng: &mut Rng) -> Vec<Op> {
    let names = [A, B, C, PRIMARY, MISSING, MALFORMED, "tenant_d", "tenant_e"];
    let keys = ["rk-one-1", "rk-two-2", "rk-three-3", " ", ADMIN, "rk-four-4"];
    let n = 5 + rng.below(8) as usize;
    let mut h = vec![Op::Create(A.into(), Some("rk-one-1".into())), Op::Create(B.into(), Some("rk-two-2".into()))];
    for _ in 0..n {
        let name = rng.pick(&names).to_string();
        let key = rng.pick(&keys).to_string();
        h.push(match rng.below(10) {
            0 | 1 => Op::Create(name, if rng.chance(2, 3) { Some(key) } else { None }),
            2 => Op::Open(name),
            3 => Op::Connect(name),
            4 | 5 => Op::Close(name),
            6 | 7 => Op::SetKey(name, key),
            8 => Op::RemoveKey(name),
            _ => Op::Restart,
        });
    }
    h
}

async fn run(args: &[String]) {
    let out_path = arg_value(args, "--out").expect("--out");
    let t = Tables::load(&arg_value(args, "--tables").expect("--tables"));
    let n_random: usize = arg_value(args, "--random").and_then(|s| s.parse().ok()).unwrap_or(2);
    let mut rng = Rng::from_env();
    let mut out = Out {
        file: std::io::BufWriter::new(std::fs::File::create(&out_path).unwrap()),
        failures: vec![],
        oracle_failures: 0,
        evaluations: 0,
        classes: BTreeMap::new(),
        by_principal: BTreeMap::new(),
        tenant_handled: 0,
        tenant_writes: 0,
        model_cases: 0,
        reads: BTreeMap::new(),
        untemplated: BTreeSet::new(),
        read_ok_by_method: BTreeMap::new(),
        read_writers: BTreeMap::new(),
        probe_cases: 0,
        probe_entitled: 0,
        enum_histories: 0,
        worlds: vec![],
    };
    let c = |n: &str, k: &str| Op::Create(n.into(), Some(k.into()));
    let base = vec![c(A, "key-a1"), c(B, "key-b1"), c(C, "key-c1"), Op::Close(C.into())];
    // (label, admin key, history, key_a, key_b, revoked, reduced matrix)
    let mut worlds: Vec<(String, Option<&str>, Vec<Op>, String, String, String, bool)> = vec![
        ("tenants".into(), Some(ADMIN), base.clone(), "key-a1".into(), "key-b1".into(), "key-a0".into(), false),
        ("rotated".into(), Some(ADMIN), [base.clone(), vec![Op::SetKey(A.into(), "key-a2".into())]].concat(), "key-a2".into(), "key-b1".into(), "key-a1".into(), true),
        ("unbound".into(), Some(ADMIN), [base.clone(), vec![Op::SetKey(A.into(), "key-a2".into()), Op::RemoveKey(A.into())]].concat(), "key-a2".into(), "key-b1".into(), "key-a1".into(), true),
        ("closed_reopened".into(), Some(ADMIN), [base.clone(), vec![Op::Close(A.into()), Op::Open(A.into()), Op::Close(B.into())]].concat(), "key-a1".into(), "key-b1".into(), "key-c1".into(), true),
        ("restarted".into(), Some(ADMIN), [base.clone(), vec![Op::SetKey(B.into(), "key-b2".into()), Op::Restart, Op::Open(C.into())]].concat(), "key-a1".into(), "key-b2".into(), "key-b1".into(), true),
        ("shared_key".into(), Some(ADMIN), [base.clone(), vec![Op::SetKey(B.into(), "key-a1".into()), Op::SetKey(PRIMARY.into(), "key-p".into()), Op::SetKey(MISSING.into(), "key-m".into())]].concat(), "key-a1".into(), "key-b1".into(), "key-p".into(), true),
        ("revoked_last_restarted".into(), Some(ADMIN), vec![c(A, "key-a1"), Op::Create(B.into(), None), Op::RemoveKey(A.into()), Op::Restart], "key-a2".into(), "key-b1".into(), "key-a1".into(), true),
        ("open_instance".into(), None, vec![c(A, "key-a1"), Op::Create(A.into(), None), Op::SetKey(A.into(), "key-a1".into()), Op::Create(B.into(), None)], "key-a1".into(), "key-b1".into(), "key-a0".into(), true),
    ];
    for i in 0..n_random {
        let h = random_history(&mut rng);
        worlds.push((format!("random{i}"), Some(ADMIN), h, "rk-one-1".into(), "rk-two-2".into(), "rk-three-3".into(), true));
    }
    for (label, admin, history, key_a, key_b, revoked, reduced) in worlds {
        let mut w = World::new(&label, admin).await;
        for op in &history {
            w.apply(op).await;
        }
        writeln!(out.file, "{}", json!({"kind": "history", "case": tup(vec![w.admin.as_ref().map(|a| some(json!(a))).unwrap_or(Value::Null), json!(w.ops.clone())]),
                                       "obs": w.op_results.clone(), "label": label})).unwrap();
        w.seed_data().await;
        let before = out.evaluations;
        matrix(&mut w, &t, &mut out, &MatrixCfg { key_a, key_b, revoked, reduced }).await;
        out.worlds.push(json!({"label": label, "ops": history.len(), "requests": out.evaluations - before, "bound": w.bound}));
        w.state.shutdown().await;
    }
    reads_phase(&t, &mut out).await;
    let enum_len: usize = arg_value(args, "--enum").and_then(|s| s.parse().ok()).unwrap_or(3);
    enumerated_histories(&t, &mut out, enum_len).await;
    let summary = json!({
        "kind": "summary", "evaluations": out.evaluations, "model_cases": out.model_cases, "oracle_failures": out.oracle_failures,
        "failures": out.failures, "classes": out.classes, "by_principal": out.by_principal, "worlds": out.worlds,
        "enumerated_histories": out.enum_histories, "enumerated_max_len": enum_len, "probe_cases": out.probe_cases, "probes_by_entitled_key": out.probe_entitled,
        "tenant_requests_handled": out.tenant_handled, "tenant_mutations": out.tenant_writes,
        "reads": out.reads, "read_ok_by_method": out.read_ok_by_method, "read_writers": out.read_writers, "untemplated_read_methods": out.untemplated,
        "read_methods": t.db.iter().chain(t.root.iter()).filter(|r| r.2 == "Read").map(|r| r.0.clone()).collect::<BTreeSet<_>>(),
    });
    writeln!(out.file, "{summary}").unwrap();
    out.file.flush().unwrap();
}

pub fn main(args: &[String]) {
    let rt = tokio::runtime::Builder::new_current_thread().enable_all().build().unwrap();
    let args = args.to_vec();
    let res = std::panic::catch_unwind(move || rt.block_on(run(&args)));
    if res.is_err() {
        eprintln!("h_server c14: panicked");
        std::process::exit(3);
    }
}
