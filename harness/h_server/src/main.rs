mod c14;

fn main() {
    let args: Vec<String> = std::env::args().collect();
    match args.get(1).map(|s| s.as_str()) {
        Some("c14") => c14::main(&args[2..]),
        _ => {
            eprintln!("usage: h_server <c14> ...");
            std::process::exit(2);
        }
    }
}
