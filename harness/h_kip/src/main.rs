//! h_kip — harness for C16 (no accepted KIP mutation touches engine-owned or immutable state).
//!
//!   h_kip c16 --out FILE [--plans N] [--mutations N] [--full]
//!   h_kip probe            (stdin: one command per line; prints what parse_kip does)
//!
//! Text path: the property's finite matrix (clause family x target kind x block x field name x
//! spelling) is enumerated completely and sent through the real `parse_kip`.
//! Tree path: the same matrix as JSON-injected trees (a sentinel key of an accepted tree is
//! replaced by each name; selections the grammar refuses in KML are transplanted from KQL
//! parses), plus hand-built malformed trees and single-node mutations, each deserialised into
//! `anda_kip::Command` and sent through the real `validate_command`.
//! Every tree is written out with the implementation's verdict for the model comparison; the
//! direct oracle (oracle.rs) judges every accepted tree.
mod oracle;

use anda_kip::{Command, KipErrorCode, parse_kip, validate_command};
use h_common::{Rng, arg_value};
use serde_json::{Value, json};
use std::collections::{BTreeMap, BTreeSet};
use std::io::{Read, Write};

fn verdict_of(code: &KipErrorCode) -> String {
    match code {
        KipErrorCode::InvalidSyntax => "InvalidSyntax".into(),
        KipErrorCode::DuplicateLocalHandle => "DuplicateLocalHandle".into(),
        KipErrorCode::ReferenceError => "ReferenceError".into(),
        other => format!("other:{other:?}"),
    }
}

struct Out {
    w: std::io::BufWriter<std::fs::File>,
    seen: BTreeSet<String>,
    trees: usize,
    accepted: BTreeMap<String, usize>,
    rejected: BTreeMap<String, usize>,
    failures: Vec<Value>,
    failure_classes: BTreeMap<String, usize>,
    oracle_failures: usize,
    texts: usize,
    text_accepted: usize,
    text_errors: BTreeMap<String, usize>,
    families: BTreeMap<String, usize>,
    inject_total: usize,
    asserts: usize,
    assert_accepted: usize,
    graphs: usize,
    action_lists: usize,
}

impl Out {
    fn fail(&mut self, class: &str, what: String, src: &str, cmd: Option<&Value>) {
        self.oracle_failures += 1;
        let n = self.failure_classes.entry(class.to_string()).or_default();
        *n += 1;
        if *n <= 4 {
            self.failures.push(json!({"class": class, "what": what, "input": src, "tree": cmd}));
        }
    }

    /// record one tree with the implementation's verdict; judge it when accepted
    fn tree(&mut self, path: &str, family: &str, src: &str, cmd: &Command, verdict: &str, important: bool) {
        let v = serde_json::to_value(cmd).expect("serialise");
        if verdict == "ok" {
            *self.accepted.entry(path.to_string()).or_default() += 1;
            for fd in oracle::findings(&v) {
                self.fail(fd.class, fd.what, src, Some(&v));
            }
        } else {
            *self.rejected.entry(format!("{path}:{verdict}")).or_default() += 1;
        }
        *self.families.entry(format!("{path}:{family}")).or_default() += 1;
        let key = format!("{verdict}|{v}");
        if self.seen.insert(key) {
            self.trees += 1;
            let line = json!({"kind": "tree", "path": path, "family": family, "src": src, "cmd": v,
                              "verdict": verdict, "important": important});
            writeln!(self.w, "{line}").unwrap();
        }
    }

    /// text path: real parse_kip; an accepted text must also pass validate_command
    fn text(&mut self, family: &str, src: &str, important: bool) -> Option<Command> {
        self.texts += 1;
        let res = std::panic::catch_unwind(|| parse_kip(src));
        match res {
            Err(_) => {
                self.fail("parser-panic", "parse_kip panicked".into(), src, None);
                None
            }
            Ok(Ok(cmd)) => {
                self.text_accepted += 1;
                if let Err(e) = validate_command(&cmd) {
                    let v = serde_json::to_value(&cmd).unwrap();
                    self.fail("text-accepts-what-validator-rejects",
                              format!("parse_kip accepted, validate_command refuses: {:?}", e.code), src, Some(&v));
                }
                // serde round trip must give the same tree (the tree path relies on it)
                let v = serde_json::to_value(&cmd).unwrap();
                match serde_json::from_value::<Command>(v.clone()) {
                    Ok(back) if back == cmd => {}
                    _ => self.fail("serde-roundtrip", "accepted tree does not round-trip through JSON".into(), src, Some(&v)),
                }
                self.tree("text", family, src, &cmd, "ok", important);
                Some(cmd)
            }
            Ok(Err(e)) => {
                *self.text_errors.entry(format!("{:?}", e.code)).or_default() += 1;
                None
            }
        }
    }

    /// tree path: JSON -> Command -> real validate_command
    fn inject(&mut self, family: &str, label: &str, v: &Value, important: bool) {
        let Ok(cmd) = serde_json::from_value::<Command>(v.clone()) else { return };
        self.inject_total += 1;
        let res = std::panic::catch_unwind(|| validate_command(&cmd));
        match res {
            Err(_) => self.fail("validator-panic", "validate_command panicked".into(), label, Some(v)),
            Ok(Ok(())) => self.tree("inject", family, label, &cmd, "ok", important),
            Ok(Err(e)) => {
                let vd = verdict_of(&e.code);
                self.tree("inject", family, label, &cmd, &vd, important)
            }
        }
    }
}

// ------------------------------------------------------------------------------ names
const ORDINARY: &[&str] = &["name", "note", "x", "id", "key", "type", "state", "version", "aliases"];

fn base_names() -> Vec<(&'static str, &'static str)> {
    let mut v = Vec::new();
    for n in oracle::ENGINE_OWNED { v.push((*n, "protected")); }
    for n in oracle::ASSERTION_PAYLOAD { v.push((*n, "assertion")); }
    for n in oracle::EVIDENCE_PAYLOAD { v.push((*n, "evidence")); }
    for n in oracle::PROPOSITION_PAYLOAD { v.push((*n, "proposition")); }
    for n in ORDINARY { v.push((*n, "ordinary")); }
    v
}

fn is_ident(s: &str) -> bool {
    let mut cs = s.chars();
    match cs.next() {
        Some(c) if c.is_ascii_alphabetic() || c == '_' => {}
        _ => return false,
    }
    cs.all(|c| c.is_ascii_alphanumeric() || c == '_')
}

/// name variants: exact, upper case, capitalised, nested-path, padded
fn variants(n: &str) -> Vec<String> {
    let mut cap = n.to_string();
    if let Some(i) = cap.find(|c: char| c.is_ascii_alphabetic()) {
        let up = cap[i..i + 1].to_ascii_uppercase();
        cap.replace_range(i..i + 1, &up);
    }
    let mut v = vec![n.to_string(), n.to_ascii_uppercase(), cap, format!("{n}.x"), format!("{n} "), format!("x.{n}")];
    v.dedup();
    v
}

/// spellings of a key in source text: bare identifier (when it is one) and quoted
fn spellings(k: &str) -> Vec<String> {
    let q = serde_json::to_string(k).unwrap();
    if is_ident(k) { vec![k.to_string(), q] } else { vec![q] }
}

const SENTINEL: &str = "zzkey";

fn replace_str(v: &Value, from: &str, to: &str) -> Value {
    match v {
        Value::String(s) if s == from => Value::String(to.to_string()),
        Value::Array(a) => Value::Array(a.iter().map(|x| replace_str(x, from, to)).collect()),
        Value::Object(m) => Value::Object(m.iter().map(|(k, x)| {
            (if k == from { to.to_string() } else { k.clone() }, replace_str(x, from, to))
        }).collect()),
        other => other.clone(),
    }
}

// ------------------------------------------------------------------------------ matrix
const BLOCKS: &[&str] = &["SET FIELDS", "SET ATTRIBUTES", "SET FACET", "UNSET ATTRIBUTES", "UNSET FACET", "SET STRUCTURAL", "UNSET STRUCTURAL"];

fn block_text(block: &str, key: &str, value: &str) -> String {
    match block {
        "SET FIELDS" => format!("SET FIELDS {{ {key}: {value} }}"),
        "SET ATTRIBUTES" => format!("SET ATTRIBUTES {{ {key}: {value} }}"),
        "SET FACET" => format!("SET FACET \"F\" {{ {key}: {value} }}"),
        "UNSET ATTRIBUTES" => format!("UNSET ATTRIBUTES {{ {key} }}"),
        "UNSET FACET" => format!("UNSET FACET \"F\" {{ {key} }}"),
        "SET STRUCTURAL" => format!("SET STRUCTURAL {{ ({key}, :e) }}"),
        "UNSET STRUCTURAL" => format!("UNSET STRUCTURAL {{ ({key}, :e) }}"),
        _ => unreachable!(),
    }
}

/// (label, target text, trailing WHERE text, prefix clause inside MUTATE or "")
fn update_targets() -> Vec<(String, String, String, String)> {
    let mut v: Vec<(String, String, String, String)> = vec![
        ("param".into(), ":t".into(), "".into(), "".into()),
        ("id".into(), "\"C-1\"".into(), "".into(), "".into()),
        ("plan-handle".into(), "?t".into(), "".into(), "CREATE CONCEPT ?t { TYPE \"T\" }".into()),
    ];
    let pat = |k: &str| -> String {
        match k {
            "CONCEPT" => "?t CONCEPT {id: \"X-1\"}".into(),
            "BARE" => "?t {id: \"X-1\"}".into(),
            "ASSERTION" => "?t ASSERTION {id: \"X-1\"}".into(),
            "EVIDENCE" => "?t EVIDENCE {id: \"X-1\"}".into(),
            "ACTIVITY" => "?t ACTIVITY {id: \"X-1\"}".into(),
            "PROPOSITION" => "?t PROPOSITION (:a, \"p\", :b)".into(),
            "TUPLE" => "?t (:a, \"p\", :b)".into(),
            "STRUCTURAL" => "?t STRUCTURAL (:a, \"f\", :b)".into(),
            _ => unreachable!(),
        }
    };
    for k in ["CONCEPT", "BARE", "ASSERTION", "EVIDENCE", "ACTIVITY", "PROPOSITION", "TUPLE", "STRUCTURAL"] {
        v.push((format!("where-{k}"), "?t".into(), format!("WHERE {{ {} }}", pat(k)), "".into()));
    }
    // a second typing written first / nested, which must not shadow the record typing
    for k in ["ASSERTION", "EVIDENCE", "PROPOSITION", "ACTIVITY"] {
        let c = pat("CONCEPT");
        let r = pat(k);
        v.push((format!("not-concept-then-{k}"), "?t".into(), format!("WHERE {{ NOT {{ {c} }} {r} }}"), "".into()));
        v.push((format!("optional-concept-then-{k}"), "?t".into(), format!("WHERE {{ OPTIONAL {{ {c} }} {r} }}"), "".into()));
        v.push((format!("concept-union-{k}"), "?t".into(), format!("WHERE {{ {c} UNION {{ {r} }} }}"), "".into()));
        v.push((format!("concept-and-{k}"), "?t".into(), format!("WHERE {{ {c} {r} }}"), "".into()));
        v.push((format!("nested-{k}"), "?t".into(), format!("WHERE {{ ?u {{id: \"U\"}} OPTIONAL {{ UNION {{ {r} }} }} }}"), "".into()));
    }
    v
}

fn values_for(i: usize, has_target_var: bool) -> &'static str {
    let vs: &[&str] = if has_target_var {
        &["1", "\"v\"", ":p", "ADD(?t.n, 1)", "{ \"_system\": 1 }", "[:p, 2]", "COALESCE(?t.facets[\"F\"].m, 0)"]
    } else {
        &["1", "\"v\"", ":p", "{ \"_system\": 1 }", "[:p, 2]", "null", "ADD(:p, 1)"]
    };
    vs[i % vs.len()]
}

fn matrix(o: &mut Out, seeds: &mut Vec<(String, Value)>) {
    let names = base_names();
    let targets = update_targets();
    let mut idx = 0usize;
    // sentinel seeds for the tree path + the full text matrix
    let mut keys: Vec<(String, bool)> = vec![(SENTINEL.to_string(), false)];
    for (n, class) in &names {
        for v in variants(n) {
            keys.push((v, *class != "ordinary"));
        }
    }
    for (k, important) in &keys {
        for sp in spellings(k) {
            let is_seed = k == SENTINEL;
            for block in BLOCKS {
                let structural = block.contains("STRUCTURAL");
                let key_txt = if structural { serde_json::to_string(k).unwrap() } else { sp.clone() };
                if structural && sp != key_txt {
                    continue; // structural field names are always quoted symbols
                }
                let mut emit = |o: &mut Out, family: &str, text: String| {
                    let cmd = o.text(family, &text, *important);
                    if is_seed {
                        if let Some(cmd) = cmd {
                            seeds.push((family.to_string(), serde_json::to_value(&cmd).unwrap()));
                        }
                    }
                };
                idx += 1;
                let val = values_for(idx, false);
                let b = block_text(block, &key_txt, val);
                emit(o, &format!("CREATE CONCEPT/{block}"), format!("CREATE CONCEPT ?h {{ TYPE \"T\" {b} }}"));
                emit(o, &format!("UPSERT CONCEPT/{block}"), format!("UPSERT CONCEPT ?h {{ MATCH {{id: \"C-1\"}} {b} }}"));
                for rec in ["EVIDENCE", "ASSERTION", "ACTIVITY"] {
                    emit(o, &format!("CREATE {rec}/{block}"), format!("CREATE {rec} ?h {{ {b} }}"));
                }
                if *block == "SET FIELDS" || *block == "SET STRUCTURAL" {
                    emit(o, &format!("TRANSITION ACTIVITY/{block}"), format!("TRANSITION ACTIVITY :act TO \"succeeded\" {b}"));
                }
                if *block == "SET FIELDS" {
                    emit(o, "SET RETENTION/values", format!("SET RETENTION :t {{ {key_txt}: {val} }}"));
                    emit(o, "SET RETENTION/values+where",
                         format!("SET RETENTION ?t {{ {key_txt}: {val} }} WHERE {{ ?t ASSERTION {{id: \"A-1\"}} }}"));
                    emit(o, "ASSERT/member", format!("ASSERT (:a, \"p\", :b) {{ by: :me, mode: \"stated\", {key_txt}: {val} }}"));
                }
                for (label, target, wh, prefix) in &targets {
                    let has_var = target == "?t";
                    let val = values_for(idx, has_var);
                    let b = block_text(block, &key_txt, val);
                    let stmt = format!("UPDATE {target} {b} {wh}");
                    let text = if prefix.is_empty() { stmt } else { format!("MUTATE {{ {prefix} {stmt} }}") };
                    emit(o, &format!("UPDATE[{label}]/{block}"), text);
                }
            }
        }
    }
}

// ------------------------------------------------------------------------------ selections
fn selection_patterns() -> Vec<(&'static str, &'static str)> {
    vec![
        ("concept", "?x CONCEPT {id: \"C-1\"}"),
        ("belief-tuple", "?x BELIEF (:a, \"p\", :b)"),
        ("belief-id", "?x BELIEF (id: \"P-1\")"),
        ("belief-var", "?p PROPOSITION (:a, \"p\", :b) ?x BELIEF (?p)"),
        ("belief-slot", "?x BELIEF SLOT (:a, \"p\")"),
        ("belief-lower", "?x belief (:a, \"p\", :b)"),
        ("belief-in-not", "?x {id: \"C-1\"} NOT { ?b BELIEF (:a, \"p\", :b) }"),
        ("belief-in-optional", "?x {id: \"C-1\"} OPTIONAL { ?b BELIEF SLOT (?x, \"p\") }"),
        ("belief-in-union", "?x {id: \"C-1\"} UNION { ?x BELIEF (:a, \"p\", :b) }"),
        ("belief-deep", "?x {id: \"C-1\"} NOT { OPTIONAL { UNION { ?b BELIEF (:a, \"p\", :b) } } }"),
        ("path-alt", "?x PROPOSITION (:a, \"p\"|\"q\", :b)"),
        ("path-hops", "?x PROPOSITION (:a, \"p\"{1,3}, :b)"),
        ("path-one-hop", "?x PROPOSITION (:a, \"p\"{1}, :b)"),
        ("path-bare-tuple", "?x (:a, \"p\"|\"q\", :b)"),
        ("path-anonymous", "?x {id: \"C-1\"} (:a, \"p\"{2,}, ?x)"),
        ("path-in-term", "?x PROPOSITION (:a, \"says\", (:c, \"p\"|\"q\", :d))"),
        ("path-in-matcher", "?x CONCEPT {about: (:c, \"p\"{1,2}, :d)}"),
        ("path-in-array", "?x CONCEPT {about: [(:c, \"p\"|\"q\", :d)]}"),
        ("path-in-structural", "?x STRUCTURAL ((:c, \"p\"|\"q\", :d), \"f\", :b)"),
        ("path-in-not", "?x {id: \"C-1\"} NOT { (:a, \"p\"|\"q\", ?x) }"),
        ("literal-subject", "?x PROPOSITION (\"lit\", \"p\", :b)"),
        ("id-prop", "?x PROPOSITION (id: \"P-1\")"),
        ("var-pred", "?x PROPOSITION (:a, ?pred, :b)"),
        ("filter", "?x {id: \"C-1\"} FILTER(?x.n > 1 && !IS_NULL(?x.m))"),
    ]
}

fn selection_families() -> Vec<(&'static str, String)> {
    vec![
        ("UPDATE", "UPDATE ?x SET ATTRIBUTES { a: 1 } WHERE { @ }".into()),
        ("RETRACT ASSERTION", "RETRACT ASSERTION ?x WHERE { @ } LIMIT 1".into()),
        ("SET RETENTION", "SET RETENTION ?x { policy: \"keep\" } WHERE { @ }".into()),
        ("ARCHIVE", "ARCHIVE ?x WHERE { @ }".into()),
        ("TOMBSTONE", "TOMBSTONE ?x WHERE { @ } LIMIT 2".into()),
        ("PURGE", "PURGE ?x WHERE { @ } CONFIRM \"PURGE\"".into()),
        ("MERGE CONCEPT", "MERGE CONCEPT ?x INTO :into WHERE { @ }".into()),
        ("EXPORT CAPSULE", "EXPORT CAPSULE :out WHERE { @ }".into()),
    ]
}

fn selections(o: &mut Out) {
    for (fam, tmpl) in selection_families() {
        for (label, pat) in selection_patterns() {
            let text = tmpl.replace('@', pat);
            o.text(&format!("{fam}/select:{label}"), &text, true);
            // the same selection as an injected tree: take the WHERE block from a KQL parse
            // (which admits BELIEF and raw paths) and transplant it into the accepted host tree
            let host = tmpl.replace('@', "?x CONCEPT {id: \"C-1\"}");
            let (Ok(host), Ok(Command::Kql(q))) = (parse_kip(&host), parse_kip(&format!("FIND(?x) WHERE {{ {pat} }}"))) else { continue };
            let mut hv = serde_json::to_value(&host).unwrap();
            let wv = serde_json::to_value(&q.where_clauses).unwrap();
            set_where(&mut hv, &wv);
            o.inject(&format!("{fam}/select:{label}"), &format!("{fam} with WHERE of: FIND(?x) WHERE {{ {pat} }}"), &hv, true);
        }
    }
    o.text("EXPORT CAPSULE/empty", "EXPORT CAPSULE :out WHERE { }", true);
    o.inject("EXPORT CAPSULE/empty", "EXPORT with empty selection",
             &json!({"Meta": {"ExportCapsule": {"target": {"Param": "out"}, "where_clauses": [], "options": null, "as_of": null}}}), true);
}

fn set_where(v: &mut Value, w: &Value) {
    match v {
        Value::Object(m) => {
            for (k, x) in m.iter_mut() {
                if k == "where_clauses" {
                    *x = w.clone();
                } else {
                    set_where(x, w);
                }
            }
        }
        Value::Array(a) => a.iter_mut().for_each(|x| set_where(x, w)),
        _ => {}
    }
}

// ------------------------------------------------------------------------------ single guards
fn guards(o: &mut Out) {
    let texts: &[(&str, &str)] = &[
        ("ENSURE/id", "ENSURE PROPOSITION (id: \"P-1\")"),
        ("ENSURE/id-param", "ENSURE PROPOSITION ?p (id: :pid)"),
        ("ENSURE/var-pred", "ENSURE PROPOSITION (:a, ?p, :b)"),
        ("ENSURE/literal-subject", "ENSURE PROPOSITION (\"Alice\", \"p\", :b)"),
        ("ENSURE/number-subject", "ENSURE PROPOSITION (42, \"p\", :b)"),
        ("ENSURE/path", "ENSURE PROPOSITION (:a, \"p\"|\"q\", :b)"),
        ("ENSURE/nested-path", "ENSURE PROPOSITION (:a, \"says\", (:c, \"p\"|\"q\", :d))"),
        ("ENSURE/nested-literal-subject", "ENSURE PROPOSITION (:a, \"says\", (\"lit\", \"p\", :d))"),
        ("ENSURE/ok", "ENSURE PROPOSITION ?p (:a, \"p\", :b) EXPECT VERSION 0"),
        ("ENSURE/param-pred", "ENSURE PROPOSITION (:a, :pred, \"literal object\")"),
        ("ENSURE/unbound-subject", "ENSURE PROPOSITION (?nowhere, \"p\", :b)"),
        ("ENSURE/unbound-object", "ENSURE PROPOSITION ?p (:a, \"p\", ?nowhere)"),
        ("ENSURE/unbound-nested", "ENSURE PROPOSITION (:a, \"says\", (?nowhere, \"p\", :d))"),
        ("ENSURE/self-reference", "ENSURE PROPOSITION ?p (?p, \"p\", :b)"),
        ("ASSERT/id", "ASSERT (id: \"P-1\") { by: :me, mode: \"stated\" }"),
        ("ASSERT/var-pred", "ASSERT (:a, ?p, :b) { by: :me, mode: \"stated\" }"),
        ("ASSERT/unbound-subject", "ASSERT (?nowhere, \"p\", :b) { by: :me, mode: \"stated\" }"),
        ("ASSERT/unbound-by", "ASSERT (:a, \"p\", :b) { by: ?nobody, mode: \"stated\" }"),
        ("ASSERT/unbound-evidence", "ASSERT (:a, \"p\", :b) { by: :me, mode: \"stated\", evidence: [?e1, :e2] }"),
        ("ASSERT/superseding-unbound", "ASSERT (:a, \"p\", :b) { by: :me, mode: \"stated\" } SUPERSEDING ?old"),
        ("UPSERT/no-match", "UPSERT CONCEPT ?c { SET FIELDS {name: \"Alice\"} }"),
        ("UPSERT/name-only", "UPSERT CONCEPT ?c { MATCH {name: \"Alice\"} }"),
        ("UPSERT/id-variable", "UPSERT CONCEPT ?c { MATCH {id: ?anything} }"),
        ("UPSERT/id-upper", "UPSERT CONCEPT ?c { MATCH {ID: \"C-1\"} }"),
        ("UPSERT/id-quoted", "UPSERT CONCEPT ?c { MATCH {\"id\": \"C-1\"} }"),
        ("UPSERT/key-null", "UPSERT CONCEPT ?c { MATCH {key: null} }"),
        ("UPSERT/key-param", "UPSERT CONCEPT ?c { MATCH {key: :k} }"),
        ("UPSERT/id-and-name", "UPSERT CONCEPT ?c { MATCH {id: \"C-1\", name: \"x\"} }"),
        ("UPSERT/id-nested", "UPSERT CONCEPT ?c { MATCH {id: {v: \"C-1\"}} }"),
        ("UPSERT/id-array", "UPSERT CONCEPT ?c { MATCH {id: [\"C-1\"]} }"),
        ("UPSERT/name-and-type", "UPSERT CONCEPT ?c { MATCH {type: \"Person\", name: \"Alice\"} }"),
        ("UPSERT/match-path", "UPSERT CONCEPT ?c { MATCH {id: \"C-1\", about: (:a, \"p\"|\"q\", :b)} }"),
        ("PURGE/ok", "PURGE :e CONFIRM \"PURGE\""),
        ("PURGE/lower", "PURGE :e CONFIRM \"purge\""),
        ("PURGE/padded", "PURGE :e CONFIRM \"PURGE \""),
        ("PURGE/missing", "PURGE :e"),
        ("PURGE/where", "PURGE ?e WHERE { ?e EVIDENCE {id: \"E-1\"} } LIMIT 1 REFERENCE POLICY \"refuse\" CONFIRM \"PURGE\""),
        ("HANDLE/unbound-target", "ARCHIVE ?x"),
        ("HANDLE/bound-by-where", "ARCHIVE ?x WHERE { ?x {id: ?y} }"),
        ("HANDLE/filter-does-not-bind", "ARCHIVE ?x WHERE { ?c {id: \"C\"} FILTER(?x.n > 1) }"),
        ("HANDLE/supersede-unbound", "SUPERSEDE ASSERTION :old BY ?new"),
        ("HANDLE/correct-unbound", "CORRECT EVIDENCE ?old BY :new"),
        ("HANDLE/merge-unbound", "MERGE CONCEPT ?a INTO ?b WHERE { ?a {id: \"1\"} }"),
        ("HANDLE/merge-bound", "MERGE CONCEPT ?a INTO ?b WHERE { ?a {id: \"1\"} ?b {id: \"2\"} }"),
        ("HANDLE/dup", "MUTATE { CREATE CONCEPT ?c { TYPE \"A\" } CREATE CONCEPT ?c { TYPE \"B\" } }"),
        ("HANDLE/dup-kinds", "MUTATE { CREATE EVIDENCE ?c { } ENSURE PROPOSITION ?c (:a, \"p\", :b) }"),
        ("HANDLE/dup-assert", "MUTATE { CREATE CONCEPT ?a { TYPE \"A\" } ASSERT ?a (:s, \"p\", :o) { by: :me, mode: \"stated\" } }"),
        ("HANDLE/forward", "MUTATE { CREATE ASSERTION ?a { SET STRUCTURAL { (\"evidence\", ?msg) {role: \"support\"} } } CREATE EVIDENCE ?msg { } }"),
        ("HANDLE/option-handle", "CREATE ASSERTION ?a { SET STRUCTURAL { (\"evidence\", :e) {role: \"support\", via: ?nowhere} } }"),
        ("HANDLE/nested-value", "CREATE CONCEPT ?c { SET ATTRIBUTES { refs: [{who: ?nowhere}] } }"),
        ("HANDLE/facet-value", "CREATE CONCEPT ?c { SET FACET \"F\" { ref: ?nowhere } }"),
        ("HANDLE/retention-value", "SET RETENTION :t { until: ?nowhere }"),
        ("HANDLE/transition-value", "TRANSITION ACTIVITY :a TO \"done\" SET FIELDS { out: ?nowhere }"),
        ("HANDLE/unset-structural", "UPSERT CONCEPT ?c { MATCH {id: \"C\"} UNSET STRUCTURAL { (\"f\", ?nowhere) } }"),
        ("HANDLE/update-structural", "UPDATE :c UNSET STRUCTURAL { (\"f\", ?nowhere) }"),
        ("UPDATE/no-action", "UPDATE :c WHERE { ?c {id: \"C-1\"} }"),
        ("UPDATE/empty-unset-structural", "UPDATE :c UNSET STRUCTURAL { }"),
        ("UPDATE/joined-read", "UPDATE ?c SET FIELDS { n: ADD(?other.n, 1) } WHERE { ?c {id: \"C-1\"} }"),
        ("UPDATE/arity", "UPDATE :c SET FIELDS { n: ADD(1) }"),
        ("UPDATE/dup-key", "UPDATE :c SET FIELDS { a: 1, a: 2 }"),
        ("UPDATE/dup-key-quoted", "UPDATE :c SET FIELDS { a: 1, \"a\": 2 }"),
        ("KQL/belief-read", "FIND(?b) WHERE { ?b BELIEF (:a, \"p\", :b) }"),
        ("META/describe", "DESCRIBE PRIMER"),
    ];
    for (fam, t) in texts {
        o.text(fam, t, true);
    }
}

// ------------------------------------------------------------------------------ injected trees
fn injected(o: &mut Out, seeds: &[(String, Value)]) {
    // the matrix again, on the tree path: every seed x every name (all variants)
    let names = base_names();
    for (family, seed) in seeds {
        for (n, class) in &names {
            for k in variants(n) {
                let v = replace_str(seed, SENTINEL, &k);
                o.inject(family, &format!("{family} with key {k:?} injected"), &v, *class != "ordinary");
            }
        }
    }
    // trees no text produces
    let cc = |h: &str| json!({"CreateConcept": {"handle": h, "type": null, "client_key": null, "name": null,
        "set_fields": null, "set_attributes": null, "set_facets": [], "set_structural": null}});
    let kml = |cl: Vec<Value>| json!({"Kml": {"explicit_transaction": true, "clauses": cl}});
    let upd = |target: Value, actions: Value, wh: Value| json!({"Update": {"target": target, "expect_version": null,
        "actions": actions, "where_clauses": wh, "limit": null}});
    let lit = |s: &str| json!({"Value": {"String": s}});
    let cases: Vec<(&str, Value)> = vec![
        ("empty-plan", kml(vec![])),
        ("dup-handle", kml(vec![cc("c"), cc("c")])),
        ("purge-lower", kml(vec![json!({"Purge": {"target": {"Param": "e"}, "where_clauses": null, "limit": null, "reference_policy": null, "confirm": "purge"}})])),
        ("purge-empty", kml(vec![json!({"Purge": {"target": {"Param": "e"}, "where_clauses": null, "limit": null, "reference_policy": null, "confirm": ""}})])),
        ("update-no-actions", kml(vec![upd(json!({"Param": "c"}), json!([]), Value::Null)])),
        ("update-empty-unset-structural", kml(vec![upd(json!({"Param": "c"}), json!([{"UnsetStructural": []}]), Value::Null)])),
        ("upsert-empty-unset-structural", kml(vec![json!({"UpsertConcept": {"handle": "c", "match": {"id": {"Literal": {"String": "C"}}},
            "expect_version": null, "set_fields": null, "set_attributes": null, "set_facets": [], "unset_attributes": null,
            "unset_facets": [], "set_structural": null, "unset_structural": []}})])),
        ("upsert-no-match", kml(vec![json!({"UpsertConcept": {"handle": "c", "match": null,
            "expect_version": null, "set_fields": null, "set_attributes": null, "set_facets": [], "unset_attributes": null,
            "unset_facets": [], "set_structural": null, "unset_structural": null}})])),
        ("upsert-id-variable", kml(vec![json!({"UpsertConcept": {"handle": "c", "match": {"id": {"Variable": "v"}},
            "expect_version": null, "set_fields": null, "set_attributes": null, "set_facets": [], "unset_attributes": null,
            "unset_facets": [], "set_structural": null, "unset_structural": null}})])),
        ("upsert-unset-protected", kml(vec![json!({"UpsertConcept": {"handle": "c", "match": {"key": {"Param": "k"}},
            "expect_version": null, "set_fields": null, "set_attributes": null, "set_facets": [], "unset_attributes": ["note", "governance"],
            "unset_facets": [{"facet": {"Name": "F"}, "fields": ["space_id"]}], "set_structural": null, "unset_structural": null}})])),
        ("arity-add-1", kml(vec![upd(json!({"Param": "c"}), json!([{"SetFields": [["n", {"Expr": {"Function": {"func": "Add", "args": [{"Number": 1}]}}}]]}]), Value::Null)])),
        ("arity-clamp-2-nested", kml(vec![upd(json!({"Param": "c"}), json!([{"SetAttributes": [["n", {"Expr": {"Function": {"func": "Mul", "args": [{"Number": 1},
            {"Function": {"func": "Clamp", "args": [{"Number": 1}, {"Number": 2}]}}]}}}]]}]), Value::Null)])),
        ("arity-in-edge", kml(vec![upd(json!({"Param": "c"}), json!([{"SetStructural": [{"field": {"Name": "f"}, "value": {"Expr": {"Function": {"func": "Coalesce", "args": []}}}, "options": null}]}]), Value::Null)])),
        ("dup-key-assign", kml(vec![upd(json!({"Param": "c"}), json!([{"SetAttributes": [["a", lit("1")], ["a", lit("2")]]}]), Value::Null)])),
        ("dup-key-unset", kml(vec![upd(json!({"Param": "c"}), json!([{"UnsetAttributes": ["a", "a"]}]), Value::Null)])),
        ("ensure-var-pred", kml(vec![json!({"EnsureProposition": {"handle": null, "subject": {"Param": "a"}, "predicate": {"Variable": "p"}, "object": {"Param": "b"}, "expect_version": null}})])),
        ("ensure-literal-subject", kml(vec![json!({"EnsureProposition": {"handle": null, "subject": {"Literal": {"String": "x"}}, "predicate": {"Literal": "p"}, "object": {"Param": "b"}, "expect_version": null}})])),
        ("ensure-nested-path", kml(vec![json!({"EnsureProposition": {"handle": null, "subject": {"Param": "a"}, "predicate": {"Literal": "says"},
            "object": {"Proposition": {"Tuple": {"subject": {"Param": "c"}, "predicate": {"Path": [{"predicate": {"Literal": "p"}, "hops": {"min": 1, "max": null}}]}, "object": {"Param": "d"}}}}, "expect_version": null}})])),
        ("ensure-nested-id", kml(vec![json!({"EnsureProposition": {"handle": "p", "subject": {"Proposition": {"Id": {"Literal": {"String": "P-1"}}}}, "predicate": {"Param": "p"}, "object": {"Literal": "Null"}, "expect_version": null}})])),
        ("ensure-match-variable", kml(vec![json!({"EnsureProposition": {"handle": null, "subject": {"Match": {"name": {"Variable": "n"}}}, "predicate": {"Literal": "p"}, "object": {"Param": "b"}, "expect_version": null}})])),
        ("ensure-unbound", kml(vec![json!({"EnsureProposition": {"handle": null, "subject": {"Variable": "nowhere"}, "predicate": {"Literal": "p"}, "object": {"Param": "b"}, "expect_version": null}})])),
        ("ensure-bound", kml(vec![cc("alice"), json!({"EnsureProposition": {"handle": "p", "subject": {"Variable": "alice"}, "predicate": {"Literal": "p"}, "object": {"Variable": "alice"}, "expect_version": null}})])),
        ("synthetic-handle-collision", kml(vec![cc("#assert0"), json!({"EnsureProposition": {"handle": "#assert0", "subject": {"Param": "a"}, "predicate": {"Literal": "p"}, "object": {"Param": "b"}, "expect_version": null}})])),
        ("where-bound-by-belief-var", kml(vec![json!({"Archive": {"target": {"Handle": "p"}, "where_clauses": [{"Belief": {"variable": "b", "target": {"Proposition": "p"}}}], "limit": null, "expect_state": null}})])),
        ("export-path-predicate-var", json!({"Meta": {"ExportCapsule": {"target": {"Handle": "q"}, "where_clauses":
            [{"Proposition": {"variable": null, "matcher": {"Tuple": {"subject": {"Param": "a"}, "predicate": {"Path": [{"predicate": {"Variable": "q"}, "hops": null}]}, "object": {"Param": "b"}}}}}], "options": null, "as_of": null}}})),
        ("kql-unchecked", json!({"Kql": {"find_clause": {"expressions": []}, "where_clauses": [{"Belief": {"variable": "b", "target": {"Proposition": "p"}}}],
            "as_of": null, "for_time": null, "epistemic": null, "order_by": null, "limit": null, "cursor": null}})),
        ("meta-other", json!({"Meta": {"Describe": "Protocol"}})),
    ];
    for (label, v) in cases {
        o.inject(&format!("handmade/{label}"), &format!("handmade tree {label}"), &v, true);
    }
}

/// single-node mutations of accepted trees: one string leaf (or map key) becomes a name that
/// matters to a guard
fn mutate_trees(o: &mut Out, rng: &mut Rng, pool: &[Value], n: usize) {
    let subst = ["_system", "governance", "space_id", "space_seq", "confidence", "payload", "subject", "evidence",
                 "t", "h", "nowhere", "x", "id", "key", "name", "PURGE", "purge", "a", "b", "c", "p", "e"];
    if pool.is_empty() {
        return;
    }
    for _ in 0..n {
        let base = rng.pick(pool).clone();
        let mut leaves = 0usize;
        count_strings(&base, &mut leaves);
        if leaves == 0 {
            continue;
        }
        let target = rng.below(leaves as u64) as usize;
        let with = rng.pick(&subst).to_string();
        let mut i = 0usize;
        let v = mutate_nth(&base, target, &with, &mut i);
        o.inject("mutation", &format!("string leaf #{target} -> {with:?}"), &v, true);
    }
}

fn count_strings(v: &Value, n: &mut usize) {
    match v {
        Value::String(_) => *n += 1,
        Value::Array(a) => a.iter().for_each(|x| count_strings(x, n)),
        Value::Object(m) => m.values().for_each(|x| count_strings(x, n)),
        _ => {}
    }
}

fn mutate_nth(v: &Value, target: usize, with: &str, i: &mut usize) -> Value {
    match v {
        Value::String(s) => {
            let r = if *i == target { Value::String(with.to_string()) } else { Value::String(s.clone()) };
            *i += 1;
            r
        }
        Value::Array(a) => Value::Array(a.iter().map(|x| mutate_nth(x, target, with, i)).collect()),
        Value::Object(m) => Value::Object(m.iter().map(|(k, x)| (k.clone(), mutate_nth(x, target, with, i))).collect()),
        other => other.clone(),
    }
}

// ------------------------------------------------------------------------------ plans
fn plans(o: &mut Out, rng: &mut Rng, n: usize) {
    let pool = ["a", "b", "c", "d", "e", "f"];
    for _ in 0..n {
        let len = 2 + rng.below(5) as usize;
        let mut claimed: Vec<&str> = Vec::new();
        let mut cl: Vec<String> = Vec::new();
        for _ in 0..len {
            // mostly-valid stream: a reference picks a claimed handle 5 times out of 6
            let pick_ref = |rng: &mut Rng, claimed: &Vec<&str>| -> String {
                if !claimed.is_empty() && rng.chance(5, 6) { format!("?{}", rng.pick(claimed)) }
                else if rng.chance(1, 2) { format!("?{}", rng.pick(&pool)) } else { ":p".to_string() }
            };
            let fresh = |rng: &mut Rng, claimed: &Vec<&str>| -> &'static str {
                let free: Vec<&&str> = pool.iter().filter(|h| !claimed.contains(h)).collect();
                if free.is_empty() || rng.chance(1, 12) { pool[rng.below(pool.len() as u64) as usize] } else { *free[rng.below(free.len() as u64) as usize] }
            };
            match rng.below(9) {
                0 => { let h = fresh(rng, &claimed); cl.push(format!("CREATE CONCEPT ?{h} {{ TYPE \"T\" NAME \"n\" SET ATTRIBUTES {{ friend: {} }} }}", pick_ref(rng, &claimed))); claimed.push(h); }
                1 => { let h = fresh(rng, &claimed); cl.push(format!("CREATE EVIDENCE ?{h} {{ SET FIELDS {{ evidence_class: \"user_statement\" }} }}")); claimed.push(h); }
                2 => { let h = fresh(rng, &claimed); cl.push(format!("ENSURE PROPOSITION ?{h} ({}, \"p\", {})", pick_ref(rng, &claimed), pick_ref(rng, &claimed))); claimed.push(h); }
                3 => { let h = fresh(rng, &claimed); cl.push(format!("CREATE ASSERTION ?{h} {{ SET FIELDS {{ proposition: {}, asserted_by: {} }} SET STRUCTURAL {{ (\"evidence\", {}) {{role: \"support\"}} }} }}",
                        pick_ref(rng, &claimed), pick_ref(rng, &claimed), pick_ref(rng, &claimed))); claimed.push(h); }
                4 => { cl.push(format!("ASSERT ({}, \"p\", {}) {{ by: {}, mode: \"stated\", evidence: [{}] }}", pick_ref(rng, &claimed), pick_ref(rng, &claimed), pick_ref(rng, &claimed), pick_ref(rng, &claimed))); }
                5 => { cl.push(format!("SUPERSEDE ASSERTION {} BY {}", pick_ref(rng, &claimed), pick_ref(rng, &claimed))); }
                6 => { let v = rng.pick(&pool); cl.push(format!("UPDATE ?{v} SET ATTRIBUTES {{ seen: {} }} WHERE {{ ?{v} CONCEPT {{id: \"C\"}} }}", pick_ref(rng, &claimed))); }
                7 => { cl.push(format!("UPDATE {} SET STRUCTURAL {{ (\"has_step\", {}) }}", pick_ref(rng, &claimed), pick_ref(rng, &claimed))); }
                _ => { let h = fresh(rng, &claimed); cl.push(format!("UPSERT CONCEPT ?{h} {{ MATCH {{key: \"k\"}} SET STRUCTURAL {{ (\"f\", {}) }} }}", pick_ref(rng, &claimed))); claimed.push(h); }
            }
        }
        let text = format!("MUTATE {{ {} }}", cl.join(" "));
        // the text path stops at the first refusal; the tree of a refused plan is still needed for
        // the model comparison, so parse the statement without plan validation when possible
        if o.text("plan", &text, true).is_none() {
            if let Some(v) = unvalidated_tree(&cl) {
                o.inject("plan", &text, &v, true);
            }
        }
    }
}

/// Builds the tree of a plan the validator refuses by parsing each clause on its own where that
/// is possible (clauses whose own handles are claimed elsewhere fail alone), else None.
fn unvalidated_tree(clauses: &[String]) -> Option<Value> {
    let mut out = Vec::new();
    for (i, c) in clauses.iter().enumerate() {
        // bind every ?handle the clause mentions by pre-creating it, then drop the helpers
        let mut names = BTreeSet::new();
        let bytes = c.as_bytes();
        let mut j = 0;
        while j < bytes.len() {
            if bytes[j] == b'?' {
                let s = j + 1;
                let mut e = s;
                while e < bytes.len() && (bytes[e].is_ascii_alphanumeric() || bytes[e] == b'_') { e += 1; }
                names.insert(c[s..e].to_string());
                j = e;
            } else { j += 1; }
        }
        // helpers claim handles zz_<name>; rename references is not possible without reparsing,
        // so only clauses that parse standalone or with helper handles not clashing are taken
        let own: Vec<String> = names.iter().cloned().collect();
        let claims_own = c.starts_with("CREATE") || c.starts_with("UPSERT") || c.starts_with("ENSURE PROPOSITION ?");
        let own_handle = if claims_own { c.split('?').nth(1).map(|s| s.chars().take_while(|ch| ch.is_ascii_alphanumeric() || *ch == '_').collect::<String>()) } else { None };
        let helpers: Vec<String> = own.iter().filter(|n| Some((*n).clone()) != own_handle).map(|n| format!("CREATE EVIDENCE ?{n} {{ }}")).collect();
        let text = format!("MUTATE {{ {} {} }}", helpers.join(" "), c);
        let Ok(Command::Kml(stmt)) = parse_kip(&text) else { return None };
        let v = serde_json::to_value(&stmt.clauses[helpers.len()..]).ok()?;
        let arr = v.as_array()?.clone();
        // ASSERT synthesises handles from its position: keep the position it had in the plan
        for cl in arr {
            let s = cl.to_string().replace(&format!("#assert{}", helpers.len()), &format!("#assert{i}"));
            out.push(serde_json::from_str::<Value>(&s).ok()?);
        }
    }
    Some(json!({"Kml": {"explicit_transaction": true, "clauses": out}}))
}


// ------------------------------------------------------------------------------ handle graphs
/// Enumerated multi-clause plans: every subset of 2..=3 of the clause templates below in every
/// order, and every 4-subset of the first nine in every order.  The templates cover plan-output
/// handles referenced before and after the clause that claims them (forward references), handles
/// bound only by a clause's own WHERE, a handle bound only by a *sibling's* WHERE (must not
/// resolve), a handle claimed twice, and a plan-output handle that a WHERE re-types as an Assertion.
const GRAPH_TEMPLATES: &[&str] = &[
    "CREATE CONCEPT ?a { TYPE \"T\" SET ATTRIBUTES { peer: ?b } }",
    "CREATE CONCEPT ?b { TYPE \"T\" }",
    "CREATE EVIDENCE ?e { }",
    "ENSURE PROPOSITION ?p (?a, \"p\", ?b)",
    "CREATE ASSERTION ?s { SET FIELDS { proposition: ?p, asserted_by: ?a } SET STRUCTURAL { (\"evidence\", ?e) {role: \"support\"} } }",
    "UPDATE ?w SET ATTRIBUTES { seen: ?a } WHERE { ?w CONCEPT {id: \"C\"} }",
    "UPDATE ?a SET ATTRIBUTES { x: 1 }",
    "UPDATE ?w SET FIELDS { confidence: 0.1 }",
    "ARCHIVE ?v WHERE { ?v ASSERTION {asserted_by: ?u} }",
    "SUPERSEDE ASSERTION ?v BY ?s",
    "UPSERT CONCEPT ?a { MATCH {key: \"k\"} }",
    "UPDATE ?a SET FIELDS { confidence: 0.2 } WHERE { ?a ASSERTION {id: \"A\"} }",
    "MERGE CONCEPT ?a INTO ?u WHERE { ?u {id: \"U\"} }",
];

fn permutations(items: &[usize], out: &mut Vec<Vec<usize>>) {
    fn rec(cur: &mut Vec<usize>, rest: &mut Vec<usize>, out: &mut Vec<Vec<usize>>) {
        if rest.is_empty() {
            out.push(cur.clone());
            return;
        }
        for i in 0..rest.len() {
            let x = rest.remove(i);
            cur.push(x);
            rec(cur, rest, out);
            cur.pop();
            rest.insert(i, x);
        }
    }
    rec(&mut Vec::new(), &mut items.to_vec(), out);
}

fn subsets(n: usize, k: usize) -> Vec<Vec<usize>> {
    fn rec(start: usize, n: usize, k: usize, cur: &mut Vec<usize>, out: &mut Vec<Vec<usize>>) {
        if cur.len() == k {
            out.push(cur.clone());
            return;
        }
        for i in start..n {
            cur.push(i);
            rec(i + 1, n, k, cur, out);
            cur.pop();
        }
    }
    let mut out = Vec::new();
    rec(0, n, k, &mut Vec::new(), &mut out);
    out
}

fn handle_graphs(o: &mut Out) {
    let n = GRAPH_TEMPLATES.len();
    let mut sets: Vec<Vec<usize>> = Vec::new();
    sets.extend(subsets(n, 2));
    sets.extend(subsets(n, 3));
    sets.extend(subsets(9, 4));
    for set in sets {
        let mut orders = Vec::new();
        permutations(&set, &mut orders);
        for order in orders {
            let cl: Vec<String> = order.iter().map(|i| GRAPH_TEMPLATES[*i].to_string()).collect();
            let text = format!("MUTATE {{ {} }}", cl.join(" "));
            o.graphs += 1;
            let family = format!("graph/{}", order.len());
            if o.text(&family, &text, true).is_none() {
                if let Some(v) = unvalidated_tree(&cl) {
                    o.inject(&family, &text, &v, true);
                }
            }
        }
    }
}


// ------------------------------------------------------------------------------ action lists
/// UPDATE takes a *list* of actions (`update_action+`), and nothing forbids a kind from being
/// repeated.  Every pair and triple of the seven action kinds (the same kind repeated included),
/// with the field under test in every position of the list, for seven target forms: as text
/// through parse_kip, and as injected trees (sentinel replaced, so engine-owned names are reached
/// too) through validate_command.
const ACTION_TARGETS: &[(&str, &str, &str)] = &[
    ("param", ":t", ""),
    ("where-CONCEPT", "?t", "WHERE { ?t CONCEPT {id: \"X-1\"} }"),
    ("where-ASSERTION", "?t", "WHERE { ?t ASSERTION {id: \"X-1\"} }"),
    ("where-EVIDENCE", "?t", "WHERE { ?t EVIDENCE {id: \"X-1\"} }"),
    ("where-PROPOSITION", "?t", "WHERE { ?t PROPOSITION (:a, \"p\", :b) }"),
    ("where-ACTIVITY", "?t", "WHERE { ?t ACTIVITY {id: \"X-1\"} }"),
    ("not-concept-then-ASSERTION", "?t", "WHERE { NOT { ?t CONCEPT {id: \"X-1\"} } ?t ASSERTION {id: \"X-1\"} }"),
];
const ACTION_NAMES: &[&str] = &["governance", "confidence", "payload", "subject", "note"];

fn action_lists(o: &mut Out) {
    let mut seqs: Vec<Vec<usize>> = Vec::new();
    for a in 0..BLOCKS.len() {
        for b in 0..BLOCKS.len() {
            seqs.push(vec![a, b]);
            for c in 0..BLOCKS.len() {
                seqs.push(vec![a, b, c]);
            }
        }
    }
    for (tlabel, target, wh) in ACTION_TARGETS {
        for seq in &seqs {
            for pos in 0..seq.len() {
                let render = |key: &str| -> String {
                    let acts: Vec<String> = seq.iter().enumerate().map(|(i, b)| {
                        let k = if i == pos { key.to_string() } else { format!("k{i}") };
                        let kq = if BLOCKS[*b].contains("STRUCTURAL") { serde_json::to_string(&k).unwrap() } else { k };
                        block_text(BLOCKS[*b], &kq, if i % 2 == 0 { "1" } else { ":p" })
                    }).collect();
                    format!("UPDATE {target} {} {wh}", acts.join(" "))
                };
                let fam = |name: &str| format!("actions[{tlabel}]/{}/p{pos}/{name}", seq.len());
                o.action_lists += 1;
                // tree path: the sentinel text, when accepted, seeds one injected tree per name
                if let Ok(cmd) = parse_kip(&render(SENTINEL)) {
                    let seed = serde_json::to_value(&cmd).unwrap();
                    for name in ACTION_NAMES {
                        let v = replace_str(&seed, SENTINEL, name);
                        o.inject(&fam(name), &format!("{} (tree, key injected)", render(name)), &v, true);
                    }
                }
                // text path
                for name in ACTION_NAMES {
                    o.text(&fam(name), &render(name), true);
                }
            }
        }
    }
}

// ------------------------------------------------------------------------------ ASSERT
fn asserts(o: &mut Out) {
    let by = [Some(":alice"), Some("?who"), Some("\"actor:1\""), None];
    let mode = [Some("\"stated\""), Some(":m"), None];
    let optional: &[(&str, &[&str])] = &[
        ("stance", &["\"oppose\"", ":s"]),
        ("confidence", &["0.9", ":c", "1"]),
        ("at", &["\"2026-01-01T00:00:00Z\"", ":now"]),
        ("valid", &["{from: \"2026-01-01\", to: :end}", "{from: \"2026-01-01\"}"]),
        ("evidence", &[":msg", "?ev", "[:e1, :e2]", "[\"E-1\", \"E-2\"]", "[?ev, \"E-2\", :e3]", "[]", "\"E-9\"", "{id: \"E\"}"]),
        ("key", &["\"k-1\"", ":k", "42", "true", "null", "[1]", "{a: 1}", "?who"]),
        ("oops", &["1"]),
        ("BY", &[":shadow"]),
    ];
    let tuples = ["(:a, \"p\", :b)", "(?who, :pred, \"lit\")", "(:a, \"says\", (:c, \"q\", :d))", "({type: \"T\", name: \"n\"}, \"p\", 3)"];
    let mut count = 0usize;
    for (ti, tuple) in tuples.iter().enumerate() {
        for b in by {
            for m in mode {
                // every single optional member value, and a few fixed combinations
                let mut member_sets: Vec<Vec<(&str, &str)>> = vec![vec![]];
                for (k, vals) in optional {
                    for v in *vals {
                        member_sets.push(vec![(*k, *v)]);
                    }
                }
                member_sets.push(vec![("stance", "\"oppose\""), ("confidence", "0.5"), ("at", ":now"), ("valid", "{from: :f}"), ("evidence", "[:e1, ?ev]"), ("key", ":k")]);
                member_sets.push(vec![("key", "\"k\""), ("evidence", ":msg"), ("confidence", ":c")]);
                member_sets.push(vec![("confidence", "0.1"), ("confidence", "0.2")]);
                for ms in member_sets {
                    for handle in [None, Some("new")] {
                        for sup in [None, Some(":old"), Some("?prev"), Some("\"A-7\"")] {
                            count += 1;
                            // thin the product deterministically outside the first tuple
                            if ti > 0 && count % 5 != 0 {
                                continue;
                            }
                            let mut members: Vec<String> = Vec::new();
                            // member order varies with the case index
                            let mut all: Vec<(String, String)> = Vec::new();
                            if let Some(b) = b { all.push(("by".into(), b.into())); }
                            if let Some(m) = m { all.push(("mode".into(), m.into())); }
                            for (k, v) in &ms { all.push((k.to_string(), v.to_string())); }
                            if count % 3 == 1 { all.reverse(); }
                            for (k, v) in &all { members.push(format!("{k}: {v}")); }
                            let block = format!("{{ {} }}", members.join(", "));
                            let seq = count % 3;
                            assert_case(o, handle, tuple, &block, sup, seq);
                        }
                    }
                }
            }
        }
    }
}

/// One ASSERT case.  The statement's parts are obtained from the implementation through other
/// statements that share the sub-grammar (ENSURE PROPOSITION for the tuple, SET RETENTION for the
/// member block, SUPERSEDE ASSERTION for the reference); the ASSERT itself is parsed at position
/// `seq` of a MUTATE block whose other clauses claim every handle the case mentions.
fn assert_case(o: &mut Out, handle: Option<&str>, tuple: &str, block: &str, sup: Option<&str>, seq: usize) {
    o.asserts += 1;
    let ensure = match parse_kip(&format!("MUTATE {{ CREATE EVIDENCE ?who {{ }} ENSURE PROPOSITION {tuple} }}")) {
        Ok(Command::Kml(s)) => serde_json::to_value(&s.clauses[1]).unwrap(),
        _ => return,
    };
    let members = match parse_kip(&format!("MUTATE {{ CREATE EVIDENCE ?who {{ }} CREATE EVIDENCE ?ev {{ }} SET RETENTION :t {block} }}")) {
        Ok(Command::Kml(s)) => serde_json::to_value(&s.clauses[2]).unwrap()["SetRetention"]["values"].clone(),
        _ => Value::Null, // the member block itself is refused by the shared assignments grammar
    };
    let superseding = match sup {
        None => Value::Null,
        Some(r) => match parse_kip(&format!("MUTATE {{ CREATE ASSERTION ?prev {{ }} SUPERSEDE ASSERTION {r} BY :x }}")) {
            Ok(Command::Kml(s)) => serde_json::to_value(&s.clauses[1]).unwrap()["SupersedeAssertion"]["target"].clone(),
            _ => return,
        },
    };
    let helpers = ["CREATE EVIDENCE ?who { }", "CREATE EVIDENCE ?ev { }", "CREATE ASSERTION ?prev { }"];
    let pre: Vec<&str> = helpers.iter().take(seq).cloned().collect();
    let post: Vec<&str> = helpers.iter().skip(seq).cloned().collect();
    let h = handle.map(|h| format!("?{h} ")).unwrap_or_default();
    let s = sup.map(|s| format!(" SUPERSEDING {s}")).unwrap_or_default();
    let stmt = format!("ASSERT {h}{tuple} {block}{s}");
    let text = format!("MUTATE {{ {} {stmt} {} }}", pre.join(" "), post.join(" "));
    let obs = match parse_kip(&text) {
        Ok(Command::Kml(st)) => {
            o.assert_accepted += 1;
            let n = st.clauses.len() - 3;
            let own: Vec<Value> = st.clauses[seq..seq + n].iter().map(|c| serde_json::to_value(c).unwrap()).collect();
            // independent reading of the expansion: shape and field names
            let names: Vec<String> = own.iter().filter_map(|c| c.as_object().and_then(|m| m.keys().next().cloned())).collect();
            let expect: Vec<&str> = if sup.is_some() { vec!["EnsureProposition", "CreateAssertion", "SupersedeAssertion"] } else { vec!["EnsureProposition", "CreateAssertion"] };
            if names != expect {
                o.fail("assert-expansion", format!("ASSERT expanded to {names:?}, expected {expect:?}"), &text, None);
            } else {
                let rc = &own[1]["CreateAssertion"];
                let keys: Vec<&str> = rc["set_fields"].as_array().map(|a| a.iter().filter_map(|p| p[0].as_str()).collect()).unwrap_or_default();
                let written: Vec<&str> = members.as_array().map(|a| a.iter().filter_map(|p| p[0].as_str()).collect()).unwrap_or_default();
                let mut want = vec!["proposition", "asserted_by", "mode", "stance"];
                for (m, fld) in [("confidence", "confidence"), ("at", "asserted_at"), ("valid", "valid_time")] {
                    if written.contains(&m) { want.push(fld); }
                }
                if keys != want || rc["set_facets"] != json!([]) {
                    o.fail("assert-expansion", format!("ASSERT assertion carries fields {keys:?}, author wrote {written:?}"), &text, Some(rc));
                }
            }
            Value::Array(own)
        }
        Ok(_) => return,
        Err(_) => Value::Null,
    };
    if members.is_null() && !obs.is_null() {
        o.fail("assert-expansion", "ASSERT accepted a member block the assignments grammar refuses".into(), &text, None);
    }
    if members.is_null() {
        return; // nothing to compare: the block is not an assignments value at all
    }
    if by_or_mode_missing(&members) && !obs.is_null() {
        o.fail("assert-expansion", "ASSERT accepted without by or without mode".into(), &text, None);
    }
    let line = json!({"kind": "assert", "src": text, "seq": seq, "handle": handle, "ensure": ensure["EnsureProposition"],
                      "members": members, "superseding": superseding, "obs": obs});
    writeln!(o.w, "{line}").unwrap();
}

fn by_or_mode_missing(members: &Value) -> bool {
    let keys: Vec<&str> = members.as_array().map(|a| a.iter().filter_map(|p| p[0].as_str()).collect()).unwrap_or_default();
    !keys.contains(&"by") || !keys.contains(&"mode")
}

// ------------------------------------------------------------------------------ main
fn c16(args: &[String]) {
    let out = arg_value(args, "--out").expect("--out");
    let n_plans: usize = arg_value(args, "--plans").and_then(|s| s.parse().ok()).unwrap_or(1000);
    let n_mut: usize = arg_value(args, "--mutations").and_then(|s| s.parse().ok()).unwrap_or(2000);
    let mut rng = Rng::from_env();
    let mut o = Out {
        w: std::io::BufWriter::new(std::fs::File::create(&out).expect("create out")),
        seen: BTreeSet::new(), trees: 0, accepted: BTreeMap::new(), rejected: BTreeMap::new(), failures: Vec::new(), failure_classes: BTreeMap::new(),
        oracle_failures: 0, texts: 0, text_accepted: 0, text_errors: BTreeMap::new(), families: BTreeMap::new(),
        inject_total: 0, asserts: 0, assert_accepted: 0, graphs: 0, action_lists: 0,
    };
    std::panic::set_hook(Box::new(|_| {}));
    let mut seeds: Vec<(String, Value)> = Vec::new();
    matrix(&mut o, &mut seeds);
    selections(&mut o);
    guards(&mut o);
    injected(&mut o, &seeds);
    handle_graphs(&mut o);
    action_lists(&mut o);
    plans(&mut o, &mut rng, n_plans);
    let pool: Vec<Value> = seeds.iter().map(|(_, v)| v.clone()).collect();
    mutate_trees(&mut o, &mut rng, &pool, n_mut);
    asserts(&mut o);
    let summary = json!({
        "kind": "summary",
        "texts": o.texts, "text_accepted": o.text_accepted, "text_errors": o.text_errors,
        "injected": o.inject_total, "trees_written": o.trees,
        "accepted": o.accepted, "rejected": o.rejected,
        "families": o.families.len(), "seeds": seeds.len(),
        "asserts": o.asserts, "assert_accepted": o.assert_accepted, "graph_plans": o.graphs, "action_lists": o.action_lists,
        "oracle_failures": o.oracle_failures, "failure_classes": o.failure_classes, "failures": o.failures,
        "evaluations": o.texts + o.inject_total + o.asserts,
    });
    writeln!(o.w, "{summary}").unwrap();
    o.w.flush().unwrap();
}

fn probe() {
    let mut s = String::new();
    std::io::stdin().read_to_string(&mut s).unwrap();
    for line in s.lines() {
        if line.trim().is_empty() {
            continue;
        }
        match parse_kip(line) {
            Ok(c) => {
                let v = serde_json::to_value(&c).unwrap();
                let fs = oracle::findings(&v);
                println!("OK   {line}\n     {v}\n     oracle: {fs:?}");
            }
            Err(e) => println!("ERR  {line}\n     {:?} {}", e.code, e.message.lines().next().unwrap_or("")),
        }
    }
}

fn main() {
    let args: Vec<String> = std::env::args().collect();
    match args.get(1).map(|s| s.as_str()) {
        Some("c16") => c16(&args),
        Some("probe") => probe(),
        _ => eprintln!("usage: h_kip c16 --out FILE | probe"),
    }
}
