use std::io::Read;
fn main() {
    let args: Vec<String> = std::env::args().collect();
    if args.get(1).map(|s| s.as_str()) == Some("probe") {
        let mut s = String::new();
        std::io::stdin().read_to_string(&mut s).unwrap();
        for line in s.lines() {
            if line.trim().is_empty() { continue; }
            match anda_kip::parse_kip(line) {
                Ok(c) => println!("OK   {}\n     {}", line, serde_json::to_string(&c).unwrap()),
                Err(e) => println!("ERR  {}\n     {:?} {}", line, e.code, e.message.lines().next().unwrap_or("")),
            }
        }
    }
}
