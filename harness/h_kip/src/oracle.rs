//! Direct oracle for C16: an independent reading of the property over the serde JSON of an
//! accepted `anda_kip::Command`.  It does not call any function of the crate under test and
//! does not share its constants: the sets below are the ones the property names.
use serde_json::Value;
use std::collections::BTreeSet;

pub const ENGINE_OWNED: &[&str] = &["_system", "governance", "space_id", "space_seq"];
pub const ASSERTION_PAYLOAD: &[&str] = &[
    "proposition_id", "proposition", "asserted_by", "stance", "mode", "confidence", "asserted_at",
    "valid_time", "evidence", "evidence_refs",
];
pub const EVIDENCE_PAYLOAD: &[&str] = &["evidence_class", "payload", "content_digest", "media_type", "observed_at"];
pub const PROPOSITION_PAYLOAD: &[&str] = &["subject", "predicate", "object"];

#[derive(Debug, Clone)]
pub struct Finding {
    pub class: &'static str,
    pub what: String,
}

fn f(class: &'static str, what: String) -> Finding {
    Finding { class, what }
}

/// every value stored under `key` anywhere below `v`
fn find_key<'a>(v: &'a Value, key: &str, out: &mut Vec<&'a Value>) {
    match v {
        Value::Object(m) => {
            for (k, x) in m {
                if k == key {
                    out.push(x);
                }
                find_key(x, key, out);
            }
        }
        Value::Array(a) => a.iter().for_each(|x| find_key(x, key, out)),
        _ => {}
    }
}

fn has_key(v: &Value, key: &str) -> bool {
    let mut o = Vec::new();
    find_key(v, key, &mut o);
    !o.is_empty()
}

fn pair_keys(v: &Value, out: &mut Vec<String>) {
    if let Some(a) = v.as_array() {
        for p in a {
            if let Some(k) = p.get(0).and_then(|k| k.as_str()) {
                out.push(k.to_string());
            }
        }
    }
}

fn str_items(v: &Value, out: &mut Vec<String>) {
    if let Some(a) = v.as_array() {
        for p in a {
            if let Some(k) = p.as_str() {
                out.push(k.to_string());
            }
        }
    }
}

/// keys written or removed by one clause body (every FIELDS / ATTRIBUTES / FACET / RETENTION
/// block and every UNSET list), and separately the keys of SET FIELDS of an UPDATE
fn written_keys(tag: &str, body: &Value) -> (Vec<String>, Vec<String>, bool) {
    let mut all = Vec::new();
    let mut set_fields = Vec::new();
    let mut structural = false;
    let block = |b: &Value, all: &mut Vec<String>| {
        for k in ["set_fields", "set_attributes", "values"] {
            if let Some(x) = b.get(k) {
                pair_keys(x, all);
            }
        }
        if let Some(fs) = b.get("set_facets").and_then(|x| x.as_array()) {
            for fa in fs {
                if let Some(x) = fa.get("values") {
                    pair_keys(x, all);
                }
            }
        }
        if let Some(x) = b.get("unset_attributes") {
            str_items(x, all);
        }
        if let Some(fs) = b.get("unset_facets").and_then(|x| x.as_array()) {
            for fu in fs {
                if let Some(x) = fu.get("fields") {
                    str_items(x, all);
                }
            }
        }
    };
    block(body, &mut all);
    if tag == "Update" {
        if let Some(acts) = body.get("actions").and_then(|x| x.as_array()) {
            for a in acts {
                if let Some(x) = a.get("SetFields") {
                    pair_keys(x, &mut all);
                    pair_keys(x, &mut set_fields);
                }
                if let Some(x) = a.get("SetAttributes") {
                    pair_keys(x, &mut all);
                }
                if let Some(x) = a.get("SetFacet").and_then(|x| x.get("values")) {
                    pair_keys(x, &mut all);
                }
                if let Some(x) = a.get("UnsetAttributes") {
                    str_items(x, &mut all);
                }
                if let Some(x) = a.get("UnsetFacet").and_then(|x| x.get("fields")) {
                    str_items(x, &mut all);
                }
                if a.get("SetStructural").is_some() || a.get("UnsetStructural").is_some() {
                    structural = true;
                }
            }
        }
    }
    (all, set_fields, structural)
}

/// (kind, variable) for every typed pattern at any depth of a WHERE block
fn typings(ws: &Value, out: &mut Vec<(String, String)>) {
    if let Some(a) = ws.as_array() {
        for c in a {
            if let Some(m) = c.as_object() {
                for (tag, b) in m {
                    match tag.as_str() {
                        "Concept" | "Assertion" | "Evidence" | "Activity" | "Proposition" => {
                            if let Some(v) = b.get("variable").and_then(|v| v.as_str()) {
                                out.push((tag.clone(), v.to_string()));
                            }
                        }
                        "Not" | "Optional" | "Union" => typings(b, out),
                        _ => {}
                    }
                }
            }
        }
    }
}

/// variables a WHERE block binds: pattern heads and `{"Variable": "x"}` terms / match values
fn where_vars(ws: &Value, out: &mut BTreeSet<String>) {
    let mut heads = Vec::new();
    find_key(ws, "variable", &mut heads);
    for h in heads {
        if let Some(s) = h.as_str() {
            out.insert(s.to_string());
        }
    }
    let mut vs = Vec::new();
    find_key(ws, "Variable", &mut vs);
    for v in vs {
        if let Some(s) = v.as_str() {
            out.insert(s.to_string());
        }
    }
}

fn exact_selection(what: &str, ws: &Value, out: &mut Vec<Finding>) {
    if has_key(ws, "Belief") || has_key(ws, "BeliefSlot") {
        out.push(f("belief-or-path-selector", format!("{what}: BELIEF pattern in a mutation/export selection")));
    }
    if has_key(ws, "Path") {
        out.push(f("belief-or-path-selector", format!("{what}: raw predicate path in a mutation/export selection")));
    }
}

fn clause_parts(c: &Value) -> Option<(&str, &Value)> {
    let m = c.as_object()?;
    let (k, v) = m.iter().next()?;
    Some((k.as_str(), v))
}

/// Findings for one accepted command (empty = the command is safe as the property reads).
pub fn findings(cmd: &Value) -> Vec<Finding> {
    let mut out = Vec::new();
    if let Some(exp) = cmd.get("Meta").and_then(|m| m.get("ExportCapsule")) {
        if let Some(ws) = exp.get("where_clauses") {
            exact_selection("EXPORT CAPSULE", ws, &mut out);
        }
        return out;
    }
    let Some(kml) = cmd.get("Kml") else { return out };
    let empty = Vec::new();
    let clauses = kml.get("clauses").and_then(|c| c.as_array()).unwrap_or(&empty);

    // handles claimed by the plan
    let mut claimed: Vec<String> = Vec::new();
    for c in clauses {
        if let Some((tag, b)) = clause_parts(c) {
            if matches!(tag, "CreateConcept" | "UpsertConcept" | "CreateEvidence" | "CreateAssertion" | "CreateActivity" | "EnsureProposition") {
                if let Some(h) = b.get("handle").and_then(|h| h.as_str()) {
                    claimed.push(h.to_string());
                }
            }
        }
    }
    let claimed_set: BTreeSet<String> = claimed.iter().cloned().collect();
    if claimed_set.len() != claimed.len() {
        out.push(f("handle-duplicate", format!("a handle is claimed by two clauses: {claimed:?}")));
    }

    for c in clauses {
        let Some((tag, b)) = clause_parts(c) else { continue };
        let (all, set_fields, structural) = written_keys(tag, b);
        for k in &all {
            if ENGINE_OWNED.contains(&k.as_str()) {
                out.push(f("engine-owned-write", format!("{tag} writes or unsets engine-owned field {k:?}")));
            }
        }
        let ws = b.get("where_clauses").filter(|w| !w.is_null());
        if let Some(ws) = ws {
            exact_selection(tag, ws, &mut out);
        }
        match tag {
            "Update" => {
                if let (Some(x), Some(ws)) = (b.get("target").and_then(|t| t.get("Handle")).and_then(|h| h.as_str()), ws) {
                    let mut ts = Vec::new();
                    typings(ws, &mut ts);
                    for (kind, var) in ts {
                        if var != x {
                            continue;
                        }
                        let payload: &[&str] = match kind.as_str() {
                            "Assertion" => ASSERTION_PAYLOAD,
                            "Evidence" => EVIDENCE_PAYLOAD,
                            "Proposition" => PROPOSITION_PAYLOAD,
                            _ => &[],
                        };
                        for k in &set_fields {
                            if payload.contains(&k.as_str()) {
                                out.push(f("payload-rewrite", format!("UPDATE ?{x} typed {kind} by its WHERE assigns immutable payload field {k:?}")));
                            }
                        }
                        if structural && kind != "Concept" {
                            out.push(f("structural-on-record", format!("UPDATE ?{x} typed {kind} by its WHERE carries a structural action")));
                        }
                    }
                }
            }
            "UpsertConcept" => {
                let m = b.get("match").filter(|m| !m.is_null());
                let stable = m.is_some_and(|m| {
                    ["id", "key"].iter().any(|fld| m.get(*fld).is_some_and(|v| v.get("Literal").is_some() || v.get("Param").is_some()))
                });
                if !stable {
                    out.push(f("upsert-unstable-identity", "UPSERT CONCEPT without an id/key literal-or-parameter selector".to_string()));
                }
                if let Some(m) = m {
                    exact_selection("UPSERT MATCH", m, &mut out);
                }
            }
            "EnsureProposition" => {
                if b.get("predicate").is_some_and(|p| p.get("Variable").is_some()) {
                    out.push(f("ensure-from-nonstructure", "ENSURE PROPOSITION with a ?variable predicate".to_string()));
                }
                if b.get("subject").is_some_and(|p| p.get("Literal").is_some()) {
                    out.push(f("ensure-from-nonstructure", "ENSURE PROPOSITION with a literal subject".to_string()));
                }
                for side in ["subject", "object"] {
                    if let Some(t) = b.get(side) {
                        exact_selection("ENSURE PROPOSITION endpoint", t, &mut out);
                    }
                }
            }
            "Purge" => {
                if b.get("confirm").and_then(|c| c.as_str()) != Some("PURGE") {
                    out.push(f("purge-unconfirmed", format!("PURGE confirmed with {:?}", b.get("confirm"))));
                }
            }
            _ => {}
        }

        // handle references: every {"Handle": "x"} outside the WHERE block, and the ?variable
        // endpoints of an ENSURE PROPOSITION tuple
        let mut body = b.clone();
        if let Some(o) = body.as_object_mut() {
            o.remove("where_clauses");
            o.remove("handle");
        }
        let mut refs: Vec<String> = Vec::new();
        let mut hs = Vec::new();
        find_key(&body, "Handle", &mut hs);
        for h in hs {
            if let Some(s) = h.as_str() {
                refs.push(s.to_string());
            }
        }
        if tag == "EnsureProposition" {
            for side in ["subject", "object"] {
                if let Some(t) = b.get(side) {
                    let mut vs = Vec::new();
                    find_key(t, "Variable", &mut vs);
                    for v in vs {
                        if let Some(s) = v.as_str() {
                            refs.push(s.to_string());
                        }
                    }
                }
            }
        }
        let mut bound = claimed_set.clone();
        if let Some(ws) = ws {
            where_vars(ws, &mut bound);
        }
        for r in refs {
            if !bound.contains(&r) {
                out.push(f("handle-unbound", format!("{tag} refers to ?{r}, which no clause claims and its WHERE does not bind")));
            }
        }
    }
    out
}
