//! The direct oracles: an independent reading of the property on the implementation.
use anda_kip::{Command, KipError, KipErrorCode, MAX_KIP_INPUT_LEN, MAX_KIP_NESTING_DEPTH};
use serde_json::{Value, json};
use std::panic::{AssertUnwindSafe, catch_unwind};

#[derive(Clone, Copy, PartialEq, Eq, Debug)]
pub enum Bud { Ok, TooLong, TooDeep }
impl Bud {
    pub fn name(self) -> &'static str { match self { Bud::Ok => "BOk", Bud::TooLong => "BTooLong", Bud::TooDeep => "BTooDeep" } }
}

/// Lexical reading of the limits, written with lookahead (not the flag machine of the source):
/// returns (expected class, maximal bracket depth outside strings and comments).
pub fn expected_budget(s: &str) -> (Bud, usize) {
    let cs: Vec<char> = s.chars().collect();
    let mut stack: Vec<char> = Vec::new();
    let mut maxd = 0usize;
    let mut i = 0;
    while i < cs.len() {
        let c = cs[i];
        if c == '/' && i + 1 < cs.len() && cs[i + 1] == '/' {
            while i < cs.len() && cs[i] != '\n' { i += 1; }
            i += 1;
            continue;
        }
        if c == '"' {
            i += 1;
            while i < cs.len() && cs[i] != '"' { if cs[i] == '\\' { i += 1; } i += 1; }
            i += 1;
            continue;
        }
        match c {
            '(' | '[' | '{' => { stack.push(c); maxd = maxd.max(stack.len()); }
            ')' => { if stack.last() == Some(&'(') { stack.pop(); } }
            ']' => { if stack.last() == Some(&'[') { stack.pop(); } }
            '}' => { if stack.last() == Some(&'{') { stack.pop(); } }
            _ => {}
        }
        i += 1;
    }
    let b = if s.len() > MAX_KIP_INPUT_LEN { Bud::TooLong } else if maxd > MAX_KIP_NESTING_DEPTH { Bud::TooDeep } else { Bud::Ok };
    (b, maxd)
}

/// The text with the content of every line comment removed (`// ...` up to, not including, the LF that
/// ends it; comments are found by the same lookahead reading as above: outside strings only).
pub fn neutral_comments(s: &str) -> String {
    let cs: Vec<char> = s.chars().collect();
    let mut out = String::with_capacity(s.len());
    let mut i = 0;
    while i < cs.len() {
        let c = cs[i];
        if c == '/' && i + 1 < cs.len() && cs[i + 1] == '/' {
            out.push_str("//");
            while i < cs.len() && cs[i] != '\n' { i += 1; }
            continue;
        }
        if c == '"' {
            out.push(c);
            i += 1;
            while i < cs.len() && cs[i] != '"' { if cs[i] == '\\' && i + 1 < cs.len() { out.push(cs[i]); i += 1; } out.push(cs[i]); i += 1; }
            if i < cs.len() { out.push('"'); i += 1; }
            continue;
        }
        out.push(c);
        i += 1;
    }
    out
}

pub fn observed_budget<T>(r: &Result<T, KipError>) -> Bud {
    match r {
        Err(e) if e.code == KipErrorCode::ResourceExhausted => {
            if e.message.contains("length") { Bud::TooLong } else if e.message.contains("nesting") { Bud::TooDeep } else { Bud::Ok }
        }
        _ => Bud::Ok,
    }
}

fn guard<T>(f: impl FnOnce() -> T) -> Result<T, String> {
    catch_unwind(AssertUnwindSafe(f)).map_err(|e| {
        if let Some(s) = e.downcast_ref::<&str>() { s.to_string() } else if let Some(s) = e.downcast_ref::<String>() { s.clone() } else { "panic".into() }
    })
}

pub fn fnv(s: &str) -> String {
    let mut h: u64 = 0xcbf29ce484222325;
    for b in s.bytes() { h ^= b as u64; h = h.wrapping_mul(0x100000001b3); }
    format!("{h:016x}")
}

fn variants(v: &Value, out: &mut std::collections::BTreeSet<String>) {
    match v {
        Value::Object(m) => for (k, x) in m { if k.chars().next().is_some_and(|c| c.is_ascii_uppercase()) { out.insert(k.clone()); } variants(x, out); },
        Value::Array(a) => for x in a { variants(x, out); },
        Value::String(s) => { if s.chars().next().is_some_and(|c| c.is_ascii_uppercase()) && s.len() < 24 && s.chars().all(|c| c.is_ascii_alphanumeric()) { out.insert(format!("={s}")); } }
        _ => {}
    }
}

pub struct Eval {
    pub fails: Vec<Value>,
    pub cls: String,          // Kql | Kml | Meta | err code
    pub bud: Bud,             // observed through parse_kip
    pub exp: Bud,
    pub depth: usize,
    pub hash: String,         // of the tree (accepted) or empty
    pub vars: Vec<String>,
    pub evals: usize,
    pub cmd: Option<Command>,
    pub code: Option<String>,
}

fn fail(class: &str, what: &str, input: &str, detail: Value) -> Value {
    let short: String = input.chars().take(600).collect();
    json!({"class": class, "what": what, "input": short, "input_rle": rle(input), "bytes": input.len(), "detail": detail})
}

pub fn rle(s: &str) -> Value {
    let mut out: Vec<Value> = Vec::new();
    let mut it = s.chars().peekable();
    while let Some(c) = it.next() {
        let mut n = 1u64;
        while it.peek() == Some(&c) { it.next(); n += 1; }
        out.push(json!({"t": [{"N": c as u32}, {"N": n}]}));
    }
    Value::Array(out)
}
pub fn rle_runs(s: &str) -> usize {
    let mut n = 0; let mut prev = None;
    for c in s.chars() { if Some(c) != prev { n += 1; prev = Some(c); } }
    n
}

/// Full evaluation of one input. `with_json`: also parse_json (budget stream). `light`: only
/// panic / budget / classification (used for variants of a group, the group compares trees).
pub fn evaluate(s: &str, with_json: bool) -> Eval {
    let mut fails = Vec::new();
    let mut evals = 0usize;
    let (exp, depth) = expected_budget(s);
    macro_rules! call { ($name:expr, $f:expr) => {{ evals += 1; match guard(|| $f) { Ok(r) => Some(r), Err(m) => { fails.push(fail("panic", &format!("{} panicked", $name), s, json!(m))); None } } }}; }
    let kip = call!("parse_kip", anda_kip::parse_kip(s));
    let kql = call!("parse_kql", anda_kip::parse_kql(s));
    let kml = call!("parse_kml", anda_kip::parse_kml(s));
    let meta = call!("parse_meta", anda_kip::parse_meta(s));
    let js = if with_json { call!("parse_json", anda_kip::parse_json(s)) } else { None };
    let mut bud = Bud::Ok;
    // 7. budget: every entry point refuses exactly the over-limit inputs, with the right reason
    {
        let mut obs: Vec<(&str, Bud)> = Vec::new();
        if let Some(r) = &kip { bud = observed_budget(r); obs.push(("parse_kip", bud)); }
        if let Some(r) = &kql { obs.push(("parse_kql", observed_budget(r))); }
        if let Some(r) = &kml { obs.push(("parse_kml", observed_budget(r))); }
        if let Some(r) = &meta { obs.push(("parse_meta", observed_budget(r))); }
        if let Some(r) = &js { obs.push(("parse_json", observed_budget(r))); }
        for (n, o) in obs {
            if o != exp {
                fails.push(fail("budget", &format!("{n} answered {} but the limits say {} (depth {depth}, {} bytes)", o.name(), exp.name(), s.len()), s, json!({"entry": n})));
            }
        }
    }
    // 8. comment content is not text: emptying every comment changes neither the tree nor the kind of refusal
    if s.len() <= MAX_KIP_INPUT_LEN {
        let neutral = neutral_comments(s);
        if neutral != s {
            evals += 1;
            if let (Some(a), Ok(b)) = (&kip, guard(|| anda_kip::parse_kip(&neutral))) {
                let same = match (a, &b) { (Ok(x), Ok(y)) => x == y, (Err(x), Err(y)) => x.code == y.code, _ => false };
                if !same {
                    fails.push(fail("comment-content", "parse_kip depends on the content of a line comment (same text with the comments emptied parses differently)", s,
                        json!({"with_comments": a.as_ref().map(|_| "accepted").map_err(|e| e.message.chars().take(200).collect::<String>()),
                               "comments_emptied": b.as_ref().map(|_| "accepted").map_err(|e| e.message.chars().take(200).collect::<String>()), "neutral": neutral.chars().take(400).collect::<String>()})));
                }
            }
            if let Some(a) = &js {
                evals += 1;
                if let Ok(b) = guard(|| anda_kip::parse_json(&neutral)) {
                    let same = match (a, &b) { (Ok(x), Ok(y)) => x == y, (Err(x), Err(y)) => x.code == y.code, _ => false };
                    if !same {
                        fails.push(fail("comment-content", "parse_json depends on the content of a line comment", s,
                            json!({"with_comments": a.is_ok(), "comments_emptied": b.is_ok(), "neutral": neutral.chars().take(400).collect::<String>()})));
                    }
                }
            }
        }
    }
    let mut cls = String::new();
    let mut hash = String::new();
    let mut vars = Vec::new();
    let mut cmd_out = None;
    let mut code = None;
    if let (Some(kip), Some(kql), Some(kml), Some(meta)) = (&kip, &kql, &kml, &meta) {
        // 2. classification
        let oks = [kql.is_ok(), kml.is_ok(), meta.is_ok()];
        let n_ok = oks.iter().filter(|b| **b).count();
        if n_ok > 1 { fails.push(fail("classification", "more than one of parse_kql/parse_kml/parse_meta accepts", s, json!(oks))); }
        match kip {
            Ok(Command::Kql(q)) => { cls = "Kql".into(); if kql.as_ref().ok() != Some(q) || n_ok != 1 { fails.push(fail("classification", "parse_kip says KQL; parse_kql disagrees or another parser accepts", s, json!(oks))); } }
            Ok(Command::Kml(q)) => { cls = "Kml".into(); if kml.as_ref().ok() != Some(q) || n_ok != 1 { fails.push(fail("classification", "parse_kip says KML; parse_kml disagrees or another parser accepts", s, json!(oks))); } }
            Ok(Command::Meta(q)) => { cls = "Meta".into(); if meta.as_ref().ok() != Some(q) || n_ok != 1 { fails.push(fail("classification", "parse_kip says META; parse_meta disagrees or another parser accepts", s, json!(oks))); } }
            Err(e) => {
                cls = format!("{:?}", e.code); code = Some(cls.clone());
                if n_ok != 0 { fails.push(fail("classification", "parse_kip rejects what a specific parser accepts", s, json!({"oks": oks, "kip_err": e.message}))); }
            }
        }
        // 3. determinism
        evals += 1;
        if let Ok(again) = guard(|| anda_kip::parse_kip(s)) {
            if &again != kip { fails.push(fail("nondeterminism", "parse_kip gave two different results for the same text", s, Value::Null)); }
        }
        if let Ok(cmd) = kip {
            // 4. re-validation
            evals += 1;
            match guard(|| anda_kip::validate_command(cmd)) {
                Ok(Ok(())) => {}
                Ok(Err(e)) => fails.push(fail("revalidation", "validate_command rejects the parser's own output", s, json!(e.message))),
                Err(m) => fails.push(fail("panic", "validate_command panicked", s, json!(m))),
            }
            // 5. serde round trip
            evals += 1;
            match guard(|| {
                let text = serde_json::to_string(cmd).map_err(|e| e.to_string())?;
                let back: Command = serde_json::from_str(&text).map_err(|e| format!("from_str: {e}"))?;
                let val = serde_json::to_value(cmd).map_err(|e| e.to_string())?;
                let back2: Command = serde_json::from_value(val.clone()).map_err(|e| format!("from_value: {e}"))?;
                Ok::<_, String>((text, back, back2, val))
            }) {
                Ok(Ok((text, back, back2, val))) => {
                    if &back != cmd || &back2 != cmd { fails.push(fail("serde-roundtrip", "JSON encode/decode changed the tree", s, json!(text.chars().take(800).collect::<String>()))); }
                    hash = fnv(&text);
                    let mut set = std::collections::BTreeSet::new();
                    variants(&val, &mut set);
                    vars = set.into_iter().collect();
                }
                Ok(Err(m)) => {
                    // serde_json's fixed recursion limit (128 levels) is a class of its own
                    let class = if m.contains("recursion limit") { "serde-depth-limit" } else { "serde-roundtrip" };
                    fails.push(fail(class, "the accepted tree does not survive JSON encode/decode", s, json!({"error": m, "bracket_depth": depth})));
                    if let Ok(val) = serde_json::to_value(cmd) {
                        hash = fnv(&val.to_string());
                        let mut set = std::collections::BTreeSet::new();
                        variants(&val, &mut set);
                        vars = set.into_iter().collect();
                    }
                }
                Err(m) => fails.push(fail("panic", "serde panicked", s, json!(m))),
            }
            // 6. whole input: trailing garbage is refused, trailing / leading comments are not
            evals += 3;
            let t1 = format!("{s}\n@");
            if let Ok(Ok(_)) = guard(|| anda_kip::parse_kip(&t1)) { fails.push(fail("trailing-input", "accepted with a trailing `@`", &t1, Value::Null)); }
            let t2 = format!("{s} // trailing ) }} \" comment");
            let t3 = format!("// leading ( \" {{\n{s}");
            for t in [&t2, &t3] {
                if t.len() > MAX_KIP_INPUT_LEN { continue; }
                match guard(|| anda_kip::parse_kip(t)) {
                    Ok(Ok(c2)) if &c2 == cmd => {}
                    Ok(other) => fails.push(fail("metamorphic-trivia", "a leading/trailing comment changed the result", t, json!(other.err().map(|e| e.message)))),
                    Err(m) => fails.push(fail("panic", "parse_kip panicked", t, json!(m))),
                }
            }
            cmd_out = Some(cmd.clone());
        }
    }
    Eval { fails, cls, bud, exp, depth, hash, vars, evals, cmd: cmd_out, code }
}

/// Metamorphic group: every variant must give what the base gives.
pub fn compare_group(base: &str, base_eval: &Eval, variant: &str, kind: &str) -> (Vec<Value>, usize) {
    let mut fails = Vec::new();
    let r = guard(|| anda_kip::parse_kip(variant));
    match r {
        Err(m) => fails.push(fail("panic", "parse_kip panicked on a variant", variant, json!(m))),
        Ok(r) => {
            let same = match (&base_eval.cmd, &r) {
                (Some(a), Ok(b)) => a == b,
                (None, Err(e)) => Some(format!("{:?}", e.code)) == base_eval.code,
                _ => false,
            };
            if !same {
                let class = match kind { "case" => "metamorphic-case", "uws" => "whitespace-kind", _ => "metamorphic-trivia" };
                fails.push(json!({"class": class, "what": format!("variant ({kind}) parses differently from the base text"),
                    "input": variant.chars().take(600).collect::<String>(), "input_rle": rle(variant), "base": base.chars().take(600).collect::<String>(),
                    "base_rle": rle(base),
                    "detail": {"base": base_eval.cls, "variant": match &r { Ok(_) => "accepted (different tree or base rejected)".to_string(), Err(e) => format!("{:?}: {}", e.code, e.message.chars().take(300).collect::<String>()) }}}));
            }
        }
    }
    (fails, 1)
}
