//! Input generators: grammar-derived KQL / KML / META sentences as token lists (so that case and
//! trivia variants can be rendered from the same tokens), token-level mutants, directed
//! recursion probes, the budget stream and arbitrary Unicode.
use h_common::Rng;

#[derive(Clone, Debug)]
pub struct Tk {
    pub s: String,
    pub kw: bool,    // protocol keyword or registered function name: case-insensitive
    pub tight: bool, // no trivia may follow (the grammar glues the next token)
}

const STRINGS: &[&str] = &[
    "\"Drug\"", "\"x\"", "\"\"", "\"a b\"", "\"say \\\"hi\\\"\"", "\"back\\\\slash\"", "\"l1\\nl2\"", "\"caf\u{e9}\"", "\"\u{1F980}\"",
    "\"( [ { // } ] )\"", "\"// not a comment\"", "\"\\u0041\\ud83d\\ude00\"", "\"tab\\tsep\"", "\"PURGE\"", "\"1\"", "\"?v\"", "\":p\"",
];
const NUMBERS: &[&str] = &["0", "1", "42", "-7", "3.14", "1e3", "-0.5", "2.5E-3", "18446744073709551615", "-9223372036854775808", "100"];
const IDENTS: &[&str] = &["type", "name", "key", "id", "by", "mode", "status", "risk_level", "a", "b1", "_x", "FIND", "where", "Limit", "attributes", "null_", "order"];
const COMMENTS: &[&str] = &[" c\r ( [ \" {", "\rPROTOCOL //", " x\u{2028}} TOMBSTONE :other {", " y\u{2029}[[[[ \"", " z\u{85}FIND ( ?q )", " v\u{b}]]]] )", " f\u{c}\" unbalanced",
    " cr\r[[[[[[[[[[[[[[[[[[[[[[[[[[[[[[[[[[[[[[[[[[[[[[[[[[[[[[[[[[[[[[[[[[[[[[", " \r", "\r// again", " a\u{a0}b\u{3000}LIMIT 1", "", " c", " \" unbalanced quote", " ) ] } ( [ {", " // nested // slashes", " FIND WHERE MUTATE", " caf\u{e9} \u{1F980}", " \\", " \\\" \"\"", " {{{{{{{{{{{{{{{{{{{{{{{{{{{{{{{{{{{{{{{{{{{{{{{{{{{{{{{{{{{{{{{{{{{{{{"];

struct G<'a> {
    r: &'a mut Rng,
    out: Vec<Tk>,
    hn: usize,
    created: Vec<String>,
}

impl<'a> G<'a> {
    fn new(r: &'a mut Rng) -> Self { G { r, out: Vec::new(), hn: 0, created: Vec::new() } }
    fn t(&mut self, s: &str) { self.out.push(Tk { s: s.to_string(), kw: false, tight: false }); }
    fn kw(&mut self, s: &str) { for w in s.split(' ') { self.out.push(Tk { s: w.to_string(), kw: true, tight: false }); } }
    fn tight(&mut self) { if let Some(l) = self.out.last_mut() { l.tight = true; } }
    fn ch(&mut self, n: u64, d: u64) -> bool { self.r.chance(n, d) }
    fn pick(&mut self, xs: &[&str]) -> String { xs[self.r.below(xs.len() as u64) as usize].to_string() }
    fn string(&mut self) { let s = self.pick(STRINGS); self.t(&s); }
    fn number(&mut self) { let s = self.pick(NUMBERS); self.t(&s); }

    fn param(&mut self) { let s = format!(":{}", self.pick(&["p", "alice", "now", "page", "_1", "dark_mode"])); self.t(&s); }
    fn var_name(&mut self) -> String { format!("?{}", self.pick(&["x", "y", "drug", "a", "p", "e", "s1", "_v"])) }
    fn var(&mut self) { let s = self.var_name(); self.t(&s); }
    fn fresh_handle(&mut self) -> String { self.hn += 1; format!("?h{}", self.hn) }
    fn literal(&mut self) {
        match self.r.below(6) { 0 | 1 => self.string(), 2 | 3 => self.number(), 4 => { let s = self.pick(&["true", "false"]); self.t(&s) } _ => self.t("null") }
    }
    fn scalar(&mut self) { if self.ch(1, 4) { self.param() } else { self.literal() } }
    fn symbol(&mut self) { if self.ch(1, 5) { self.param() } else { self.string() } }
    fn field(&mut self, i: usize) {
        // unique keys inside one block: index-suffixed
        if self.ch(1, 5) { self.t(&format!("\"k {i}\"")) } else { let b = self.pick(IDENTS); self.t(&format!("{b}{i}")) }
    }
    fn dotpath_of(&mut self, v: &str) {
        let mut s = v.to_string();
        for _ in 0..self.r.below(4) {
            if self.ch(1, 4) { s.push_str(&format!("[{}]", self.pick(&["\"MnemonicState\"", "\"k\"", "\"a.b\"", "\"]\""]))) } else { s.push('.'); s.push_str(&self.pick(IDENTS)); }
        }
        self.t(&s);
    }
    fn dotpath(&mut self) { let v = self.var_name(); self.dotpath_of(&v); }
    fn comma_list(&mut self, n: usize, trailing_ok: bool, mut f: impl FnMut(&mut Self, usize)) {
        for i in 0..n { if i > 0 { self.t(","); } f(self, i); }
        if trailing_ok && n > 0 && self.ch(1, 6) { self.t(","); }
    }

    // ---- data values (bound_value) --------------------------------------------------------
    fn value(&mut self, d: usize, handles: bool) {
        if d == 0 || self.ch(1, 2) {
            match self.r.below(8) {
                0 => self.param(),
                1 if handles && !self.created.is_empty() => { let h = self.created[self.r.below(self.created.len() as u64) as usize].clone(); self.t(&h) }
                _ => self.literal(),
            }
        } else if self.ch(1, 2) {
            self.t("["); let n = self.r.below(4) as usize; self.comma_list(n, true, |g, _| g.value(d - 1, handles)); self.t("]");
        } else {
            self.t("{"); let n = self.r.below(4) as usize; self.comma_list(n, true, |g, i| { g.field(i); g.t(":"); g.value(d - 1, handles) }); self.t("}");
        }
    }
    fn object(&mut self, d: usize) {
        self.t("{"); let n = self.r.below(4) as usize; self.comma_list(n, true, |g, i| { g.field(i); g.t(":"); g.value(d, false) }); self.t("}");
    }
    fn update_expr(&mut self, d: usize, target: &str) {
        if d == 0 || self.ch(1, 2) {
            match self.r.below(4) { 0 => self.param(), 1 => self.number(), 2 => { self.t("-"); self.tight(); self.t("3") } _ => self.dotpath_of(target) }
        } else {
            let (f, n) = *self.r.pick(&[("ADD", 2usize), ("MUL", 2), ("CLAMP", 3), ("COALESCE", 2), ("add", 2), ("Mul", 2)]);
            self.kw(f); self.t("("); self.comma_list(n, true, |g, _| g.update_expr(d - 1, target)); self.t(")");
        }
    }
    fn assignments(&mut self, d: usize, target: Option<&str>) {
        self.t("{");
        let n = 1 + self.r.below(3) as usize;
        self.comma_list(n, true, |g, i| {
            g.field(i); g.t(":");
            match target { Some(t) if g.ch(1, 3) => g.update_expr(d.min(3) + 1, t), _ => g.value(d, true) }
        });
        self.t("}");
    }

    // ---- patterns ----------------------------------------------------------------------------
    fn matcher(&mut self, d: usize, kql: bool) {
        self.t("{");
        let n = self.r.below(4) as usize;
        self.comma_list(n, true, |g, i| { g.field(i); g.t(":"); g.match_value(d, kql) });
        self.t("}");
    }
    fn match_value(&mut self, d: usize, kql: bool) {
        if d == 0 || self.ch(1, 2) {
            match self.r.below(4) { 0 => self.var(), 1 => self.param(), _ => self.literal() }
        } else {
            match self.r.below(3) {
                0 => { self.t("["); let n = self.r.below(3) as usize; self.comma_list(n, true, |g, _| g.match_value(d - 1, kql)); self.t("]") }
                1 => self.matcher(d - 1, kql),
                _ => self.proposition(d - 1, kql, false),
            }
        }
    }
    fn term(&mut self, d: usize, kql: bool, subject: bool) {
        let k = if d == 0 { self.r.below(3) } else { self.r.below(5) };
        match k {
            0 => self.var(),
            1 => self.param(),
            2 => if subject { self.var() } else { self.literal() },
            3 => self.matcher(d - 1, kql),
            _ => self.proposition(d - 1, kql, false),
        }
    }
    fn pred_atom(&mut self, allow_var: bool) {
        match self.r.below(4) { 0 => self.param(), 1 if allow_var => self.var(), _ => self.string() }
    }
    fn predicate(&mut self, kql: bool, exact_no_var: bool) {
        if !kql { self.pred_atom(!exact_no_var); return; }
        let n = 1 + if self.ch(1, 3) { self.r.below(3) as usize } else { 0 };
        for i in 0..n {
            if i > 0 { self.t("|"); }
            self.pred_atom(true);
            if self.ch(1, 4) {
                self.tight(); self.t("{");
                let lo = self.r.below(3);
                self.t(&lo.to_string());
                match self.r.below(3) { 0 => {} 1 => { self.t(","); } _ => { self.t(","); let hi = lo + self.r.below(4); self.t(&hi.to_string()); } }
                self.t("}");
            }
        }
    }
    fn proposition(&mut self, d: usize, kql: bool, exact_no_var: bool) {
        self.t("(");
        if !exact_no_var && self.ch(1, 6) { self.t("id"); self.t(":"); self.scalar(); }
        else { self.term(d, kql, true); self.t(","); self.predicate(kql, exact_no_var); self.t(","); self.term(d, kql, false); }
        self.t(")");
    }
    fn structural(&mut self, d: usize, kql: bool) {
        self.t("("); self.term(d, kql, false); self.t(","); self.symbol(); self.t(","); self.term(d, kql, false); self.t(")");
    }

    // ---- filters -------------------------------------------------------------------------------
    fn operand(&mut self, d: usize) {
        let k = if d == 0 { self.r.below(3) } else { self.r.below(7) };
        match k {
            0 => self.param(),
            1 => self.dotpath(),
            2 => self.literal(),
            3 => { self.t("["); let n = self.r.below(4) as usize; self.comma_list(n, false, |g, _| g.operand(d - 1)); self.t("]") }
            4 => { self.t("-"); if self.ch(1, 2) { self.dotpath() } else { self.t("("); self.operand(d - 1); self.t(")") } }
            5 => { self.t("{"); let n = self.r.below(3) as usize; self.comma_list(n, true, |g, i| { g.field(i); g.t(":"); g.literal() }); self.t("}") }
            _ => { self.t("("); self.operand(d - 1); self.t(")") }
        }
    }
    fn filter_primary(&mut self, d: usize) {
        match if d == 0 { self.r.below(2) } else { self.r.below(4) } {
            0 => { self.operand(d.min(2)); let op = self.pick(&["==", "!=", "<", ">", "<=", ">="]); self.t(&op); self.operand(d.min(2)) }
            1 => {
                let (f, n) = *self.r.pick(&[("CONTAINS", 2usize), ("STARTS_WITH", 2), ("ENDS_WITH", 2), ("REGEX", 2), ("IN", 2), ("IS_NULL", 1), ("IS_NOT_NULL", 1),
                    ("IS_LITERAL", 1), ("IS_ELEMENT", 1), ("IS_KIND", 2), ("LITERAL_TYPE", 1), ("contains", 2), ("Is_Null", 1)]);
                self.kw(f); self.t("("); self.comma_list(n, true, |g, _| g.operand(d.min(2))); self.t(")")
            }
            2 => { self.t("("); self.filter(d - 1); self.t(")") }
            _ => { self.t("!"); self.filter_primary(d - 1) }
        }
    }
    fn filter(&mut self, d: usize) {
        let n = 1 + if self.ch(1, 3) { self.r.below(3) as usize } else { 0 };
        for i in 0..n {
            if i > 0 { let op = self.pick(&["&&", "||"]); self.t(&op); }
            self.filter_primary(d);
        }
    }

    // ---- WHERE ------------------------------------------------------------------------------------
    fn where_clause(&mut self, d: usize, kql: bool) {
        let k = self.r.below(if kql { 16 } else { 12 });
        match k {
            0 => { self.var(); self.kw("CONCEPT"); self.matcher(d, kql) }
            1 => { self.var(); self.matcher(d, kql) }
            2 => { self.var(); self.kw("ASSERTION"); self.matcher(d, kql) }
            3 => { self.var(); self.kw("EVIDENCE"); self.matcher(d, kql) }
            4 => { self.var(); self.kw("ACTIVITY"); self.matcher(d, kql) }
            5 => { if self.ch(1, 2) { self.var(); } self.kw("STRUCTURAL"); self.structural(d, kql) }
            6 => { if self.ch(1, 2) { self.var(); } self.kw("PROPOSITION"); self.proposition(d, kql, false) }
            7 => { if self.ch(1, 2) { self.var(); } self.proposition(d, kql, false) }
            8 => { self.kw("FILTER"); self.t("("); self.filter(d.min(4)); self.t(")") }
            9 if d > 0 => { self.kw("NOT"); self.where_block(d - 1, kql) }
            10 if d > 0 => { self.kw("OPTIONAL"); self.where_block(d - 1, kql) }
            11 if d > 0 => { self.kw("UNION"); self.where_block(d - 1, kql) }
            12 => { self.var(); self.kw("BELIEF"); self.t("("); self.term(d, true, true); self.t(","); self.pred_atom(true); self.t(","); self.term(d, true, false); self.t(")") }
            13 => { self.var(); self.kw("BELIEF"); self.t("("); if self.ch(1, 2) { self.t("id"); self.t(":"); self.scalar() } else { self.var() } self.t(")") }
            14 => { self.var(); self.kw("BELIEF SLOT"); self.t("("); self.term(d, true, true); self.t(","); self.pred_atom(true); self.t(")") }
            _ => { self.var(); self.kw("CONCEPT"); self.matcher(d, kql) }
        }
    }
    fn where_block(&mut self, d: usize, kql: bool) {
        self.t("{");
        let n = self.r.below(4) as usize + if d == 0 { 1 } else { 0 };
        for _ in 0..n { self.where_clause(d, kql); }
        self.t("}");
    }
    fn as_of(&mut self) { self.kw("AS OF"); let k = self.pick(&["SEQ", "TX", "TIME"]); self.kw(&k); self.scalar(); }
    fn opt_scalar(&mut self, kws: &str, num: u64) { if self.ch(num, 4) { self.kw(kws); self.scalar(); } }

    // ---- KQL -------------------------------------------------------------------------------------
    fn find_expr(&mut self) {
        if self.ch(1, 3) {
            let f = self.pick(&["COUNT", "SUM", "AVG", "MIN", "MAX", "count", "Max"]);
            self.kw(&f); self.t("("); if self.ch(1, 3) { self.kw("DISTINCT"); } self.dotpath(); self.t(")");
        } else { self.dotpath(); }
    }
    fn kql(&mut self, d: usize) {
        self.kw("FIND"); self.t("(");
        let n = 1 + self.r.below(3) as usize;
        self.comma_list(n, false, |g, _| g.find_expr());
        self.t(")"); self.kw("WHERE"); self.where_block(d, true);
        if self.ch(1, 3) { self.as_of(); }
        self.opt_scalar("FOR TIME", 1);
        if self.ch(1, 4) { self.kw("WITH EPISTEMIC"); self.object(d.min(3)); }
        if self.ch(1, 3) {
            self.kw("ORDER BY");
            let n = 1 + self.r.below(2) as usize;
            self.comma_list(n, false, |g, _| { g.find_expr_nodistinct(); if g.ch(1, 2) { let k = g.pick(&["ASC", "DESC"]); g.kw(&k); } });
        }
        self.opt_scalar("LIMIT", 2); self.opt_scalar("CURSOR", 1);
    }
    fn find_expr_nodistinct(&mut self) {
        if self.ch(1, 3) { let f = self.pick(&["COUNT", "SUM", "AVG", "MIN", "MAX"]); self.kw(&f); self.t("("); self.dotpath(); self.t(")"); } else { self.dotpath(); }
    }

    // ---- KML -------------------------------------------------------------------------------------
    fn structural_edges(&mut self, d: usize, opts: bool) {
        self.t("{");
        let n = 1 + self.r.below(2) as usize;
        for _ in 0..n {
            self.t("("); self.symbol(); self.t(","); self.value(d.min(2), true); self.t(")");
            if opts && self.ch(1, 2) { self.object(d.min(2)); }
        }
        self.t("}");
    }
    fn target_ref(&mut self) { if self.ch(1, 2) { self.param() } else { self.string() } }
    fn sel_where(&mut self, d: usize, v: &str, kind: &str) {
        // WHERE block that binds the target handle
        self.kw("WHERE"); self.t("{"); self.t(v); if !kind.is_empty() { self.kw(kind); } self.matcher(d.min(2), false);
        for _ in 0..self.r.below(2) { self.where_clause(d.min(2), false); }
        self.t("}");
    }
    /// a target: `?v` bound by a WHERE, or a parameter / id
    fn target_and_where(&mut self, _d: usize, _kind: &str) -> (Option<String>, bool) {
        if self.ch(1, 2) { let v = format!("?t{}", { self.hn += 1; self.hn }); self.t(&v); (Some(v), true) } else { self.target_ref(); (None, self.ch(1, 3)) }
    }
    fn body_common(&mut self, d: usize, concept: bool, upsert: bool) {
        self.t("{");
        if upsert { self.kw("MATCH"); self.t("{"); let k = self.pick(&["id", "key"]); self.t(&k); self.t(":"); self.scalar(); if self.ch(1, 3) { self.t(","); self.t("name"); self.t(":"); self.string(); } self.t("}"); self.opt_scalar("EXPECT VERSION", 1); }
        if concept && !upsert { if self.ch(3, 4) { self.kw("TYPE"); self.symbol(); } self.opt_scalar("CLIENT KEY", 1); self.opt_scalar("NAME", 2); }
        if !concept { self.opt_scalar("CLIENT KEY", 1); }
        if self.ch(1, 2) { self.kw("SET FIELDS"); self.assignments(d, None); }
        if concept && self.ch(1, 2) { self.kw("SET ATTRIBUTES"); self.assignments(d, None); }
        for _ in 0..self.r.below(2) { self.kw("SET FACET"); self.symbol(); self.assignments(d.min(2), None); }
        if upsert && self.ch(1, 3) { self.kw("UNSET ATTRIBUTES"); self.t("{"); let n = 1 + self.r.below(2) as usize; self.comma_list(n, true, |g, i| g.field(i)); self.t("}"); }
        if upsert && self.ch(1, 4) { self.kw("UNSET FACET"); self.symbol(); self.t("{"); self.field(0); self.t("}"); }
        if self.ch(1, 3) { self.kw("SET STRUCTURAL"); self.structural_edges(d, true); }
        if upsert && self.ch(1, 4) { self.kw("UNSET STRUCTURAL"); self.structural_edges(d, false); }
        self.t("}");
    }
    fn mutation(&mut self, d: usize, in_block: bool) {
        match self.r.below(17) {
            0 | 1 => { self.kw("CREATE CONCEPT"); let h = self.fresh_handle(); self.t(&h); self.body_common(d, true, false); self.created.push(h); }
            2 => { self.kw("UPSERT CONCEPT"); let h = self.fresh_handle(); self.t(&h); self.body_common(d, true, true); self.created.push(h); }
            3 => { self.kw("CREATE"); let k = self.pick(&["EVIDENCE", "ASSERTION", "ACTIVITY"]); self.kw(&k); let h = self.fresh_handle(); self.t(&h); self.body_common(d, false, false); self.created.push(h); }
            4 => { self.kw("ENSURE PROPOSITION"); if self.ch(1, 2) { let h = self.fresh_handle(); self.t(&h); self.created.push(h); } self.proposition(d.min(2), false, true); self.opt_scalar("EXPECT VERSION", 1); }
            5 | 6 => {
                self.kw("ASSERT"); if self.ch(1, 2) { let h = self.fresh_handle(); self.t(&h); self.created.push(h); }
                self.proposition(d.min(2), false, true);
                self.t("{"); self.t("by"); self.t(":"); self.value(0, true); self.t(","); self.t("mode"); self.t(":"); self.string();
                for (k, kind) in [("stance", 0), ("confidence", 1), ("at", 0), ("valid", 2), ("evidence", 3), ("key", 4)] {
                    if self.ch(1, 3) {
                        self.t(","); self.t(k); self.t(":");
                        match kind { 0 => self.string(), 1 => self.number(), 2 => self.value(d.min(2), false), 3 => { self.t("["); self.comma_list(2, true, |g, _| g.value(0, true)); self.t("]") } _ => self.scalar() }
                    }
                }
                if self.ch(1, 5) { self.t(","); }
                self.t("}");
                if self.ch(1, 3) { self.kw("SUPERSEDING"); self.target_ref(); }
            }
            7 | 8 => {
                self.kw("UPDATE"); let (v, need_where) = self.target_and_where(d, "CONCEPT");
                self.opt_scalar("EXPECT VERSION", 1);
                let n = 1 + self.r.below(3);
                for _ in 0..n {
                    match self.r.below(7) {
                        0 => { self.kw("SET FIELDS"); self.assignments(d, v.as_deref()) }
                        1 | 2 => { self.kw("SET ATTRIBUTES"); self.assignments(d, v.as_deref()) }
                        3 => { self.kw("SET FACET"); self.symbol(); self.assignments(d.min(2), v.as_deref()) }
                        4 => { self.kw("UNSET ATTRIBUTES"); self.t("{"); self.field(0); self.t("}") }
                        5 => { self.kw("UNSET FACET"); self.symbol(); self.t("{"); self.field(0); self.t(","); self.field(1); self.t("}") }
                        _ => { self.kw("SET STRUCTURAL"); self.structural_edges(d, true) }
                    }
                }
                if let Some(v) = &v { let kind = self.pick(&["CONCEPT", "CONCEPT", ""]); self.sel_where(d, v, &kind); } else if need_where { self.kw("WHERE"); self.where_block(d.min(2), false); }
                self.opt_scalar("LIMIT", 1);
            }
            9 => { self.kw("RETRACT ASSERTION"); let (v, w) = self.target_and_where(d, "ASSERTION"); if let Some(v) = &v { self.sel_where(d, v, "ASSERTION"); } else if w { self.kw("WHERE"); self.where_block(d.min(2), false); } self.opt_scalar("LIMIT", 1); self.opt_scalar("EXPECT STATE", 1); }
            10 => { let k = self.pick(&["SUPERSEDE ASSERTION", "CORRECT EVIDENCE"]); self.kw(&k); self.target_ref(); self.kw("BY"); self.target_ref(); self.opt_scalar("EXPECT STATE", 1); }
            11 => {
                self.kw("TRANSITION ACTIVITY"); self.target_ref(); self.kw("TO"); self.scalar();
                if self.ch(1, 2) { self.kw("SET FIELDS"); self.assignments(d, None); }
                if self.ch(1, 3) { self.kw("SET STRUCTURAL"); self.structural_edges(d, true); }
                self.opt_scalar("EXPECT STATE", 1);
            }
            12 => { self.kw("SET RETENTION"); let (v, w) = self.target_and_where(d, ""); self.assignments(d.min(2), None); if let Some(v) = &v { self.sel_where(d, v, ""); } else if w { self.kw("WHERE"); self.where_block(d.min(2), false); } self.opt_scalar("LIMIT", 1); self.opt_scalar("EXPECT VERSION", 1); }
            13 | 14 => { let k = self.pick(&["ARCHIVE", "TOMBSTONE"]); self.kw(&k); let (v, w) = self.target_and_where(d, ""); if let Some(v) = &v { self.sel_where(d, v, "EVIDENCE"); } else if w { self.kw("WHERE"); self.where_block(d.min(2), false); } self.opt_scalar("LIMIT", 1); self.opt_scalar("EXPECT STATE", 1); }
            15 => { self.kw("PURGE"); let (v, w) = self.target_and_where(d, ""); if let Some(v) = &v { self.sel_where(d, v, "CONCEPT"); } else if w { self.kw("WHERE"); self.where_block(d.min(2), false); } self.opt_scalar("LIMIT", 1); self.opt_scalar("REFERENCE POLICY", 1); self.kw("CONFIRM"); self.t("\"PURGE\""); }
            _ => { self.kw("MERGE CONCEPT"); self.target_ref(); self.kw("INTO"); self.target_ref(); if self.ch(1, 3) { self.kw("WHERE"); self.where_block(d.min(2), false); } self.opt_scalar("EXPECT VERSION", 1); }
        }
        let _ = in_block;
    }
    fn kml(&mut self, d: usize) {
        if self.ch(1, 2) {
            self.kw("MUTATE"); self.t("{");
            let n = 1 + self.r.below(4);
            for _ in 0..n { self.mutation(d, true); }
            self.t("}");
        } else { self.mutation(d, false); }
    }

    // ---- META ------------------------------------------------------------------------------------
    fn paging(&mut self) { self.opt_scalar("LIMIT", 2); self.opt_scalar("CURSOR", 1); }
    fn meta(&mut self, d: usize) {
        match self.r.below(11) {
            0 | 1 => {
                self.kw("DESCRIBE");
                match self.r.below(20) {
                    0 => { self.kw("SCHEMA ENVIRONMENT"); if self.ch(1, 2) { self.as_of(); } }
                    1 => self.kw("EXECUTION CONTEXT"),
                    2 => { self.kw("STRUCTURAL FIELD"); self.scalar() }
                    3 => { self.kw("EPISTEMIC POLICY"); if self.ch(1, 2) { self.scalar(); } }
                    4 => self.kw("PROJECTION CAPABILITY"),
                    5 => { self.kw("PRIMER"); self.opt_scalar("MODE", 2) }
                    6 => self.kw("PROTOCOL"),
                    7 => self.kw("CAPABILITIES"),
                    8 => { self.kw("SPACE"); if self.ch(1, 2) { self.scalar(); } }
                    9 => { let k = self.pick(&["PACKAGE", "TYPE", "PREDICATE", "FACET", "ERROR", "CAPSULE"]); self.kw(&k); self.scalar() }
                    10 => { self.kw("COMPATIBILITY FROM"); self.scalar(); self.kw("TO"); self.scalar() }
                    11 => { self.kw("TRANSACTION"); if self.ch(1, 2) { self.kw("BY IDEMPOTENCY KEY"); } self.scalar() }
                    12 => { self.kw("SNAPSHOT"); if self.ch(1, 2) { self.as_of(); } }
                    13 => { self.kw("TRUST"); if self.ch(1, 2) { self.scalar(); } }
                    14 | 15 => { self.kw("ACCESS"); if self.ch(2, 3) { self.kw("WITH"); self.object(d.min(3)); } }
                    _ => { self.kw("TYPE"); self.scalar() }
                }
            }
            2 => {
                self.kw("LIST");
                match self.r.below(7) {
                    0 => { self.kw("SCHEMA PACKAGES"); self.opt_scalar("STATUS", 2) }
                    1 => self.kw("STRUCTURAL FIELDS"), 2 => self.kw("EPISTEMIC POLICIES"), 3 => self.kw("SPACES"), 4 => self.kw("TYPES"), 5 => self.kw("PREDICATES"), _ => self.kw("FACETS"),
                }
                self.paging();
            }
            3 => {
                self.kw("SEARCH"); let k = self.pick(&["CONCEPT", "PROPOSITION", "ASSERTION", "EVIDENCE", "ACTIVITY", "COGNITION"]); self.kw(&k); self.scalar();
                self.opt_scalar("WITH TYPE", 1); self.opt_scalar("WITH PREDICATE", 1); self.opt_scalar("MODE", 1); self.opt_scalar("THRESHOLD", 1); self.opt_scalar("AS OF SEQ", 1); self.paging();
            }
            4 => { self.kw("VERIFY"); let k = self.pick(&["SCHEMA PACKAGE", "CAPSULE", "RECEIPT", "BLOB", "CHECKPOINT"]); self.kw(&k); self.scalar() }
            5 => { self.kw("VALIDATE"); let k = self.pick(&["SCHEMA PACKAGE", "IMPORT PLAN", "KQL", "KML", "CAPSULE"]); self.kw(&k); self.scalar(); if self.ch(1, 2) { self.kw("WITH"); self.object(d.min(3)); } }
            6 => { self.kw("PREVIEW"); if self.ch(1, 2) { self.kw("IMPORT CAPSULE"); self.scalar(); self.kw("INTO"); self.scalar() } else { self.kw("KML"); self.scalar() } }
            7 => { self.kw("HISTORY"); if self.ch(1, 2) { self.kw("SPACE") } else { self.kw("ELEMENT"); self.scalar() } self.opt_scalar("FROM SEQ", 2); self.opt_scalar("TO SEQ", 2); self.paging() }
            8 => { self.kw("CHANGES"); if self.ch(1, 2) { self.kw("AFTER SEQ") } else { self.kw("SINCE") } self.scalar(); self.opt_scalar("LIMIT", 2) }
            9 => { self.kw("SNAPSHOT"); if self.ch(1, 2) { self.as_of(); } }
            _ => {
                self.kw("EXPORT CAPSULE"); self.target_ref(); self.kw("WHERE");
                self.t("{"); self.var(); self.kw("CONCEPT"); self.matcher(d.min(2), false); for _ in 0..self.r.below(3) { self.where_clause(d.min(3), false); } self.t("}");
                if self.ch(1, 2) { self.kw("WITH"); self.object(d.min(3)); }
                if self.ch(1, 2) { self.as_of(); }
            }
        }
    }

    // ---- deep spines: one construct nested exactly n times ---------------------------------
    fn spine(&mut self, kind: u64, n: usize) {
        match kind {
            0 => { self.kw("CREATE CONCEPT"); self.t("?c"); self.t("{"); self.kw("SET ATTRIBUTES"); self.t("{"); self.t("a"); self.t(":");
                   for _ in 0..n { self.t("["); } self.t("1"); for _ in 0..n { self.t("]"); } self.t("}"); self.t("}") }
            1 => { self.kw("DESCRIBE ACCESS WITH"); self.t("{"); self.t("a"); self.t(":");
                   for _ in 0..n { self.t("{"); self.t("a"); self.t(":"); } self.t("\"x\""); for _ in 0..n { self.t("}"); } self.t("}") }
            2 => { self.kw("FIND"); self.t("("); self.t("?x"); self.t(")"); self.kw("WHERE"); self.t("{"); self.t("?x");
                   for _ in 0..n { self.t("{"); self.t("a"); self.t(":"); } self.t("?v"); for _ in 0..n { self.t("}"); } self.t("}") }
            3 => { self.kw("FIND"); self.t("("); self.t("?x"); self.t(")"); self.kw("WHERE"); self.t("{"); self.kw("FILTER"); self.t("(");
                   for _ in 0..n { self.t("("); } self.t("?x.a"); self.t(">"); self.t("1"); for _ in 0..n { self.t(")"); } self.t(")"); self.t("}") }
            4 => { self.kw("FIND"); self.t("("); self.t("?x"); self.t(")"); self.kw("WHERE"); self.t("{");
                   for i in 0..n { let k = ["NOT", "OPTIONAL", "UNION"][i % 3]; self.kw(k); self.t("{"); } self.t("?x"); self.t("{"); self.t("}"); for _ in 0..n { self.t("}"); } self.t("}") }
            5 => { self.kw("UPDATE"); self.t("?c"); self.kw("SET ATTRIBUTES"); self.t("{"); self.t("n"); self.t(":");
                   for _ in 0..n { self.kw("ADD"); self.t("("); } self.t("?c.n"); for _ in 0..n { self.t(","); self.t("1"); self.t(")"); } self.t("}");
                   self.kw("WHERE"); self.t("{"); self.t("?c"); self.kw("CONCEPT"); self.t("{"); self.t("}"); self.t("}") }
            6 => { self.kw("FIND"); self.t("("); self.t("?a"); self.t(")"); self.kw("WHERE"); self.t("{");
                   for _ in 0..n { self.t("("); self.t("?a"); self.t(","); self.t("\"p\""); self.t(","); } self.t("?z"); for _ in 0..n { self.t(")"); } self.t("}") }
            7 => { self.kw("FIND"); self.t("("); self.t("?x"); self.t(")"); self.kw("WHERE"); self.t("{"); self.kw("FILTER"); self.t("(");
                   for _ in 0..n { self.t("!"); } self.kw("IS_NULL"); self.t("("); self.t("?x.a"); self.t(")"); self.t(")"); self.t("}") }
            8 => { self.kw("FIND"); self.t("("); self.t("?x"); self.t(")"); self.kw("WHERE"); self.t("{"); self.kw("FILTER"); self.t("(");
                   for i in 0..=n { if i > 0 { self.t(if i % 2 == 0 { "&&" } else { "||" }); } self.t("?x.a"); self.t("=="); self.t("1"); } self.t(")"); self.t("}") }
            9 => { self.kw("FIND"); self.t("("); self.t("?x"); self.t(")"); self.kw("WHERE"); self.t("{"); self.kw("FILTER"); self.t("("); self.t("?x.a"); self.t("<");
                   for _ in 0..n { self.t("-"); } self.t("?x.b"); self.t(")"); self.t("}") }
            _ => { self.kw("FIND"); self.t("("); self.t("?x"); self.t(")"); self.kw("WHERE"); self.t("{"); self.t("?x"); self.t("{"); self.t("a"); self.t(":");
                   for _ in 0..n { self.t("["); } self.t("?v"); for _ in 0..n { self.t("]"); } self.t("}"); self.t("}") }
        }
    }
}

fn depth_of(r: &mut Rng) -> usize {
    match r.below(20) { 0..=11 => r.below(4) as usize, 12..=15 => 3 + r.below(4) as usize, _ => 6 + r.below(3) as usize }
}
fn spine_depth(r: &mut Rng) -> usize {
    match r.below(12) { 0..=2 => 1 + r.below(8) as usize, 3..=4 => 20 + r.below(40) as usize, 5 => 60, 6 => 61, 7 => 62, 8 => 63, 9 => 64 + r.below(3) as usize, 10 => 100 + r.below(400) as usize, _ => 2000 }
}

pub fn sentence(r: &mut Rng, i: usize) -> Vec<Tk> {
    let mut g = G::new(r);
    if i % 8 == 7 { let k = g.r.below(11); let n = spine_depth(g.r); g.spine(k, n); return g.out; }
    let d = depth_of(g.r);
    match i % 3 { 0 => g.kql(d), 1 => g.kml(d), _ => g.meta(d) }
    g.out
}

// ---- rendering ---------------------------------------------------------------------------------
pub fn render_base(t: &[Tk]) -> String {
    let mut s = String::new();
    for (i, k) in t.iter().enumerate() { s.push_str(&k.s); if i + 1 < t.len() && !k.tight { s.push(' '); } }
    s
}
fn flip(s: &str, r: &mut Rng) -> String {
    s.chars().map(|c| if c.is_ascii_alphabetic() && r.chance(1, 2) { if c.is_ascii_uppercase() { c.to_ascii_lowercase() } else { c.to_ascii_uppercase() } } else { c }).collect()
}
pub fn flip_tokens(t: &[Tk], r: &mut Rng) -> Vec<Tk> {
    t.iter().map(|k| if k.kw { Tk { s: flip(&k.s, r), ..k.clone() } } else { k.clone() }).collect()
}
pub fn render_case(t: &[Tk], r: &mut Rng) -> String { render_base(&flip_tokens(t, r)) }
fn trivia(r: &mut Rng, nonempty: bool, unicode: bool) -> String {
    let mut s = String::new();
    let n = r.below(3) + if nonempty { 1 } else { 0 };
    for _ in 0..n {
        if unicode { s.push(*r.pick(&['\u{a0}', '\u{2003}', '\u{3000}', '\u{b}', '\u{c}', '\u{85}', '\u{2028}'])); continue; }
        match r.below(7) {
            0 | 1 => s.push(' '), 2 => s.push('\t'), 3 => s.push('\n'), 4 => s.push_str("\r\n"),
            _ => { s.push_str("//"); s.push_str(*r.pick(COMMENTS)); s.push('\n'); }
        }
    }
    s
}
pub fn render_trivia(t: &[Tk], r: &mut Rng, unicode: bool) -> String {
    let mut s = trivia(r, false, unicode);
    for (i, k) in t.iter().enumerate() {
        s.push_str(&k.s);
        if i + 1 < t.len() { if !k.tight { s.push_str(&trivia(r, true, unicode)); } } else { s.push_str(&trivia(r, false, unicode)); }
    }
    s
}

// ---- mutants -------------------------------------------------------------------------------------
const POOL: &[&str] = &["{", "}", "(", ")", "[", "]", "\"", "\\", "'", "?", "_", ",", "@", "$", ":", ";", "|", "\u{0}", "\u{7f}", "\u{1F980}", "NULL", "TRUE", "FIND", "MUTATE",
    "WHERE", "//", "/", "/*", "NOT", "!", "-", "&&", "||", "=", "==", "{a:", "[[", "((", ".", "?x.", ":p", "\"unterminated", "\\u12", "1e999", "--9223372036854775808", "\n", "\r", "\u{a0}", "id:", "BELIEF", "#", "// x\r", "//\u{2028}", "// \u{85}", "//\u{b}(", "//\u{c}\"", "\u{2029}"];
pub fn mutate(a: &[Tk], b: &[Tk], r: &mut Rng, i: usize) -> String {
    let mut t: Vec<String> = a.iter().map(|k| if k.tight { format!("{}\u{1}", k.s) } else { k.s.clone() }).collect();
    let n_ops = 1 + r.below(3);
    for _ in 0..n_ops {
        let len = t.len().max(1) as u64;
        let at = r.below(len + 1) as usize;
        match r.below(8) {
            0 | 1 => t.insert(at.min(t.len()), r.pick(POOL).to_string()),
            2 => { if !t.is_empty() { t.remove(at.min(t.len() - 1)); } }
            3 => { if !t.is_empty() { let j = at.min(t.len() - 1); let x = t[j].clone(); t.insert(j, x); } }
            4 => { if t.len() > 2 { let j = at.min(t.len() - 2); let k = (j + 1 + r.below(4) as usize).min(t.len()); let seg: Vec<String> = t[j..k].to_vec(); for (o, x) in seg.into_iter().enumerate() { t.insert(k + o, x); } } }
            5 => { if t.len() > 1 { let j = at.min(t.len() - 2); t.swap(j, j + 1); } }
            6 => t.truncate(at),
            _ => { let cut = r.below(b.len() as u64 + 1) as usize; t.truncate(at); t.extend(b[cut..].iter().map(|k| k.s.clone())); }
        }
    }
    let glue = i % 5 == 0;
    let mut s = String::new();
    for x in &t {
        if let Some(y) = x.strip_suffix('\u{1}') { s.push_str(y); } else { s.push_str(x); if !(glue && r.chance(1, 2)) { s.push(' '); } }
    }
    if i % 7 == 0 && !s.is_empty() {
        // char-level truncation
        let n = s.chars().count() as u64;
        let keep = r.below(n + 1) as usize;
        s = s.chars().take(keep).collect();
    }
    s
}

// ---- directed recursion probes -----------------------------------------------------------------
pub const SEEDS: &[&str] = &[
    "FIND ( ?x ) WHERE { ?x { type : \"T\" } FILTER ( ?x.a > 1 && ! IS_NULL ( ?x.b ) ) } LIMIT 5",
    "FIND ( ?x.name , COUNT ( DISTINCT ?y ) ) WHERE { ( ?x , \"p\" | \"q\"{1,3} , ?y ) OPTIONAL { ?e STRUCTURAL ( ?x , \"f\" , ?y ) } } ORDER BY ?x.name DESC",
    "FIND ( ?b ) WHERE { ?b BELIEF ( :alice , \"tz\" , ?tz ) ?s BELIEF SLOT ( :alice , \"tz\" ) ?a ASSERTION { proposition : ( id : \"P-1\" ) } } AS OF SEQ 4 WITH EPISTEMIC { explain : \"s\" }",
    "CREATE CONCEPT ?c { TYPE \"T\" NAME \"n\" SET ATTRIBUTES { a : [ 1 , { b : 2 } ] } SET STRUCTURAL { ( \"f\" , :t ) { role : \"r\" } } }",
    "UPDATE ?c SET FACET \"M\" { s : MUL ( ?c.facets[\"M\"].s , 0.99 ) } WHERE { ?c CONCEPT { type : \"E\" } } LIMIT 10",
    "ASSERT ?a ( :alice , \"prefers\" , :dark ) { by : :alice , mode : \"stated\" , evidence : [ :m , :s ] } SUPERSEDING :old",
    "MUTATE { ENSURE PROPOSITION ?p ( :a , \"p\" , { k : [ 1 ] } ) PURGE :leak CONFIRM \"PURGE\" }",
    "UPSERT CONCEPT ?d { MATCH { key : \"k\" } SET ATTRIBUTES { r : 2 } UNSET ATTRIBUTES { n } }",
    "DESCRIBE ACCESS WITH { a : [ 1 , 2 ] }",
    "EXPORT CAPSULE :out WHERE { ?c CONCEPT { type : \"E\" } NOT { ?c { a : 1 } } } WITH { redact : true } AS OF SEQ 7",
    "SEARCH COGNITION \"dark\" WITH TYPE \"P\" MODE \"hybrid\" THRESHOLD 0.7 LIMIT 5",
    "VALIDATE KML \"x\" WITH { strict : true }",
];
// (opener atom, closer atom): the closer is appended N times after an inner filler when non-empty
pub const ATOMS: &[(&str, &str)] = &[
    ("!", ""), ("-", ""), ("~", ""), ("+", ""), ("*", ""), ("&", ""), ("@", ""), ("#", ""), ("^", ""), ("%", ""), (".", ""), ("<", ""), ("|", ""), ("?", ""), (":", ""),
    ("NOT ", ""), ("OPTIONAL ", ""), ("UNION ", ""), ("a&&", ""), ("1||", ""), ("?x.a==1&&", ""), ("(", ""), ("[", ""), ("{", ""), ("{a:", ""), ("((", ""), ("-(", ""), ("!(", ""),
    ("ADD(", ""), ("[[", ""), ("\"", ""), ("\\", ""), ("/", ""), ("//", ""), ("?a.", ""), ("x ", ""), ("(", ")"), ("[", "]"), ("{a:", "}"), ("{", "}"), ("NOT {", "}"),
    ("(?a,\"p\",", ")"), ("ADD(", ",1)"), ("-(", ")"), ("!(", ")"), ("[{a:", "}]"), ("\"a\"|", ""), ("id:", ""), ("?x ", ""), (", ", ""), ("1 ", ""), ("\"s\" ", ""),
];
pub fn stress(r: &mut Rng, i: usize) -> String {
    let seed: Vec<&str> = r.pick(SEEDS).split(' ').collect();
    let at = r.below(seed.len() as u64 + 1) as usize;
    if i % 4 == 3 {
        // the whole insertion is ONE line comment: a look-alike of a line break, then openers / tokens, then LF
        let sep = *r.pick(&['\r', '\u{2028}', '\u{2029}', '\u{85}', '\u{b}', '\u{c}', '\u{a0}', '\t']);
        let fill = *r.pick(&["[", "(", "{a:", "NOT {", "!", "\"", "ADD(", "} PURGE :x CONFIRM \"PURGE\" {"]);
        let n = (*r.pick(&[1usize, 3, 65, 3000, 60000])).min(240_000 / fill.len());
        let mut s = String::new();
        for (j, w) in seed.iter().enumerate() {
            if j == at { s.push_str("// c"); s.push(sep); for _ in 0..n { s.push_str(fill); } s.push('\n'); }
            s.push_str(w); s.push(' ');
        }
        return s;
    }
    let (open, close) = *r.pick(ATOMS);
    let cap = 250_000 / (open.len() + close.len()).max(1);
    let n = (*r.pick(&[63usize, 64, 65, 66, 300, 3000, 30000, 120000])).min(cap);
    let mut s = String::new();
    for (j, w) in seed.iter().enumerate() {
        if j == at {
            for _ in 0..n { s.push_str(open); }
            if !close.is_empty() { s.push_str(*r.pick(&["1", "?x.a > 1", "?v", "\"s\"", "?x { }", ""])); for _ in 0..n { s.push_str(close); } }
            s.push(' ');
        }
        s.push_str(w); s.push(' ');
    }
    if at == seed.len() { for _ in 0..n { s.push_str(open); } for _ in 0..n { s.push_str(close); } }
    s
}

// ---- the budget stream -------------------------------------------------------------------------
pub fn budget_case(r: &mut Rng, i: usize) -> String {
    let max_len = anda_kip::MAX_KIP_INPUT_LEN;
    let maxd = anda_kip::MAX_KIP_NESTING_DEPTH;
    match i {
        0 => "a".repeat(max_len - 1),
        1 => "a".repeat(max_len),
        2 => "a".repeat(max_len + 1),
        3 => "\u{e9}".repeat(max_len / 2),              // exactly MAX bytes, MAX/2 chars
        4 => format!("\u{e9}{}", "\u{e9}".repeat(max_len / 2)),   // MAX + 2 bytes
        5 => "\u{1F980}".repeat(max_len / 4),
        6 => format!("{}a", "\u{1F980}".repeat(max_len / 4)),
        7 => format!("{}{}", "[".repeat(maxd + 1), "a".repeat(max_len)),  // too long AND too deep: length wins
        8 => "[".repeat(maxd),
        9 => "[".repeat(maxd + 1),
        10 => format!("{}{}", "(".repeat(maxd), ")".repeat(maxd)),
        11 => format!("{}1{}", "{a:".repeat(maxd + 1), "}".repeat(maxd + 1)),
        12 => format!("// \"\n{}", "(".repeat(maxd + 1)),                 // a quote in a comment must not hide brackets
        13 => format!("\"{}\"", "(".repeat(maxd + 8)),
        14 => format!("// {}\nDESCRIBE PROTOCOL", "(".repeat(maxd + 8)),
        15 => format!("\"//\"{}", "[".repeat(maxd + 1)),                  // slashes inside a string start no comment
        16 => format!("/ /{}", "[".repeat(maxd + 1)),
        17 => format!("///{}\n{}", "[".repeat(maxd + 1), "[".repeat(maxd)),
        18 => format!("\"\\\"{}\"{}", "[".repeat(maxd + 1), "[".repeat(maxd)),   // escaped quote keeps the string open
        19 => format!("\"\\\\\"{}", "[".repeat(maxd + 1)),                // escaped backslash closes it
        20 => format!("{}{}", "(]".repeat(maxd / 2 + 1), "x"),            // mismatched closers do not pop
        21 => format!("{}{}{}", "[".repeat(maxd), "]".repeat(maxd), "[".repeat(maxd)),
        22 => format!("/\"/{}\"", "[".repeat(maxd + 1)),
        23 => format!("\"a\"/{}", "/[".repeat(maxd + 1)),
        24 => format!("{}", "[]".repeat(1000)),
        26..=31 => { let sep = ['\r', '\u{2028}', '\u{2029}', '\u{85}', '\u{b}', '\u{c}'][i - 26]; format!("// see below{sep}{}{}", "[".repeat(maxd + 1), "]".repeat(maxd + 1)) }
        32..=37 => { let sep = ['\r', '\u{2028}', '\u{2029}', '\u{85}', '\u{b}', '\u{c}'][i - 32]; format!("DESCRIBE // which{sep}PROTOCOL //\n PRIMER") }
        38 => format!("// crlf ends it\r\n{}", "[".repeat(maxd + 1)),
        39..=44 => { let sep = ['\r', '\u{2028}', '\u{2029}', '\u{85}', '\u{b}', '\u{c}'][i - 39]; format!("// c{sep} \" ( {{\n[1, // d{sep}]]]\n 2]") }
        45 => format!("[1, // c\r{}\n 2]", "[".repeat(30000)),
        25 => format!("{}//{}", "[".repeat(maxd), "[".repeat(10)),
        _ => {
            let alphabet: &[&str] = &["(", "[", "{", ")", "]", "}", "\"", "\\", "/", "\n", "a", " ", "\u{e9}", "\u{1F980}", "//", "[[[[", "((((((((", "{{{{{{{{{{{{{{{{"];
            let n = r.below(140);
            let mut s = String::new();
            for _ in 0..n { s.push_str(*r.pick(alphabet)); }
            s
        }
    }
}

pub fn unicode(r: &mut Rng) -> String {
    let n = r.below(200);
    let mut s = String::new();
    for _ in 0..n {
        let cp = match r.below(6) { 0 => r.below(0x80), 1 => r.below(0x800), 2 => r.below(0x10000), 3 => 0x10000 + r.below(0x100000), 4 => 0x2000 + r.below(0x70), _ => 0x20 + r.below(0x5f) } as u32;
        if let Some(c) = char::from_u32(cp) { s.push(c); }
    }
    s
}

/// the text of a directed probe: `n` copies of atom `a` before token `at` of seed `seed` (closers after an inner filler)
pub fn probe_text(seed: &str, at: usize, a: usize, n: usize, filler: &str) -> String {
    let words: Vec<&str> = seed.split(' ').collect();
    let (open, close) = ATOMS[a];
    let mut s = String::new();
    for (j, w) in words.iter().enumerate() {
        if j == at {
            for _ in 0..n { s.push_str(open); }
            if !close.is_empty() { s.push_str(filler); for _ in 0..n { s.push_str(close); } s.push(' '); }
        }
        s.push_str(w); s.push(' ');
    }
    if at >= words.len() { for _ in 0..n { s.push_str(open); } if !close.is_empty() { s.push_str(filler); for _ in 0..n { s.push_str(close); } } }
    s
}
