//! Parent process: generates the inputs, drives the worker, attributes crashes and hangs.
use crate::gens;
use crate::oracle::{expected_budget, fnv, rle, rle_runs};
use h_common::{Rng, arg_value};
use serde_json::{Value, json};
use std::collections::{BTreeMap, BTreeSet};
use std::io::{BufRead, BufReader, Write};
use std::process::{Child, ChildStdin, Command, Stdio};
use std::sync::mpsc::{Receiver, channel};
use std::time::{Duration, Instant};

struct Worker { child: Child, stdin: ChildStdin, rx: Receiver<String> }

fn spawn_worker() -> Worker {
    let mut child = Command::new(std::env::current_exe().expect("exe")).arg("worker")
        .stdin(Stdio::piped()).stdout(Stdio::piped()).stderr(Stdio::null()).spawn().expect("spawn worker");
    let stdin = child.stdin.take().unwrap();
    let stdout = child.stdout.take().unwrap();
    let (tx, rx) = channel();
    std::thread::spawn(move || { for l in BufReader::new(stdout).lines() { match l { Ok(l) => { if tx.send(l).is_err() { break; } } Err(_) => break } } });
    Worker { child, stdin, rx }
}

pub enum Outcome { Done(Value), Crash(String), Hang }

pub struct Driver { w: Option<Worker>, pub restarts: usize, timeout: Duration, next_id: u64 }
impl Driver {
    pub fn new(timeout_ms: u64) -> Self { Driver { w: None, restarts: 0, timeout: Duration::from_millis(timeout_ms), next_id: 0 } }
    pub fn request(&mut self, mut req: Value) -> Outcome {
        self.next_id += 1;
        let id = self.next_id;
        req["id"] = json!(id);
        if self.w.is_none() { self.w = Some(spawn_worker()); }
        let w = self.w.as_mut().unwrap();
        let line = format!("{req}\n");
        if w.stdin.write_all(line.as_bytes()).and_then(|_| w.stdin.flush()).is_err() {
            return self.dead("could not write to the worker");
        }
        let deadline = Instant::now() + self.timeout;
        loop {
            let left = deadline.saturating_duration_since(Instant::now());
            match self.w.as_ref().unwrap().rx.recv_timeout(left) {
                Ok(l) => {
                    if let Some(rest) = l.strip_prefix(&format!("R {id} ")) {
                        return Outcome::Done(serde_json::from_str(rest).unwrap_or(Value::Null));
                    }
                }
                Err(std::sync::mpsc::RecvTimeoutError::Timeout) => {
                    if let Some(mut w) = self.w.take() { let _ = w.child.kill(); let _ = w.child.wait(); }
                    self.restarts += 1;
                    return Outcome::Hang;
                }
                Err(std::sync::mpsc::RecvTimeoutError::Disconnected) => return self.dead("worker exited"),
            }
        }
    }
    fn dead(&mut self, why: &str) -> Outcome {
        let mut status = String::new();
        if let Some(mut w) = self.w.take() {
            if let Ok(st) = w.child.wait() {
                use std::os::unix::process::ExitStatusExt;
                status = format!("{why}: exit code {:?}, signal {:?}", st.code(), st.signal());
            }
        }
        self.restarts += 1;
        Outcome::Crash(status)
    }
}

#[derive(Default)]
struct Stats {
    evaluations: u64,
    inputs: BTreeMap<String, u64>,
    accepted: BTreeMap<String, u64>,
    rejected: BTreeMap<String, u64>,
    budget_obs: BTreeMap<String, u64>,
    vars: BTreeSet<String>,
    trees: BTreeSet<String>,
    nontrivial: BTreeSet<String>,
    fails: BTreeMap<String, Vec<Value>>,
    fail_counts: BTreeMap<String, u64>,
    max_depth_ok: u64,
    sent_ok: u64, sent_n: u64,
    groups: u64, pairs: u64, crashes: u64, hangs: u64,
}
impl Stats {
    fn fail(&mut self, f: Value) {
        let c = f["class"].as_str().unwrap_or("?").to_string();
        *self.fail_counts.entry(c.clone()).or_default() += 1;
        let v = self.fails.entry(c).or_default();
        if v.len() < 8 { v.push(f); }
    }
    fn absorb(&mut self, stream: &str, input: &str, out: Outcome, is_sentence: bool) -> Option<Value> {
        *self.inputs.entry(stream.to_string()).or_default() += 1;
        match out {
            Outcome::Done(r) => {
                self.evaluations += r["evals"].as_u64().unwrap_or(0);
                for f in r["fails"].as_array().cloned().unwrap_or_default() { let mut f = f; f["stream"] = json!(stream); self.fail(f); }
                let cls = r["cls"].as_str().unwrap_or("").to_string();
                let acc = r["accepted"].as_bool().unwrap_or(false);
                if is_sentence { self.sent_n += 1; if acc { self.sent_ok += 1; } }
                if acc {
                    *self.accepted.entry(cls).or_default() += 1;
                    self.max_depth_ok = self.max_depth_ok.max(r["depth"].as_u64().unwrap_or(0));
                    let h = r["hash"].as_str().unwrap_or("").to_string();
                    self.nontrivial.insert(h.clone());
                    self.trees.insert(h);
                    for v in r["vars"].as_array().cloned().unwrap_or_default() { if let Some(s) = v.as_str() { self.vars.insert(s.to_string()); } }
                } else {
                    *self.rejected.entry(cls).or_default() += 1;
                    if r["bud"].as_str() != Some("BOk") { self.nontrivial.insert(fnv(input)); }
                }
                *self.budget_obs.entry(r["bud"].as_str().unwrap_or("?").to_string()).or_default() += 1;
                Some(r)
            }
            Outcome::Crash(status) => {
                self.crashes += 1;
                let (e, d) = expected_budget(input);
                self.fail(json!({"class": "crash", "what": format!("the parser process died ({status}) — stack overflow or abort"), "stream": stream,
                    "input": input.chars().take(600).collect::<String>(), "input_rle": if rle_runs(input) < 3000 { rle(input) } else { Value::Null }, "bytes": input.len(),
                    "detail": {"expected_budget": e.name(), "bracket_depth": d}}));
                None
            }
            Outcome::Hang => {
                self.hangs += 1;
                self.fail(json!({"class": "hang", "what": "no answer within the wall-clock bound", "stream": stream,
                    "input": input.chars().take(600).collect::<String>(), "input_rle": if rle_runs(input) < 3000 { rle(input) } else { Value::Null }, "bytes": input.len()}));
                None
            }
        }
    }
}

pub fn one(args: &[String]) {
    let s = if let Some(f) = arg_value(args, "--input-file") { std::fs::read_to_string(f).expect("read") } else { arg_value(args, "--input").unwrap_or_default() };
    let mut d = Driver::new(20000);
    match d.request(json!({"kind": "single", "input": s, "json": true})) {
        Outcome::Done(r) => println!("{r}"),
        Outcome::Crash(st) => println!("{}", json!({"crash": st})),
        Outcome::Hang => println!("{}", json!({"hang": true})),
    }
}

pub fn run(args: &[String]) {
    let t0 = Instant::now();
    let out_path = arg_value(args, "--out").expect("--out");
    let n = |flag: &str, d: usize| arg_value(args, flag).and_then(|s| s.parse().ok()).unwrap_or(d);
    let (n_sent, n_mut, n_stress, n_bud, n_uni, n_uws) = (n("--sentences", 400), n("--mutants", 800), n("--stress", 400), n("--budget", 400), n("--unicode", 150), n("--uws", 60));
    let model_every = n("--model-every", 8).max(1);
    let lex_max = n("--lex-max", 600);
    let mut rng = Rng::from_env();
    let mut d = Driver::new(n("--timeout-ms", 120000) as u64);
    let mut st = Stats::default();
    let mut out = std::io::BufWriter::new(std::fs::File::create(&out_path).expect("create out"));
    let mut samples: BTreeMap<String, usize> = BTreeMap::new();
    let mut k_model = 0usize;
    let mut n_lex = 0usize;
    let emit_budget = |out: &mut dyn Write, s: &str, r: &Value, force: bool, k_model: &mut usize| {
        *k_model += 1;
        if (force || *k_model % model_every == 0) && rle_runs(s) <= if force { 2500 } else { 500 } {
            let _ = writeln!(out, "{}", json!({"kind": "budget", "case": {"t": [rle(s), {"c": r["bud"].as_str().unwrap_or("BOk"), "a": []}]}, "bytes": s.len()}));
        }
    };
    let mut sample = |out: &mut dyn Write, stream: &str, s: &str, r: &Value| {
        let c = samples.entry(stream.to_string()).or_default();
        if *c < 2 && s.len() < 700 { *c += 1; let _ = writeln!(out, "{}", json!({"kind": "sample", "stream": stream, "input": s, "class": r["cls"], "budget": r["bud"]})); }
    };
    let debug = std::env::var("H_DEBUG").is_ok();

    // A. grammar-derived sentences, each with its metamorphic variants
    let mut sentences: Vec<Vec<gens::Tk>> = Vec::new();
    for i in 0..n_sent {
        let toks = gens::sentence(&mut rng, i);
        let base = gens::render_base(&toks);
        let mut variants = Vec::new();
        variants.push(json!(["case", gens::render_case(&toks, &mut rng)]));
        variants.push(json!(["trivia", gens::render_trivia(&toks, &mut rng, false)]));
        variants.push(json!(["both", gens::render_trivia(&gens::flip_tokens(&toks, &mut rng), &mut rng, false)]));
        let o = d.request(json!({"kind": "group", "base": base, "variants": variants}));
        st.groups += 1; st.pairs += 3;
        if let Some(r) = st.absorb("sentences", &base, o, true) {
            if debug && !r["accepted"].as_bool().unwrap_or(false) && r["bud"] == "BOk" {
                eprintln!("REJECTED {}: {}", r["cls"], base);
            }
            emit_budget(&mut out, &base, &r, false, &mut k_model);
            sample(&mut out, "sentences", &base, &r);
            if n_lex < lex_max && base.len() < 1500 {
                for v in &variants { n_lex += 1; let _ = writeln!(out, "{}", json!({"kind": "lex", "case": {"t": [rle(&base), rle(v[1].as_str().unwrap())]}})); }
            }
        }
        sentences.push(toks);
    }
    // A'. the same with Unicode whitespace as trivia (kept apart: `words` uses nom multispace1)
    for i in 0..n_uws.min(sentences.len()) {
        let toks = &sentences[(i * 7) % sentences.len()];
        let base = gens::render_base(toks);
        let v = gens::render_trivia(toks, &mut rng, true);
        let o = d.request(json!({"kind": "group", "base": base, "variants": [["uws", v]]}));
        st.groups += 1; st.pairs += 1;
        st.absorb("unicode-whitespace", &base, o, false);
    }
    // B. token-level mutants
    for i in 0..n_mut {
        if sentences.is_empty() { break; }
        let a = &sentences[rng.below(sentences.len() as u64) as usize];
        let b = &sentences[rng.below(sentences.len() as u64) as usize];
        let s = gens::mutate(a, b, &mut rng, i);
        let o = d.request(json!({"kind": "single", "input": s}));
        if let Some(r) = st.absorb("mutants", &s, o, false) { emit_budget(&mut out, &s, &r, false, &mut k_model); sample(&mut out, "mutants", &s, &r); }
    }
    // C0. systematic probes: every (seed, token boundary, atom) the grammar consumes repeatedly (found by a cheap
    // three-copy pre-pass in the worker) is then repeated up to the length limit
    let mut cands: Vec<(usize, usize, usize, String)> = Vec::new();
    for (si, seed) in gens::SEEDS.iter().enumerate() {
        if let Outcome::Done(r) = d.request(json!({"kind": "probe", "seed": seed})) {
            st.evaluations += r["evals"].as_u64().unwrap_or(0);
            for c in r["cands"].as_array().cloned().unwrap_or_default() {
                cands.push((si, c[0].as_u64().unwrap_or(0) as usize, c[1].as_u64().unwrap_or(0) as usize, c[2].as_str().unwrap_or("1").to_string()));
            }
        }
    }
    let n_cands = cands.len();
    rng.shuffle(&mut cands);
    // one candidate per (seed, atom) first, so every consumed atom is tried in every seed before positions repeat
    let mut seen_sa = BTreeSet::new();
    // ... and the atoms that open no bracket (which the budget cannot stop) before the bracketed ones
    cands.sort_by_key(|c| {
        let (open, close) = gens::ATOMS[c.2];
        let bracketed = open.contains(['(', '[', '{']) || !close.is_empty();
        if seen_sa.insert((c.0, c.2)) { if bracketed { 1 } else { 0 } } else { 2 }
    });
    let n_probe = n("--probes", n_stress);
    for (k, (si, at, a, filler)) in cands.iter().take(n_probe).enumerate() {
        let (open, close) = gens::ATOMS[*a];
        let cap = 250_000 / (open.len() + close.len()).max(1);
        let reps = [30000usize.min(cap), 120000usize.min(cap), 66, 64];
        let s = gens::probe_text(gens::SEEDS[*si], *at, *a, reps[k % 2], filler);
        let o = d.request(json!({"kind": "single", "input": s}));
        if let Some(r) = st.absorb("probes", &s, o, false) { emit_budget(&mut out, &s, &r, false, &mut k_model); }
        if k % 8 == 0 {
            let s = gens::probe_text(gens::SEEDS[*si], *at, *a, reps[2 + (k / 8) % 2], filler);
            let o = d.request(json!({"kind": "single", "input": s}));
            if let Some(r) = st.absorb("probes", &s, o, false) { emit_budget(&mut out, &s, &r, false, &mut k_model); sample(&mut out, "probes", &s, &r); }
        }
    }
    // C. random recursion probes
    for i in 0..n_stress {
        let s = gens::stress(&mut rng, i);
        let o = d.request(json!({"kind": "single", "input": s}));
        if let Some(r) = st.absorb("stress", &s, o, false) { emit_budget(&mut out, &s, &r, false, &mut k_model); sample(&mut out, "stress", &s, &r); }
    }
    // D. budget stream: all five entry points, every case goes to the model
    for i in 0..n_bud {
        let s = gens::budget_case(&mut rng, i);
        let o = d.request(json!({"kind": "single", "input": s, "json": true}));
        if let Some(r) = st.absorb("budget", &s, o, false) { emit_budget(&mut out, &s, &r, true, &mut k_model); sample(&mut out, "budget", &s, &r); }
    }
    // E. arbitrary Unicode
    for _ in 0..n_uni {
        let s = gens::unicode(&mut rng);
        let o = d.request(json!({"kind": "single", "input": s, "json": true}));
        if let Some(r) = st.absorb("unicode", &s, o, false) { emit_budget(&mut out, &s, &r, false, &mut k_model); }
    }
    // self-test inputs (only reach the switches when the env vars are set)
    if std::env::var("H_SELFTEST_OVERFLOW").is_ok() { let s = "DESCRIBE PRIMER // @@OVERFLOW@@"; let o = d.request(json!({"kind": "single", "input": s})); st.absorb("selftest", s, o, false); }
    if std::env::var("H_SELFTEST_HANG").is_ok() { let s = "DESCRIBE PRIMER // @@HANG@@"; let o = d.request(json!({"kind": "single", "input": s})); st.absorb("selftest", s, o, false); }

    let total_fail: u64 = st.fail_counts.values().sum();
    let summary = json!({"kind": "summary", "evaluations": st.evaluations, "inputs": st.inputs, "accepted": st.accepted, "rejected_by_code": st.rejected,
        "budget_obs": st.budget_obs, "accepted_fraction_sentences": if st.sent_n > 0 { st.sent_ok as f64 / st.sent_n as f64 } else { 0.0 },
        "max_accepted_bracket_depth": st.max_depth_ok, "variants_seen": st.vars, "distinct_accepted_trees": st.trees.len(),
        "distinct_nontrivial_keys": st.nontrivial, "metamorphic_groups": st.groups, "metamorphic_pairs": st.pairs, "crashes": st.crashes, "hangs": st.hangs,
        "oracle_failures": total_fail, "failures_by_class": st.fail_counts, "failures": st.fails.values().flatten().cloned().collect::<Vec<_>>(),
        "probe_candidates": n_cands, "wall_ms": t0.elapsed().as_millis() as u64, "worker_restarts": d.restarts, "lex_pairs_emitted": n_lex});
    let _ = writeln!(out, "{summary}");
    let _ = out.flush();
}
