//! Child process: evaluates requests on a 256 KiB thread under catch_unwind.
use crate::oracle::{compare_group, evaluate};
use serde_json::{Value, json};
use std::io::{BufRead, Write};

pub const STACK: usize = 256 * 1024;

#[allow(unconditional_recursion)]
fn overflow(n: u64) -> u64 { let a = [n; 64]; std::hint::black_box(&a); overflow(n + 1) + a[3] }

fn handle(req: &Value) -> Value {
    let kind = req["kind"].as_str().unwrap_or("single");
    if kind == "probe" {
        // which (position, atom) pairs does the grammar consume repeatedly?  three copies are parsed; the pair is a
        // candidate when the parse succeeds or its innermost error lies beyond the second copy
        let seed = req["seed"].as_str().unwrap_or("");
        let words: Vec<&str> = seed.split(' ').collect();
        let mut cands: Vec<Value> = Vec::new();
        let mut evals = 0u64;
        for at in 0..=words.len() {
            let offset: usize = words[..at.min(words.len())].iter().map(|w| w.chars().count() + 1).sum();
            for (a, (open, close)) in crate::gens::ATOMS.iter().enumerate() {
                for filler in ["1", "?x.a > 1", "?v"] {
                    if close.is_empty() && filler != "1" { continue; }
                    let text = crate::gens::probe_text(seed, at, a, 3, filler);
                    evals += 1;
                    let r = std::panic::catch_unwind(|| anda_kip::parse_kip(&text));
                    let consumed = match r {
                        Ok(Ok(_)) => true,
                        Ok(Err(e)) => {
                            let col = e.message.strip_prefix("at line 1, column ").and_then(|m| m.split(':').next()).and_then(|c| c.parse::<usize>().ok());
                            col.is_some_and(|c| c > offset + 2 * open.chars().count())
                        }
                        Err(_) => true,
                    };
                    if consumed { cands.push(json!([at, a, filler])); break; }
                }
            }
        }
        return json!({"fails": [], "cands": cands, "evals": evals, "cls": "", "bud": "BOk", "accepted": false});
    }
    if kind == "group" {
        let base = req["base"].as_str().unwrap_or("");
        let ev = evaluate(base, false);
        let mut fails = ev.fails.clone();
        let mut evals = ev.evals;
        for v in req["variants"].as_array().cloned().unwrap_or_default() {
            let (f, n) = compare_group(base, &ev, v[1].as_str().unwrap_or(""), v[0].as_str().unwrap_or("trivia"));
            fails.extend(f);
            evals += n;
        }
        json!({"fails": fails, "cls": ev.cls, "bud": ev.bud.name(), "exp": ev.exp.name(), "depth": ev.depth, "hash": ev.hash,
               "vars": ev.vars, "evals": evals, "accepted": ev.cmd.is_some()})
    } else {
        let s = req["input"].as_str().unwrap_or("");
        if std::env::var("H_SELFTEST_OVERFLOW").is_ok() && s.contains("@@OVERFLOW@@") { std::hint::black_box(overflow(0)); }
        if std::env::var("H_SELFTEST_HANG").is_ok() && s.contains("@@HANG@@") { loop { std::thread::sleep(std::time::Duration::from_secs(1)); } }
        let ev = evaluate(s, req["json"].as_bool().unwrap_or(false));
        json!({"fails": ev.fails, "cls": ev.cls, "bud": ev.bud.name(), "exp": ev.exp.name(), "depth": ev.depth, "hash": ev.hash,
               "vars": ev.vars, "evals": ev.evals, "accepted": ev.cmd.is_some()})
    }
}

pub fn main() {
    std::panic::set_hook(Box::new(|_| {}));
    let stdin = std::io::stdin();
    let stdout = std::io::stdout();
    for line in stdin.lock().lines() {
        let Ok(line) = line else { break };
        if line.is_empty() { continue; }
        let req: Value = match serde_json::from_str(&line) { Ok(v) => v, Err(_) => continue };
        let id = req["id"].as_u64().unwrap_or(0);
        { let mut o = stdout.lock(); let _ = writeln!(o, "S {id}"); let _ = o.flush(); }
        let h = std::thread::Builder::new().stack_size(STACK).spawn(move || handle(&req)).expect("spawn");
        let res = h.join().unwrap_or_else(|_| json!({"fails": [{"class": "panic", "what": "evaluation thread panicked outside catch_unwind"}], "evals": 0}));
        let mut o = stdout.lock();
        let _ = writeln!(o, "R {id} {res}");
        let _ = o.flush();
    }
}
