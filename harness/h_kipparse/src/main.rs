//! C15 harness: runs the KIP parsers of /repo on generated text in a child process (a stack
//! overflow is an abort, not a panic), applies the direct oracles, and writes the cases for the
//! Coq model (budget scanner, reference tokenizer).
mod gens;
mod oracle;
mod parent;
mod worker;

fn main() {
    let args: Vec<String> = std::env::args().collect();
    match args.get(1).map(|s| s.as_str()) {
        Some("worker") => worker::main(),
        Some("run") => parent::run(&args[2..]),
        Some("one") => parent::one(&args[2..]),
        _ => {
            eprintln!("usage: h_kipparse run --out FILE [--sentences N --mutants N --stress N --budget N --unicode N --uws N] | one --input-file F | worker");
            std::process::exit(2);
        }
    }
}
