//! C13 harness: runs anda_db_schema's real write / encode / decode / read path on generated
//! (type, value) pairs, single mutations, schema upgrade chains and float bit patterns.
mod battery;
mod genv;
mod term;

use anda_db_schema::*;
use genv::*;
use h_common::*;
use serde_json::{Value, json};
use std::collections::{BTreeMap, BTreeSet};
use std::io::Write;
use std::panic::{AssertUnwindSafe, catch_unwind};
use std::sync::Arc;
use term::*;

pub fn schema_of(t: &FieldType) -> Arc<Schema> {
    let mut b = Schema::builder();
    b.add_field(FieldEntry::new("f".into(), t.clone()).unwrap()).unwrap();
    Arc::new(b.build().unwrap())
}

/// encode a document the way the collection stores it, decode schema-less
pub fn store_and_decode(d: &Document) -> Result<DocumentOwned, String> {
    let bytes = cbor2::to_vec(d).map_err(|e| format!("encode: {e}"))?;
    cbor2::from_reader::<DocumentOwned, _>(&bytes[..]).map_err(|e| format!("decode: {e}"))
}

pub struct WriteRead {
    pub stored: Option<FieldValue>,          // value kept by set_field (None: rejected)
    pub raw: Option<FieldValue>,             // schema-less decode of the stored bytes (None: not stored / encode failed)
    pub read: Option<FieldValue>,            // Document::try_from_doc's value (None: failed)
    pub read_err: String,
    pub reencode_same: bool,                 // re-encoding the read document gives the same bytes
}

pub fn write_read(t: &FieldType, v: &FieldValue) -> WriteRead {
    let s = schema_of(t);
    let mut d = Document::new(s.clone());
    d.set_id(1);
    let mut r = WriteRead { stored: None, raw: None, read: None, read_err: String::new(), reencode_same: true };
    if d.set_field("f", v.clone()).is_err() { return r; }
    r.stored = d.get_field("f").cloned();
    let bytes = match cbor2::to_vec(&d) { Ok(b) => b, Err(e) => { r.read_err = format!("encode: {e}"); return r; } };
    let owned: DocumentOwned = match cbor2::from_reader(&bytes[..]) { Ok(o) => o, Err(e) => { r.read_err = format!("decode: {e}"); return r; } };
    r.raw = owned.fields.get(&1).cloned();
    match Document::try_from_doc(s, owned) {
        Ok(d2) => {
            r.read = d2.get_field("f").cloned();
            r.reencode_same = cbor2::to_vec(&d2).map(|b| b == bytes).unwrap_or(false);
        }
        Err(e) => r.read_err = format!("{e}"),
    }
    r
}

/// typed path: the value arrives as CBOR inside a name-keyed map (what Document::try_from sees)
pub fn typed_write(t: &FieldType, v: &FieldValue) -> Option<Document> {
    let s = schema_of(t);
    let c: Cbor = v.clone().into();
    let doc = Cbor::Map(vec![(Cbor::Text("_id".into()), Cbor::Integer(1.into())), (Cbor::Text("f".into()), c)]);
    Document::try_from(s, &doc).ok()
}

fn model_row(out: &mut impl Write, stream: &str, case: Value, obs: Value) {
    writeln!(out, "{}", json!({"kind": "model", "stream": stream, "case": case, "obs": obs})).unwrap();
}

#[derive(Default)]
struct Stats {
    evaluations: u64,
    failures: Vec<Value>,
    dist: BTreeMap<String, u64>,
}
impl Stats {
    fn bump(&mut self, k: &str) { *self.dist.entry(k.to_string()).or_insert(0) += 1; }
    fn fail(&mut self, class: &str, what: String, t: &FieldType, v: &FieldValue, extra: Value) {
        if self.failures.len() < 40 {
            self.failures.push(json!({"class": class, "what": what, "type": format!("{t:?}"), "value": format!("{v:?}"),
                                      "type_term": ft_term(t), "value_term": fv_term(v), "detail": extra}));
        } else {
            self.bump("failures_not_listed");
        }
    }
}

/// does v carry a Vector at a position for which t declares no element type (Array([]), Map({}))?
fn vector_in_untyped(t: &FieldType, v: &FieldValue, untyped: bool) -> bool {
    match v {
        FieldValue::Vector(_) => untyped,
        FieldValue::Array(vs) => match t {
            _ if untyped => vs.iter().any(|x| vector_in_untyped(t, x, true)),
            FieldType::Array(ts) if ts.is_empty() => vs.iter().any(|x| vector_in_untyped(t, x, true)),
            FieldType::Array(ts) if ts.len() == 1 => vs.iter().any(|x| vector_in_untyped(&ts[0], x, false)),
            FieldType::Array(ts) => ts.iter().zip(vs).any(|(t, x)| vector_in_untyped(t, x, false)),
            FieldType::Option(t) => vector_in_untyped(t, v, false),
            _ => false,
        },
        FieldValue::Map(m) => match t {
            _ if untyped => m.values().any(|x| vector_in_untyped(t, x, true)),
            FieldType::Map(tm) if tm.is_empty() => m.values().any(|x| vector_in_untyped(t, x, true)),
            FieldType::Map(tm) => match as_wildcard_map(tm) {
                Some((_, ft)) => m.values().any(|x| vector_in_untyped(ft, x, false)),
                None => m.iter().any(|(k, x)| tm.get(k).map(|ft| vector_in_untyped(ft, x, false)).unwrap_or(false)),
            },
            FieldType::Option(t) => vector_in_untyped(t, v, false),
            _ => false,
        },
        _ => false,
    }
}

fn type_shape(t: &FieldType) -> &'static str {
    match t {
        FieldType::Array(ts) => match ts.len() { 0 => "array-any", 1 => "array-homogeneous", _ => "array-tuple" },
        FieldType::Map(m) => if m.is_empty() { "map-any" } else if as_wildcard_map(m).is_some() { "map-wildcard" } else { "map-keyed" },
        FieldType::Option(_) => "option", FieldType::Json => "json", FieldType::Vector => "vector", _ => "scalar",
    }
}
fn type_depth(t: &FieldType) -> usize {
    match t {
        FieldType::Array(ts) => 1 + ts.iter().map(type_depth).max().unwrap_or(0),
        FieldType::Map(m) => 1 + m.values().map(type_depth).max().unwrap_or(0),
        FieldType::Option(t) => 1 + type_depth(t),
        _ => 0,
    }
}

/// One (type, value) pair through the field-by-field path: model row + direct oracle.
/// `canonical`: the generator built v in the declared variant, so the read value must equal v itself.
/// `must_reject`: v violates t by construction.
fn run_pair(out: &mut impl Write, st: &mut Stats, t: &FieldType, v: &FieldValue, canonical: bool, must_reject: Option<&Mutation>, model: bool) {
    st.evaluations += 1;
    let valid = t.validate(v).is_ok();
    let mut n = v.clone();
    t.normalize(&mut n);
    let mut p = v.clone();
    t.prune_undeclared(&mut p);
    let wr = write_read(t, v);
    // ---- direct oracle (property read on the implementation, no model involved)
    if let Some(m) = must_reject {
        if valid { st.fail("invalid-accepted", format!("FieldType::validate accepts a {} violation", m.class), t, v, json!({"path": "validate"})); }
        if wr.stored.is_some() { st.fail("invalid-accepted", format!("Document::set_field accepts a {} violation", m.class), t, v, json!({"path": "set_field"})); }
        if m.cbor_invalid && typed_write(t, v).is_some() {
            st.fail("invalid-accepted", format!("Document::try_from accepts a {} violation", m.class), t, v, json!({"path": "try_from"}));
        }
    }
    if let Some(s) = &wr.stored {
        st.bump("accepted");
        if wr.raw.is_none() {
            // refused at encode time (NaN): an error at write, not an accepted document
            st.bump("accepted_by_set_field_but_unencodable");
        } else {
            match &wr.read {
                None => {
                    // known class: a Vector is budgeted as one leaf when written but reads back as an array at
                    // positions without a declared element type, where nothing folds it back before validation
                    let class = if vector_in_untyped(t, s, false) { "untyped-vector-unreadable" } else { "accepted-then-unreadable" };
                    st.fail(class, format!("accepted by set_field, stored, rejected on read: {}", wr.read_err), t, v, json!({"stored": format!("{s:?}").chars().take(300).collect::<String>()}))
                }
                Some(r) => {
                    if !wr.reencode_same {
                        st.fail("stored-form-unstable", "re-encoding the document read back gives different bytes".into(), t, v, json!({"read": format!("{r:?}")}));
                    }
                    if canonical && !(same(r, v) && same(s, v)) {
                        st.fail("field-changed", "a value written in the declared variant reads back different".into(), t, v,
                                json!({"stored": format!("{s:?}"), "read": format!("{r:?}")}));
                    }
                    if t.validate(r).is_err() {
                        st.fail("accepted-then-unreadable", "value read back does not validate".into(), t, v, json!({"read": format!("{r:?}")}));
                    }
                }
            }
        }
    } else if canonical {
        st.fail("valid-rejected", "a canonical valid value is rejected by set_field".into(), t, v, json!({}));
    }
    if canonical {
        // typed path: arrives as CBOR, must be accepted and give the same value, and read back equal
        match typed_write(t, v) {
            None => st.fail("valid-rejected", "a canonical valid value is rejected by Document::try_from".into(), t, v, json!({})),
            Some(d) => {
                let e = d.get_field("f").cloned();
                let absent_ok = e.is_none() && *v == FieldValue::Null;
                if !absent_ok && !e.as_ref().map(|e| same(e, v)).unwrap_or(false) {
                    st.fail("field-changed", "Document::try_from stores a different value than the one written".into(), t, v, json!({"extracted": format!("{e:?}")}));
                }
                match store_and_decode(&d).and_then(|o| Document::try_from_doc(schema_of(t), o).map_err(|e| format!("{e}"))) {
                    Err(e) => st.fail("accepted-then-unreadable", format!("accepted by try_from, rejected on read: {e}"), t, v, json!({})),
                    Ok(d2) => {
                        let r = d2.get_field("f").cloned();
                        if !absent_ok && !r.as_ref().map(|r| same(r, v)).unwrap_or(false) {
                            st.fail("field-changed", "typed path: read back differs from written".into(), t, v, json!({"read": format!("{r:?}")}));
                        }
                        // back to the "typed value" (generic CBOR): same CBOR as the one written
                        let back: Result<Cbor, _> = d2.try_into();
                        let orig: Cbor = Cbor::Map(vec![(Cbor::Text("_id".into()), Cbor::Integer(1.into())), (Cbor::Text("f".into()), v.clone().into())]);
                        if !absent_ok {
                            match back {
                                Ok(b) => if cbor2::to_vec(&b).ok() != cbor2::to_vec(&orig).ok() {
                                    st.fail("typed-value-changed", "Document::try_into does not reproduce the written CBOR value".into(), t, v, json!({"back": format!("{b:?}")}));
                                },
                                Err(e) => st.fail("typed-value-changed", format!("Document::try_into fails: {e}"), t, v, json!({})),
                            }
                        }
                    }
                }
            }
        }
    }
    // ---- model row
    if model && fv_term(v).to_string().len() > 200_000 {
        // very large budget cases: compare the three verdicts only (the term is not repeated six times)
        let case = tup(vec![ft_term(t), fv_term(v), float_table(&[v])]);
        model_row(out, "wb", case, tup(vec![json!(valid), json!(wr.stored.is_some()), json!(wr.read.is_some())]));
        return;
    }
    if model {
        let mut all: Vec<&FieldValue> = vec![v, &n, &p];
        if let Some(x) = &wr.stored { all.push(x); }
        if let Some(x) = &wr.raw { all.push(x); }
        if let Some(x) = &wr.read { all.push(x); }
        let tab = float_table(&all);
        let case = tup(vec![ft_term(t), fv_term(v), tab]);
        let obs = tup(vec![json!(valid), fv_term(&n), fv_term(&p),
                           opt_term(wr.stored.as_ref().map(fv_term)), opt_term(wr.raw.as_ref().map(fv_term)), opt_term(wr.read.as_ref().map(fv_term))]);
        model_row(out, "wr", case, obs);
        // typed path: the same value arriving as CBOR through Document::try_from
        let tw = typed_write(t, v).and_then(|d| d.get_field("f").cloned());
        let mut all2: Vec<&FieldValue> = vec![v];
        if let Some(e) = &tw { all2.push(e); }
        model_row(out, "tw", tup(vec![ft_term(t), fv_term(v), float_table(&all2)]), opt_term(tw.as_ref().map(fv_term)));
        // extract path: what FieldType::extract builds from the value's CBOR must be canonical and valid
        if let Ok(e) = t.extract(v.clone().into()) {
            if e.validate_complexity().is_ok() {
                let tab = float_table(&[&e]);
                model_row(out, "ex", tup(vec![ft_term(t), fv_term(&e), tab]), json!(true));
            }
        }
    }
}

fn nest_array(mut v: FieldValue, n: usize) -> FieldValue { for _ in 0..n { v = FieldValue::Array(vec![v]); } v }
fn nest_json(mut v: Json, n: usize) -> Json { for _ in 0..n { v = Json::Array(vec![v]); } v }

/// fixed battery around the complexity budget (exactly at / one over each bound)
fn budget_battery(out: &mut impl Write, st: &mut Stats) {
    let b = FieldValueBudget::default();
    let any = FieldType::Array(vec![]);
    let u = |n: usize| FieldValue::Array(vec![FieldValue::U64(1); n]);
    let over = Mutation { value: FieldValue::Null, class: "over-budget", cbor_invalid: true };
    let arr_u64 = FieldType::Array(vec![FieldType::U64]);
    let arr2 = FieldType::Array(vec![FieldType::Array(vec![FieldType::U64])]);
    let mut cases: Vec<(FieldType, FieldValue, bool)> = vec![
        (arr_u64.clone(), u(b.max_array_len), true),
        (arr_u64.clone(), u(b.max_array_len + 1), false),
        (any.clone(), nest_array(FieldValue::U64(1), b.max_depth), true),
        (any.clone(), nest_array(FieldValue::U64(1), b.max_depth + 1), false),
        (FieldType::Json, FieldValue::Json(nest_json(Json::from(1u64), b.max_depth - 1)), true),
        (FieldType::Json, FieldValue::Json(nest_json(Json::from(1u64), b.max_depth)), false),
        (FieldType::Json, FieldValue::Json(Json::Array(vec![Json::Null; b.max_array_len + 1])), false),
        (FieldType::Vector, FieldValue::Vector(vec![bf16::from_bits(0x3f80); b.max_array_len + 904]), true),
    ];
    // node count: 1 + k + k*m nodes
    let k = 4usize;
    let m_ok = (b.max_nodes - 1 - k) / k;
    cases.push((arr2.clone(), FieldValue::Array(vec![u(m_ok); k]), true));
    cases.push((arr2.clone(), FieldValue::Array(vec![u(m_ok + 1); k]), false));
    let mut big = BTreeMap::new();
    for i in 0..(b.max_map_entries as i64 + 1) { big.insert(FieldKey::I64(i), FieldValue::Bool(true)); }
    let mut okm = big.clone();
    okm.remove(&FieldKey::I64(0));
    let wild = FieldType::Map(BTreeMap::from([(I64_WILDCARD_KEY.clone(), FieldType::Bool)]));
    cases.push((wild.clone(), FieldValue::Map(okm), true));
    cases.push((wild, FieldValue::Map(big), false));
    for (t, v, ok) in cases {
        st.bump(if ok { "budget_at_bound" } else { "budget_over_bound" });
        run_pair(out, st, &t, &v, ok, if ok { None } else { Some(&over) }, true);
    }
    // Vector at a position with no declared element type: one leaf when written, an array when read
    let z = bf16::from_bits(0x3f80);
    let witnesses = vec![
        (any.clone(), FieldValue::Array(vec![FieldValue::Vector(vec![z; b.max_array_len + 1])])),
        (any.clone(), nest_array(FieldValue::Vector(vec![z; 2]), b.max_depth)),
        (FieldType::Map(BTreeMap::new()), FieldValue::Map(BTreeMap::from([(FieldKey::I64(5), FieldValue::Vector(vec![z; b.max_array_len + 1]))]))),
        (any.clone(), FieldValue::Array(vec![FieldValue::Vector(vec![z; b.max_array_len]); 5])),
    ];
    for (t, v) in witnesses {
        st.bump("vector_in_untyped_position");
        run_pair(out, st, &t, &v, false, None, true);
    }
}

fn stream_pairs(out: &mut impl Write, st: &mut Stats, rng: &mut Rng, n_valid: usize, n_mut: usize, n_wild: usize, model_every: usize) {
    let model_every = model_every.max(1);
    let mut i = 0usize;
    let mut types_seen: BTreeSet<String> = BTreeSet::new();
    while i < n_valid {
        let depth = 1 + (i % 4);
        let t = gen_type(rng, depth);
        types_seen.insert(format!("{t:?}"));
        let v = gen_value(rng, &t);
        st.bump(&format!("type_shape:{}", type_shape(&t)));
        st.bump(&format!("type_depth:{}", type_depth(&t)));
        st.bump("valid_pairs");
        run_pair(out, st, &t, &v, true, None, i % model_every == 0);
        // the schema-less read-back shape of the same value, written field by field
        if let Ok(o) = { let s = schema_of(&t); let mut d = Document::new(s); d.set_id(1); d.set_field("f", v.clone()).map_err(|e| e.to_string()).and_then(|d| store_and_decode(d)) } {
            if let Some(raw) = o.fields.get(&1) {
                if !same(raw, &v) {
                    st.bump("readback_shape_pairs");
                    st.evaluations += 1;
                    let wr = write_read(&t, raw);
                    match &wr.stored {
                        Some(s) if same(s, &v) => {}
                        other => st.fail("field-changed", "writing the read-back shape of a canonical value does not restore it".into(), &t, raw, json!({"canonical": format!("{v:?}"), "stored": format!("{other:?}")})),
                    }
                    if i % model_every == 0 { run_pair(out, st, &t, raw, false, None, true); }
                }
            }
        }
        i += 1;
    }
    st.dist.insert("distinct_types".into(), types_seen.len() as u64);
    let mut done = 0usize;
    let mut tries = 0usize;
    while done < n_mut && tries < n_mut * 20 {
        tries += 1;
        let t = gen_type(rng, 1 + (tries % 4));
        let v = gen_value(rng, &t);
        if let Some(m) = mutate(rng, &t, &v) {
            st.bump(&format!("mutation:{}", m.class));
            run_pair(out, st, &t, &m.value.clone(), false, Some(&m), done % model_every == 0);
            done += 1;
        }
    }
    for j in 0..n_wild {
        let t = gen_type(rng, 1 + (j % 3));
        let v = gen_wild(rng, 3);
        st.bump("wild_pairs");
        run_pair(out, st, &t, &v, false, None, j % model_every == 0);
    }
}

// ------------------------------------------------------------------ float hypotheses
fn f32_patterns(rng: &mut Rng, n: usize) -> Vec<u32> {
    let mut v = vec![];
    for e in [0u32, 1, 2, 126, 127, 128, 253, 254, 255] {
        for m in [0u32, 1, 2, 0x3fffff, 0x400000, 0x400001, 0x7ffffe, 0x7fffff, 0x7f0000, 0x010000, 0x008000, 0x007fff] {
            for s in [0u32, 1] { v.push((s << 31) | (e << 23) | m); }
        }
    }
    // every bf16 pattern widened to f32
    for b in 0..=0xffffu32 { v.push(b << 16); }
    while v.len() < n { v.push(rng.next() as u32); }
    v
}
fn f64_patterns(rng: &mut Rng, n: usize) -> Vec<u64> {
    let mut v = vec![];
    for e in [0u64, 1, 873, 874, 875, 896, 897, 1022, 1023, 1024, 1150, 1151, 2046, 2047] {
        for m in [0u64, 1, 1 << 28, (1 << 28) + 1, 1 << 29, (1 << 29) - 1, (1u64 << 52) - 1, (1u64 << 52) - (1 << 29), (1u64 << 52) - (1 << 28), 1u64 << 51] {
            for s in [0u64, 1] { v.push((s << 63) | (e << 52) | m); }
        }
    }
    for d in ["2.71", "0.1", "1e-45", "3.4028235e38", "3.4028236e38", "1.17549435e-38", "16777217", "0.3", "1e39", "-2.71"] {
        v.push(d.parse::<f64>().unwrap().to_bits());
    }
    while v.len() < n { v.push(rng.next()); }
    v
}
fn m_nan64(b: u64) -> bool { (b & 0x7fff_ffff_ffff_ffff) > 0x7ff0_0000_0000_0000 }
fn m_nan32(b: u32) -> bool { (b & 0x7fff_ffff) > 0x7f80_0000 }

fn float_hypotheses(out: &mut impl Write, st: &mut Stats, rng: &mut Rng, n: usize) -> Value {
    let mut bad: Vec<Value> = vec![];
    let mut checked = 0u64;
    let xs = f32_patterns(rng, n);
    for (i, &x) in xs.iter().enumerate() {
        checked += 1;
        let f = f32::from_bits(x);
        if m_nan32(x) != f.is_nan() { bad.push(json!({"h": "nan32", "x": x})); }
        if f.is_nan() { continue; }
        let y = widen(x);
        if narrow(y) != x { bad.push(json!({"h": "narrow_widen", "x": x})); }
        if !is_rb(y) { bad.push(json!({"h": "is_rb_widen", "x": x})); }
        if f64::from_bits(y).is_nan() { bad.push(json!({"h": "widen_not_nan", "x": x})); }
        // what the stored form really is: F32 written, schema-less read gives F64(widen x)
        if i % 64 == 0 {
            let wr = write_read(&FieldType::F32, &FieldValue::F32(f));
            let raw_ok = matches!(&wr.raw, Some(FieldValue::F64(r)) if r.to_bits() == y);
            let read_ok = matches!(&wr.read, Some(FieldValue::F32(r)) if r.to_bits() == x);
            if !(raw_ok && read_ok) { bad.push(json!({"h": "f32_store", "x": x, "raw": format!("{:?}", wr.raw), "read": format!("{:?}", wr.read)})); }
        }
    }
    let ys = f64_patterns(rng, n);
    for (i, &y) in ys.iter().enumerate() {
        checked += 1;
        let f = f64::from_bits(y);
        if m_nan64(y) != f.is_nan() { bad.push(json!({"h": "nan64", "y": y})); }
        if is_rb(y) {
            if f.is_nan() { bad.push(json!({"h": "is_rb_nan", "y": y})); }
            if f32::from_bits(narrow(y)).is_nan() { bad.push(json!({"h": "narrow_rb_not_nan", "y": y})); }
        }
        if i % 256 == 0 && !f.is_nan() {
            // model rows for the bit-level predicates
            model_row(out, "fl", tup(vec![json!(y), json!(narrow(y))]), tup(vec![json!(f.is_nan()), json!(f.is_finite()), json!(f32::from_bits(narrow(y)).is_nan())]));
        }
    }
    for &y in &[f64::NAN.to_bits(), 0xfff8_0000_0000_0001u64, 0x7ff0_0000_0000_0001] {
        model_row(out, "fl", tup(vec![json!(y), json!(narrow(y))]), tup(vec![json!(true), json!(false), json!(f32::from_bits(narrow(y)).is_nan())]));
    }
    st.evaluations += checked;
    for b in bad.iter().take(10) {
        st.failures.push(json!({"class": "ieee-hypothesis", "what": format!("IEEE premise {} fails against Rust's casts", b["h"]), "detail": b}));
    }
    json!({"patterns": checked, "violations": bad.len()})
}

// ------------------------------------------------------------------ schema upgrade chains
#[derive(Clone)]
struct Decl { name: String, t: FieldType, unique: bool }

fn build_schema(decls: &[Decl], version: u64) -> Schema {
    let mut b = Schema::builder();
    b.with_version(version);
    for d in decls {
        let mut e = FieldEntry::new(d.name.clone(), d.t.clone()).unwrap();
        if d.unique { e = e.with_unique(); }
        b.add_field(e).unwrap();
    }
    b.build().unwrap()
}
fn schema_term(s: &Schema) -> Value {
    tup(vec![
        Value::Array(s.iter().map(|e| tup(vec![json!(e.name()), ft_term(e.r#type()), json!(e.unique()), json!(e.idx())])).collect()),
        json!(s.version()), json!(s.allocated_idx_end()),
    ])
}

fn upgrade_chains(out: &mut impl Write, st: &mut Stats, rng: &mut Rng, chains: usize, model_every: usize) {
    let names = ["a", "b", "c", "d", "e", "g"];
    for c in 0..chains {
        let mut decls: Vec<Decl> = vec![];
        for n in names.iter().take(rng.range(1, 4) as usize) {
            let t = if rng.chance(1, 2) { gen_struct_field(rng, 2) } else { gen_type(rng, 2) };
            decls.push(Decl { name: n.to_string(), t, unique: rng.chance(1, 8) });
        }
        let mut cur = build_schema(&decls, 1);
        let mut fresh = 0usize;
        // name -> every idx it ever had; retired = (idx, name) no longer declared
        let mut ever: BTreeMap<usize, String> = cur.iter().map(|e| (e.idx(), e.name().to_string())).collect();
        // a document written under the first schema
        let mut docs: Vec<(u64, BTreeMap<String, FieldValue>, Vec<u8>)> = vec![];
        let write_doc = |schema: &Schema, rng: &mut Rng, ver: u64, docs: &mut Vec<(u64, BTreeMap<String, FieldValue>, Vec<u8>)>| {
            let s = Arc::new(schema.clone());
            let mut d = Document::new(s.clone());
            d.set_id(7);
            let mut vals = BTreeMap::new();
            for e in s.iter() {
                if e.name() == "_id" { continue; }
                let v = gen_value(rng, e.r#type());
                if v == FieldValue::Null && rng.chance(1, 2) { continue; }
                if d.set_field(e.name(), v.clone()).is_ok() { vals.insert(e.name().to_string(), v); }
            }
            if let Ok(b) = cbor2::to_vec(&d) { docs.push((ver, vals, b)); }
        };
        write_doc(&cur, rng, 1, &mut docs);
        let steps = rng.range(2, 6) as u64;
        for ver in 2..(2 + steps) {
            let mut nd = decls.clone();
            let mut illegal = None;
            match rng.below(10) {
                0..=2 => { // add optional
                    let free: Vec<&&str> = names.iter().filter(|n| !nd.iter().any(|d| d.name == **n)).collect();
                    if let Some(n) = free.first() { nd.push(Decl { name: n.to_string(), t: FieldType::Option(Box::new(gen_type(rng, 2))), unique: false }); }
                }
                3..=5 => { if !nd.is_empty() { let i = rng.below(nd.len() as u64) as usize; nd.remove(i); } }
                6 => { // add required: must be refused
                    let free: Vec<&&str> = names.iter().filter(|n| !nd.iter().any(|d| d.name == **n)).collect();
                    if let Some(n) = free.first() {
                        let t = loop { let t = gen_type(rng, 1); if !t.allows_null() { break t; } };
                        nd.push(Decl { name: n.to_string(), t, unique: false }); illegal = Some("new required field");
                    }
                }
                7 => { // change a type incompatibly
                    if !nd.is_empty() {
                        let i = rng.below(nd.len() as u64) as usize;
                        let t = gen_type(rng, 2);
                        if !t.is_compatible_upgrade_of(&nd[i].t) { nd[i].t = t; illegal = Some("incompatible type change"); }
                    }
                }
                8 | 9 => { // nested structs gain an optional key / lose a key, at any depth of any field
                    for d in nd.iter_mut() {
                        let mut changed = false;
                        let t = evolve(rng, &d.t, &mut fresh, &mut changed);
                        if changed && t.is_compatible_upgrade_of(&d.t) { d.t = t; }
                    }
                }
                _ => {} // version bump only
            }
            let mut new = build_schema(&nd, ver);
            let old = cur.clone();
            let fresh = new.clone();
            let res = new.upgrade_with(&old);
            st.evaluations += 1;
            st.bump(if res.is_ok() { "upgrade_accepted" } else { "upgrade_refused" });
            if c % model_every == 0 {
                model_row(out, "up", tup(vec![schema_term(&fresh), schema_term(&old)]), opt_term(res.as_ref().ok().map(|_| schema_term(&new))));
            }
            if let Some(why) = illegal {
                if res.is_ok() { st.failures.push(json!({"class": "illegal-upgrade-accepted", "what": format!("upgrade_with accepts: {why}"), "old": format!("{old:?}"), "new": format!("{fresh:?}")})); }
                continue;
            }
            if res.is_err() {
                st.failures.push(json!({"class": "legal-upgrade-refused", "what": format!("upgrade_with refuses a permitted upgrade: {:?}", res), "old": format!("{old:?}"), "new": format!("{fresh:?}")}));
                continue;
            }
            // ---- direct oracle: indexes
            for e in new.iter() {
                match ever.get(&e.idx()) {
                    Some(n) if n != e.name() => st.failures.push(json!({"class": "retired-index-reused", "what": format!("index {} of field {n:?} reused for {:?}", e.idx(), e.name()), "old": format!("{old:?}"), "new": format!("{new:?}")})),
                    Some(_) => {
                        // same name: must be the surviving field, not a re-added one
                        if old.get_field(e.name()).map(|o| o.idx()) != Some(e.idx()) {
                            st.failures.push(json!({"class": "retired-index-reused", "what": format!("re-added field {:?} got its retired index {}", e.name(), e.idx()), "old": format!("{old:?}"), "new": format!("{new:?}")}));
                        }
                    }
                    None => { ever.insert(e.idx(), e.name().to_string()); }
                }
            }
            // ---- direct oracle: every document written under an earlier version still reads, surviving fields unchanged
            let s_new = Arc::new(new.clone());
            for (wver, vals, bytes) in &docs {
                st.evaluations += 1;
                let owned: DocumentOwned = cbor2::from_reader(&bytes[..]).unwrap();
                if c % model_every == 0 {
                    let fields: Vec<Value> = owned.fields.iter().map(|(i, v)| tup(vec![json!(i), fv_term(v)])).collect();
                    let all: Vec<&FieldValue> = owned.fields.values().collect();
                    let r = Document::try_from_doc(s_new.clone(), owned.clone());
                    let obs = opt_term(r.as_ref().ok().map(|d| Value::Array(d.fields().iter().map(|(i, v)| tup(vec![json!(i), fv_term(v)])).collect())));
                    let mut all2 = all.clone();
                    let rd = r.as_ref().ok().map(|d| d.fields().clone());
                    if let Some(rd) = &rd { all2.extend(rd.values()); }
                    model_row(out, "doc", tup(vec![schema_term(&new), Value::Array(fields), float_table(&all2)]), obs);
                }
                match Document::try_from_doc(s_new.clone(), owned) {
                    Err(e) => st.failures.push(json!({"class": "old-document-unreadable", "what": format!("document written under version {wver} unreadable under version {ver}: {e}"), "schema": format!("{new:?}"), "written": format!("{vals:?}")})),
                    Ok(d) => {
                        for (name, v) in vals {
                            // a field survives while its name stays declared continuously; re-added names start empty
                            let survives = new.get_field(name).is_some() && ever.iter().filter(|(_, n)| *n == name).count() == 1;
                            if !survives { continue; }
                            let got = d.get_field(name);
                            // independent of the implementation's prune_undeclared
                            let expect = project(new.get_field(name).unwrap().r#type(), v);
                            if !got.map(|g| same(g, &expect)).unwrap_or(false) {
                                st.failures.push(json!({"class": "surviving-field-changed", "what": format!("field {name:?} written under version {wver} changed under version {ver}"), "written": format!("{v:?}"), "read": format!("{got:?}")}));
                            }
                        }
                    }
                }
            }
            decls = nd;
            cur = new;
            write_doc(&cur, rng, ver, &mut docs);
        }
    }
}

/// One field, one permitted type evolution: a document written under the old type is read under the new one.
fn evolutions(out: &mut impl Write, st: &mut Stats, rng: &mut Rng, n: usize, model_every: usize) {
    let model_every = model_every.max(1);
    let mut done = 0usize;
    let mut tries = 0usize;
    while done < n && tries < n * 10 {
        tries += 1;
        let t_old = gen_struct_field(rng, 1 + tries % 3);
        let mut fresh = 0usize;
        let mut changed = false;
        let t_new = evolve(rng, &t_old, &mut fresh, &mut changed);
        if !changed || !t_new.is_compatible_upgrade_of(&t_old) { continue; }
        let v = gen_value(rng, &t_old);
        let s_old = schema_of(&t_old);
        let mut d = Document::new(s_old.clone());
        d.set_id(1);
        if d.set_field("f", v.clone()).is_err() { st.fail("valid-rejected", "a canonical valid value is rejected by set_field".into(), &t_old, &v, json!({})); continue; }
        let Ok(bytes) = cbor2::to_vec(&d) else { continue };
        let mut b = Schema::builder();
        b.with_version(1);
        b.add_field(FieldEntry::new("f".into(), t_new.clone()).unwrap()).unwrap();
        let mut s_new = b.build().unwrap();
        let fresh_new = s_new.clone();
        st.evaluations += 1;
        done += 1;
        let res = s_new.upgrade_with(&s_old);
        let model = done % model_every == 0;
        if model { model_row(out, "up", tup(vec![schema_term(&fresh_new), schema_term(&s_old)]), opt_term(res.as_ref().ok().map(|_| schema_term(&s_new)))); }
        if let Err(e) = res {
            st.failures.push(json!({"class": "legal-upgrade-refused", "what": format!("upgrade_with refuses a nested key gain/loss: {e}"), "old": format!("{t_old:?}"), "new": format!("{t_new:?}")}));
            continue;
        }
        let elems = match &v { FieldValue::Array(a) => a.len(), FieldValue::Map(m) => m.len(), _ => 1 };
        st.bump(if elems >= 2 { "evolution_docs_with_2plus_elements" } else { "evolution_docs_small" });
        let owned: DocumentOwned = cbor2::from_reader(&bytes[..]).unwrap();
        let raw = owned.fields.get(&1).cloned().unwrap_or(FieldValue::Null);
        let expect = project(&t_new, &v);
        let s_new = Arc::new(s_new);
        let r = Document::try_from_doc(s_new.clone(), owned.clone());
        match &r {
            Err(e) => st.fail("old-document-unreadable", format!("document written under the old nested type is unreadable after a permitted key gain/loss: {e}"), &t_new, &v,
                              json!({"old_type": format!("{t_old:?}"), "new_type": format!("{t_new:?}"), "written": format!("{v:?}")})),
            Ok(d2) => {
                let got = d2.get_field("f");
                if !got.map(|g| same(g, &expect)).unwrap_or(false) {
                    st.fail("surviving-field-changed", "surviving members of a nested struct changed after a permitted key gain/loss".into(), &t_new, &v,
                            json!({"old_type": format!("{t_old:?}"), "expected": format!("{expect:?}"), "read": format!("{got:?}")}));
                }
            }
        }
        if model {
            // the stored (schema-less) shape under the new type: prune / normalize / validate compared with the model
            run_pair(out, st, &t_new, &raw, false, None, true);
            let fields: Vec<Value> = owned.fields.iter().map(|(i, v)| tup(vec![json!(i), fv_term(v)])).collect();
            let mut all: Vec<&FieldValue> = owned.fields.values().collect();
            let rd = r.as_ref().ok().map(|d| d.fields().clone());
            if let Some(rd) = &rd { all.extend(rd.values()); }
            let obs = opt_term(rd.as_ref().map(|f| Value::Array(f.iter().map(|(i, v)| tup(vec![json!(i), fv_term(v)])).collect())));
            model_row(out, "doc", tup(vec![schema_term(&s_new), Value::Array(fields), float_table(&all)]), obs);
        }
    }
    st.dist.insert("evolutions".into(), done as u64);
}

/// nested key removed, then re-added with another type: the stale entry of a never-rewritten document comes back
fn probe_readd() {
    let item = |note: Option<FieldType>| {
        let mut m = BTreeMap::from([(FieldKey::Text("sku".into()), FieldType::Text)]);
        if let Some(t) = note { m.insert(FieldKey::Text("note".into()), FieldType::Option(Box::new(t))); }
        FieldType::Array(vec![FieldType::Map(m)])
    };
    let mk = |t: FieldType, ver: u64| { let mut b = Schema::builder(); b.with_version(ver); b.add_field(FieldEntry::new("items".into(), t).unwrap()).unwrap(); b.build().unwrap() };
    let v1 = mk(item(Some(FieldType::Text)), 1);
    let mut v2 = mk(item(None), 2);
    println!("v2.upgrade_with(v1): {:?}", v2.upgrade_with(&v1).map_err(|e| e.to_string()));
    for (name, t3) in [("I64", FieldType::I64), ("Text", FieldType::Text)] {
        let mut v3 = mk(item(Some(t3)), 3);
        println!("v3[{name}].upgrade_with(v2): {:?}", v3.upgrade_with(&v2).map_err(|e| e.to_string()));
        let mut d = Document::new(Arc::new(v1.clone()));
        d.set_id(1);
        d.set_field("items", FieldValue::Array(vec![FieldValue::Map(BTreeMap::from([(FieldKey::Text("note".into()), FieldValue::Text("fragile".into())), (FieldKey::Text("sku".into()), FieldValue::Text("a-1".into()))]))])).unwrap();
        let bytes = cbor2::to_vec(&d).unwrap();
        let owned: DocumentOwned = cbor2::from_reader(&bytes[..]).unwrap();
        println!("  read v1 doc under v2: {:?}", Document::try_from_doc(Arc::new(v2.clone()), owned.clone()).map(|d| format!("{:?}", d.get_field("items"))).map_err(|e| e.to_string()));
        println!("  read v1 doc under v3[{name}]: {:?}", Document::try_from_doc(Arc::new(v3.clone()), owned).map(|d| format!("{:?}", d.get_field("items"))).map_err(|e| e.to_string()));
    }
}

/// Known class nested-key-readd-stale: nested keys have no retirement watermark (top-level fields do), so a key
/// removed from a nested struct and later re-added with another type meets the stale entry of a document that was
/// written before the removal and never rewritten.  Each step is a permitted upgrade.
fn nested_readd_witness(st: &mut Stats) {
    let item = |note: Option<FieldType>| {
        let mut m = BTreeMap::from([(FieldKey::Text("sku".into()), FieldType::Text)]);
        if let Some(t) = note { m.insert(FieldKey::Text("note".into()), FieldType::Option(Box::new(t))); }
        FieldType::Array(vec![FieldType::Map(m)])
    };
    let mk = |t: FieldType, ver: u64| { let mut b = Schema::builder(); b.with_version(ver); b.add_field(FieldEntry::new("items".into(), t).unwrap()).unwrap(); b.build().unwrap() };
    let v1 = mk(item(Some(FieldType::Text)), 1);
    let mut v2 = mk(item(None), 2);
    let mut v3 = mk(item(Some(FieldType::I64)), 3);
    if v2.upgrade_with(&v1).is_err() || v3.upgrade_with(&v2).is_err() { return; }
    let written = FieldValue::Array(vec![FieldValue::Map(BTreeMap::from([
        (FieldKey::Text("note".into()), FieldValue::Text("fragile".into())), (FieldKey::Text("sku".into()), FieldValue::Text("a-1".into()))]))]);
    let mut d = Document::new(Arc::new(v1.clone()));
    d.set_id(1);
    if d.set_field("items", written.clone()).is_err() { return; }
    let Ok(bytes) = cbor2::to_vec(&d) else { return };
    let owned: DocumentOwned = cbor2::from_reader(&bytes[..]).unwrap();
    st.evaluations += 1;
    st.bump("nested_key_readd_witness");
    if Document::try_from_doc(Arc::new(v2), owned.clone()).is_err() { return; }
    if let Err(e) = Document::try_from_doc(Arc::new(v3), owned) {
        st.failures.push(json!({"class": "nested-key-readd-stale",
            "what": format!("document written under v1 unreadable under v3 after two permitted upgrades (nested key removed, then re-added with another type): {e}"),
            "v1": format!("{:?}", item(Some(FieldType::Text))), "v2": format!("{:?}", item(None)), "v3": format!("{:?}", item(Some(FieldType::I64))), "written": format!("{written:?}")}));
    }
}

fn probe() {
    probe_readd();
    let z = bf16::from_f32(1.0);
    let show = |t: FieldType, v: FieldValue| {
        let wr = write_read(&t, &v);
        let vs = format!("{v:?}");
        println!("{t:?} <- {}: stored {:?} raw {:?} read {:?} err {}", &vs[..vs.len().min(120)],
                 wr.stored.map(|x| format!("{x:?}").chars().take(120).collect::<String>()), wr.raw.map(|x| format!("{x:?}").chars().take(120).collect::<String>()),
                 wr.read.map(|x| format!("{x:?}").chars().take(120).collect::<String>()), wr.read_err);
    };
    show(FieldType::Array(vec![]), FieldValue::Array(vec![FieldValue::Vector(vec![z; 5000])]));
    show(FieldType::Array(vec![]), FieldValue::Array(vec![FieldValue::I64(5), FieldValue::F32(1.5)]));
    show(FieldType::Json, FieldValue::Bytes(vec![1, 2]));
    show(FieldType::Json, FieldValue::Map(BTreeMap::from([(FieldKey::I64(5), FieldValue::U64(1))])));
    show(FieldType::Json, FieldValue::Map(BTreeMap::from([(FieldKey::Bytes(b"ab".to_vec()), FieldValue::U64(1))])));
    show(FieldType::Json, FieldValue::F64(f64::INFINITY));
    show(FieldType::Json, FieldValue::Vector(vec![z; 3]));
    show(FieldType::Json, FieldValue::Json(Json::Null));
    show(FieldType::Option(Box::new(FieldType::Json)), FieldValue::Json(Json::Null));
    show(FieldType::Json, FieldValue::Null);
    show(FieldType::Map(BTreeMap::new()), FieldValue::Map(BTreeMap::from([(FieldKey::I64(5), FieldValue::Vector(vec![z; 5000]))])));
    show(FieldType::Array(vec![]), nest_array(FieldValue::Vector(vec![z; 2]), 64));
    show(FieldType::Json, FieldValue::Json(serde_json::json!({"a":[1,-2,1.5,-0.0,18446744073709551615u64,null,"b64:AQID"]})));
    show(FieldType::F32, FieldValue::F32(-0.0));
    show(FieldType::F32, FieldValue::F64(2.71));
}

fn main() {
    let args: Vec<String> = std::env::args().collect();
    if args.get(1).map(|s| s.as_str()) == Some("probe") { probe(); return; }
    let outp = arg_value(&args, "--out").expect("--out");
    let num = |f: &str, d: usize| arg_value(&args, f).and_then(|s| s.parse().ok()).unwrap_or(d);
    let mut out = std::io::BufWriter::new(std::fs::File::create(&outp).unwrap());
    let mut rng = Rng::from_env();
    let mut st = Stats::default();
    let r = catch_unwind(AssertUnwindSafe(|| {
        budget_battery(&mut out, &mut st);
        stream_pairs(&mut out, &mut st, &mut rng, num("--valid", 3000), num("--mutations", 3000), num("--wild", 1000), num("--model-every", 4));
        let fl = float_hypotheses(&mut out, &mut st, &mut rng, num("--floats", 100000));
        upgrade_chains(&mut out, &mut st, &mut rng, num("--chains", 300), num("--chain-model-every", 3));
        evolutions(&mut out, &mut st, &mut rng, num("--evolutions", 1500), num("--evolution-model-every", 4));
        nested_readd_witness(&mut st);
        let bt = battery::run(&mut st_failures(&mut st));
        (fl, bt)
    }));
    let (fl, bt) = match r {
        Ok(x) => x,
        Err(_) => { st.failures.push(json!({"class": "panic", "what": "the implementation panicked"})); (json!(null), json!(null)) }
    };
    let summary = json!({"kind": "summary", "evaluations": st.evaluations, "oracle_failures": st.failures.len(), "failures": st.failures,
                         "distribution": st.dist, "float_hypotheses": fl, "derive_battery": bt});
    writeln!(out, "{summary}").unwrap();
}

fn st_failures(st: &mut Stats) -> &mut Vec<Value> { &mut st.failures }
