use anda_db_schema::*;
use std::collections::BTreeMap;
use std::sync::Arc;

fn schema_of(t: FieldType) -> Arc<Schema> {
    let mut b = Schema::builder();
    b.add_field(FieldEntry::new("f".into(), t).unwrap()).unwrap();
    Arc::new(b.build().unwrap())
}
fn try_rt(t: FieldType, v: FieldValue) {
    let s = schema_of(t.clone());
    let mut d = Document::new(s.clone());
    d.set_id(1);
    match d.set_field("f", v.clone()) {
        Err(e) => { println!("{t:?} <- {v:?}: set_field REJECT {e}"); return; }
        Ok(_) => {}
    }
    let stored = d.get_field("f").cloned();
    let bytes = match cbor2::to_vec(&d) { Ok(b) => b, Err(e) => { println!("{t:?} <- {v:?}: SER FAIL {e}"); return; } };
    let owned: DocumentOwned = cbor2::from_reader(&bytes[..]).unwrap();
    let raw = owned.fields.get(&1).cloned();
    match Document::try_from_doc(s, owned) {
        Ok(d2) => println!("{t:?} <- {v:?}: stored {stored:?} raw {raw:?} read {:?}", d2.get_field("f")),
        Err(e) => println!("{t:?} <- {v:?}: stored {stored:?} raw {raw:?} READ FAIL {e}"),
    }
}
fn main() {
    let z = bf16::from_f32(1.0);
    try_rt(FieldType::Array(vec![]), FieldValue::Array(vec![FieldValue::Vector(vec![z; 5000])]));
    try_rt(FieldType::Array(vec![]), FieldValue::Array(vec![FieldValue::I64(5), FieldValue::F32(1.5)]));
    try_rt(FieldType::Json, FieldValue::Bytes(vec![1,2]));
    try_rt(FieldType::Json, FieldValue::Map(BTreeMap::from([(FieldKey::I64(5), FieldValue::U64(1))])));
    try_rt(FieldType::Json, FieldValue::Map(BTreeMap::from([(FieldKey::Bytes(b"ab".to_vec()), FieldValue::U64(1))])));
    try_rt(FieldType::Json, FieldValue::F64(f64::INFINITY));
    try_rt(FieldType::Json, FieldValue::Vector(vec![z; 3]));
    try_rt(FieldType::Json, FieldValue::Json(serde_json::Value::Null));
    try_rt(FieldType::Option(Box::new(FieldType::Json)), FieldValue::Json(serde_json::Value::Null));
    try_rt(FieldType::Json, FieldValue::Null);
    try_rt(FieldType::Map(BTreeMap::new()), FieldValue::Map(BTreeMap::from([(FieldKey::I64(5), FieldValue::Vector(vec![z; 5000]))])));
    // depth
    let mut v = FieldValue::Vector(vec![z; 2]);
    for _ in 0..64 { v = FieldValue::Array(vec![v]); }
    try_rt(FieldType::Array(vec![]), v);
    try_rt(FieldType::Json, FieldValue::Json(serde_json::json!({"a":[1,-2,1.5,-0.0,18446744073709551615u64,null,"b64:AQID"]})));
    try_rt(FieldType::F32, FieldValue::F32(-0.0));
    try_rt(FieldType::F32, FieldValue::F64(2.71));
}
