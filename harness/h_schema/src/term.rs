//! Encoders FieldType / FieldValue / Json -> JSON-encoded Coq terms (lib/coqterm.py), a bit-exact
//! canonical comparison of values, and the per-case float table.
use anda_db_schema::*;
use h_common::*;
use serde_json::{Value, json};
use std::collections::BTreeSet;

pub fn z_u64(u: u64) -> Value { json!(u) }
pub fn z_i64(i: i64) -> Value { json!(i) }
pub fn bytes_term(b: &[u8]) -> Value { Value::Array(b.iter().map(|x| json!(*x)).collect()) }

pub fn key_term(k: &FieldKey) -> Value {
    match k {
        FieldKey::Text(s) => ctor("KText", vec![json!(s)]),
        FieldKey::I64(i) => ctor("KI64", vec![z_i64(*i)]),
        FieldKey::Bytes(b) => ctor("KBytes", vec![bytes_term(b)]),
    }
}

pub fn ft_term(t: &FieldType) -> Value {
    match t {
        FieldType::Bool => ctor("TBool", vec![]),
        FieldType::I64 => ctor("TI64", vec![]),
        FieldType::U64 => ctor("TU64", vec![]),
        FieldType::F64 => ctor("TF64", vec![]),
        FieldType::F32 => ctor("TF32", vec![]),
        FieldType::Bytes => ctor("TBytes", vec![]),
        FieldType::Text => ctor("TText", vec![]),
        FieldType::Json => ctor("TJson", vec![]),
        FieldType::Vector => ctor("TVector", vec![]),
        FieldType::Array(ts) => ctor("TArray", vec![Value::Array(ts.iter().map(ft_term).collect())]),
        FieldType::Map(m) => ctor("TMap", vec![Value::Array(m.iter().map(|(k, t)| tup(vec![key_term(k), ft_term(t)])).collect())]),
        FieldType::Option(t) => ctor("TOption", vec![ft_term(t)]),
    }
}

pub fn json_term(j: &Json) -> Value {
    match j {
        Json::Null => ctor("JNull", vec![]),
        Json::Bool(b) => ctor("JBool", vec![json!(b)]),
        Json::Number(n) => {
            if let Some(u) = n.as_u64() { ctor("JU", vec![z_u64(u)]) }
            else if let Some(i) = n.as_i64() { ctor("JI", vec![z_i64(i)]) }
            else { ctor("JF", vec![z_u64(n.as_f64().unwrap().to_bits())]) }
        }
        Json::String(s) => ctor("JStr", vec![json!(s)]),
        Json::Array(a) => ctor("JArr", vec![Value::Array(a.iter().map(json_term).collect())]),
        Json::Object(o) => {
            // serde_json::Map is a BTreeMap here (no preserve_order); sort anyway
            let mut es: Vec<(&String, &Json)> = o.iter().collect();
            es.sort_by(|a, b| a.0.cmp(b.0));
            ctor("JObj", vec![Value::Array(es.into_iter().map(|(k, v)| tup(vec![json!(k), json_term(v)])).collect())])
        }
    }
}

pub fn fv_term(v: &FieldValue) -> Value {
    match v {
        FieldValue::Bool(b) => ctor("VBool", vec![json!(b)]),
        FieldValue::I64(i) => ctor("VI64", vec![z_i64(*i)]),
        FieldValue::U64(u) => ctor("VU64", vec![z_u64(*u)]),
        FieldValue::F64(f) => ctor("VF64", vec![z_u64(f.to_bits())]),
        FieldValue::F32(f) => ctor("VF32", vec![json!(f.to_bits())]),
        FieldValue::Bytes(b) => ctor("VBytes", vec![bytes_term(b)]),
        FieldValue::Text(s) => ctor("VText", vec![json!(s)]),
        FieldValue::Json(j) => ctor("VJson", vec![json_term(j)]),
        FieldValue::Vector(x) => ctor("VVector", vec![Value::Array(x.iter().map(|b| json!(b.to_bits())).collect())]),
        FieldValue::Array(a) => ctor("VArray", vec![Value::Array(a.iter().map(fv_term).collect())]),
        FieldValue::Map(m) => ctor("VMap", vec![Value::Array(m.iter().map(|(k, v)| tup(vec![key_term(k), fv_term(v)])).collect())]),
        FieldValue::Null => ctor("VNull", vec![]),
    }
}

pub fn opt_term(v: Option<Value>) -> Value { match v { Some(x) => some(x), None => Value::Null } }

/// Bit-exact equality (floats by bit pattern, so -0.0 != 0.0; the derived PartialEq would hide that).
pub fn same(a: &FieldValue, b: &FieldValue) -> bool { fv_term(a) == fv_term(b) }

// ------------------------------------------------------------------ float table
pub fn widen(x: u32) -> u64 { (f32::from_bits(x) as f64).to_bits() }
pub fn narrow(y: u64) -> u32 { (f64::from_bits(y) as f32).to_bits() }
/// is_f32_read_back, observed through the public API
pub fn is_rb(y: u64) -> bool { FieldType::F32.validate(&FieldValue::F64(f64::from_bits(y))).is_ok() }

fn collect_json(j: &Json, s64: &mut BTreeSet<u64>) {
    match j {
        Json::Number(n) if n.as_u64().is_none() && n.as_i64().is_none() => { s64.insert(n.as_f64().unwrap().to_bits()); }
        Json::Array(a) => a.iter().for_each(|x| collect_json(x, s64)),
        Json::Object(o) => o.values().for_each(|x| collect_json(x, s64)),
        _ => {}
    }
}
pub fn collect(v: &FieldValue, s64: &mut BTreeSet<u64>, s32: &mut BTreeSet<u32>) {
    match v {
        FieldValue::F64(f) => { s64.insert(f.to_bits()); }
        FieldValue::F32(f) => { s32.insert(f.to_bits()); }
        FieldValue::Json(j) => collect_json(j, s64),
        FieldValue::Array(a) => a.iter().for_each(|x| collect(x, s64, s32)),
        FieldValue::Map(m) => m.values().for_each(|x| collect(x, s64, s32)),
        _ => {}
    }
}
/// (widen table, narrow/is_rb table) closed under widen/narrow for every float in the values
pub fn float_table(vs: &[&FieldValue]) -> Value {
    let mut s64 = BTreeSet::new();
    let mut s32 = BTreeSet::new();
    for v in vs { collect(v, &mut s64, &mut s32); }
    loop {
        let n = (s64.len(), s32.len());
        for x in s32.clone() { s64.insert(widen(x)); }
        for y in s64.clone() { s32.insert(narrow(y)); }
        if n == (s64.len(), s32.len()) { break; }
    }
    tup(vec![
        Value::Array(s32.iter().map(|x| tup(vec![json!(*x), json!(widen(*x))])).collect()),
        Value::Array(s64.iter().map(|y| tup(vec![json!(*y), tup(vec![json!(is_rb(*y)), json!(narrow(*y))])])).collect()),
    ])
}
