//! Fixed battery of #[derive(AndaDBSchema)] / #[derive(FieldTyped)] structs covering the supported Rust
//! types: T -> Document::try_from -> CBOR bytes -> DocumentOwned -> Document::try_from_doc -> try_into::<T>
//! must reproduce T, and the stored fields must equal the written ones.
use anda_db_schema::*;
use serde::{Deserialize, Serialize, de::DeserializeOwned};
use serde_json::{Value, json};
use std::collections::{BTreeMap, BTreeSet, HashMap};
use std::sync::Arc;

#[derive(Debug, Clone, PartialEq, Serialize, Deserialize, FieldTyped)]
pub struct Inner {
    pub label: String,
    pub score: f32,
    pub count: i64,
    pub note: Option<String>,
    pub tags: Vec<String>,
}

#[derive(Debug, Clone, PartialEq, Serialize, Deserialize, AndaDBSchema)]
pub struct Scalars {
    pub _id: u64,
    pub b: bool,
    pub i8v: i8,
    pub i16v: i16,
    pub i32v: i32,
    pub i64v: i64,
    pub u8v: u8,
    pub u16v: u16,
    pub u32v: u32,
    pub u64v: u64,
    pub f32v: f32,
    pub f64v: f64,
    pub s: String,
    #[serde(with = "serde_bytes")]
    pub bytes: Vec<u8>,
    pub plain_bytes: Vec<u8>,
    pub arr_bytes: [u8; 4],
}

#[derive(Debug, Clone, PartialEq, Serialize, Deserialize, AndaDBSchema)]
pub struct Composite {
    pub _id: u64,
    pub opt_i: Option<i64>,
    pub opt_f: Option<f32>,
    pub opt_s: Option<String>,
    pub list_i: Vec<i64>,
    pub list_f: Vec<f32>,
    pub set_s: BTreeSet<String>,
    pub map_s: BTreeMap<String, i64>,
    pub map_i: BTreeMap<i64, String>,
    pub hmap: HashMap<String, f32>,
    pub vector: Vec<bf16>,
    pub json: serde_json::Value,
    pub opt_json: Option<serde_json::Value>,
    pub inner: Inner,
    pub inners: Vec<Inner>,
    pub opt_inner: Option<Inner>,
    pub nested: Vec<Vec<Option<i64>>>,
    pub boxed: Box<i64>,
}

fn inner(k: i64) -> Inner {
    Inner { label: format!("l{k}"), score: [0.0f32, -0.0, 2.71, f32::MAX, 1e-45, f32::INFINITY][k as usize % 6], count: [0, -1, i64::MAX, i64::MIN, 5][k as usize % 5],
            note: if k % 2 == 0 { None } else { Some("n".into()) }, tags: (0..k % 3).map(|i| format!("t{i}")).collect() }
}

fn roundtrip<T>(name: &str, schema: Schema, value: &T, fails: &mut Vec<Value>) -> u64
where T: Serialize + DeserializeOwned + PartialEq + std::fmt::Debug {
    let s = Arc::new(schema);
    let fail = |fails: &mut Vec<Value>, what: String| fails.push(json!({"class": "derive-roundtrip", "what": what, "struct": name, "value": format!("{value:?}")}));
    let d = match Document::try_from(s.clone(), value) { Ok(d) => d, Err(e) => { fail(fails, format!("Document::try_from rejects a derived struct: {e}")); return 1; } };
    let bytes = match cbor2::to_vec(&d) { Ok(b) => b, Err(e) => { fail(fails, format!("encode: {e}")); return 1; } };
    let owned: DocumentOwned = match cbor2::from_reader(&bytes[..]) { Ok(o) => o, Err(e) => { fail(fails, format!("decode: {e}")); return 1; } };
    let d2 = match Document::try_from_doc(s.clone(), owned) { Ok(d) => d, Err(e) => { fail(fails, format!("accepted on write, rejected on read: {e}")); return 1; } };
    for e in s.iter() {
        let (a, b) = (d.get_field(e.name()), d2.get_field(e.name()));
        let eq = match (a, b) { (Some(a), Some(b)) => crate::term::same(a, b), (None, None) => true, _ => false };
        if !eq { fail(fails, format!("field {:?} written as {a:?} read back as {b:?}", e.name())); }
        if let Some(b) = b { if e.validate(b).is_err() { fail(fails, format!("field {:?} read back invalid", e.name())); } }
    }
    match d2.try_into::<T>() {
        // compared through FieldValue (maps sorted, floats and bf16 by bit pattern): derived PartialEq would call
        // bf16 NaN unequal, and HashMap iteration order differs from one instance to the next
        Ok(back) => {
            let a = FieldValue::serialized(&back, None).map(|v| crate::term::fv_term(&v)).ok();
            let b = FieldValue::serialized(value, None).map(|v| crate::term::fv_term(&v)).ok();
            if a.is_none() || a != b { fail(fails, format!("typed value not reproduced: {back:?}")); }
        }
        Err(e) => fail(fails, format!("try_into fails: {e}")),
    }
    1
}

pub fn run(fails: &mut Vec<Value>) -> Value {
    let mut n = 0u64;
    let f64s = [0.0f64, -0.0, 2.71, f64::MAX, 5e-324, f64::NEG_INFINITY, 1e-300, 0.1];
    let f32s = [0.0f32, -0.0, 2.71, f32::MAX, 1e-45, f32::NEG_INFINITY, f32::MIN_POSITIVE, 0.1];
    let i64s = [0i64, -1, 1, i64::MAX, i64::MIN, 255, 65536, -9007199254740993];
    let u64s = [0u64, 1, u64::MAX, i64::MAX as u64, i64::MAX as u64 + 1, 255, 65535, 4294967296];
    for k in 0..8usize {
        let v = Scalars { _id: k as u64 + 1, b: k % 2 == 0, i8v: [0, -1, i8::MAX, i8::MIN][k % 4], i16v: [0, -1, i16::MAX, i16::MIN][k % 4],
                          i32v: [0, -1, i32::MAX, i32::MIN][k % 4], i64v: i64s[k], u8v: [0, 1, 255, 128][k % 4], u16v: [0, 1, u16::MAX, 256][k % 4],
                          u32v: [0, 1, u32::MAX, 65536][k % 4], u64v: u64s[k], f32v: f32s[k], f64v: f64s[k],
                          s: ["", "a", "b64:AQID", "txt:x", "*", "i64:7", "\u{00e9}\u{4e2d}", "x y"][k].to_string(),
                          bytes: vec![0, 1, 255][..k % 4].to_vec(), plain_bytes: vec![7, 8, 9][..(k + 1) % 4].to_vec(), arr_bytes: [k as u8, 0, 255, 1] };
        n += roundtrip("Scalars", Scalars::schema().unwrap(), &v, fails);
    }
    for k in 0..10i64 {
        let ku = k as usize;
        let v = Composite {
            _id: k as u64 + 1,
            opt_i: if k % 3 == 0 { None } else { Some(i64s[ku % 8]) },
            opt_f: if k % 3 == 1 { None } else { Some(f32s[ku % 8]) },
            opt_s: if k % 2 == 0 { None } else { Some("s".into()) },
            list_i: i64s[..ku % 8].to_vec(),
            list_f: f32s[..(ku + 3) % 8].to_vec(),
            set_s: (0..k % 4).map(|i| format!("s{i}")).collect(),
            map_s: (0..k % 4).map(|i| (format!("k{i}"), i64s[(i as usize + ku) % 8])).collect(),
            map_i: (0..k % 3).map(|i| (i64s[(i as usize + ku) % 8], format!("v{i}"))).collect(),
            hmap: (0..k % 3).map(|i| (format!("h{i}"), f32s[(i as usize + ku) % 8])).collect(),
            vector: [0x0000u16, 0x8000, 0x7f80, 0x7fc0, 0x0001, 0xffff, 0x3f80][..ku % 7].iter().map(|b| bf16::from_bits(*b)).collect(),
            json: [json!(null), json!({"a": [1, -2, 1.5, null, "b64:AQID"], "b": {"c": 18446744073709551615u64}}), json!([]), json!("s"), json!(-0.0), json!(true),
                   json!({"*": 1}), json!([[[]]]), json!(1e300), json!({"": ""})][ku].clone(),
            opt_json: if k % 2 == 0 { None } else { Some(json!({"k": k})) },
            inner: inner(k),
            inners: (0..k % 3).map(|i| inner(k + i)).collect(),
            opt_inner: if k % 2 == 0 { Some(inner(k + 1)) } else { None },
            nested: vec![vec![Some(1), None, Some(i64::MIN)], vec![], vec![None]][..ku % 4].to_vec(),
            boxed: Box::new(i64s[ku % 8]),
        };
        n += roundtrip("Composite", Composite::schema().unwrap(), &v, fails);
    }
    json!({"structs": 2, "values": n})
}
