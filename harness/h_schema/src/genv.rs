//! Grammar-driven generation of FieldType, of canonical valid values of a type, of arbitrary
//! ("wild") values, and of single mutations that violate the type.
use anda_db_schema::*;
use h_common::Rng;
use std::collections::BTreeMap;

const TEXTS: [&str; 8] = ["", "a", "*", "name", "b64:AQID", "txt:x", "i64:5", "hello world"];
const KEYS: [&str; 6] = ["a", "b", "c", "k1", "name", "zz"];

pub fn scalar(rng: &mut Rng) -> FieldType {
    match rng.below(9) {
        0 => FieldType::Bool, 1 => FieldType::I64, 2 => FieldType::U64, 3 => FieldType::F64, 4 => FieldType::F32,
        5 => FieldType::Bytes, 6 => FieldType::Text, 7 => FieldType::Json, _ => FieldType::Vector,
    }
}

pub fn gen_key(rng: &mut Rng, kind: u64) -> FieldKey {
    match kind {
        0 => FieldKey::Text(rng.pick(&KEYS).to_string()),
        1 => FieldKey::I64(*rng.pick(&[0i64, 1, -1, 7, i64::MAX, i64::MIN + 1, 42])),
        _ => FieldKey::Bytes(rng.pick(&[vec![], vec![0u8], vec![1, 2], vec![255], vec![42, 42]]).clone()),
    }
}

pub fn gen_type(rng: &mut Rng, depth: usize) -> FieldType {
    if depth == 0 || rng.chance(2, 5) { return scalar(rng); }
    match rng.below(12) {
        0 | 1 => FieldType::Option(Box::new(gen_type(rng, depth - 1))),
        2 => FieldType::Array(vec![]),
        3 | 4 => FieldType::Array(vec![gen_type(rng, depth - 1)]),
        5 | 6 => { let n = rng.range(2, 3) as usize; FieldType::Array((0..n).map(|_| gen_type(rng, depth - 1)).collect()) }
        7 => FieldType::Map(BTreeMap::new()),
        8 | 9 => {
            let k = match rng.below(3) { 0 => TEXT_WILDCARD_KEY.clone(), 1 => I64_WILDCARD_KEY.clone(), _ => BYTES_WILDCARD_KEY.clone() };
            FieldType::Map(BTreeMap::from([(k, gen_type(rng, depth - 1))]))
        }
        _ => {
            let n = rng.range(1, 3) as usize;
            let kind = rng.below(4); // 3 = mixed key kinds
            let mut m = BTreeMap::new();
            for _ in 0..n {
                let kk = if kind == 3 { rng.below(3) } else { kind };
                let k = gen_key(rng, kk);
                if m.len() == 0 && n == 1 && (k == *TEXT_WILDCARD_KEY || k == *I64_WILDCARD_KEY || k == *BYTES_WILDCARD_KEY) { continue; }
                let t = if rng.chance(1, 3) { FieldType::Option(Box::new(gen_type(rng, depth - 1))) } else { gen_type(rng, depth - 1) };
                m.insert(k, t);
            }
            if m.is_empty() { m.insert(FieldKey::Text("a".into()), FieldType::Bool); }
            FieldType::Map(m)
        }
    }
}

pub fn f64_edge(rng: &mut Rng) -> f64 {
    let e = [0.0f64, -0.0, 1.0, -1.5, 2.71, f64::MIN_POSITIVE, 5e-324, -5e-324, f64::MAX, f64::MIN, f64::INFINITY,
             f64::NEG_INFINITY, 1e-300, 1e308, 0.1, 2.7100000000001, 3.4028234663852886e38, 3.4028235677973366e38,
             1.401298464324817e-45, 7e-46, 16777217.0];
    if rng.chance(2, 3) { *rng.pick(&e) } else { loop { let x = f64::from_bits(rng.next()); if !x.is_nan() { return x; } } }
}
pub fn f32_edge(rng: &mut Rng) -> f32 {
    let e = [0.0f32, -0.0, 1.0, -1.5, 2.71, f32::MIN_POSITIVE, 1e-45, -1e-45, f32::MAX, f32::MIN, f32::INFINITY,
             f32::NEG_INFINITY, 0.1, 16777216.0, 1.1754942e-38];
    if rng.chance(2, 3) { *rng.pick(&e) } else { loop { let x = f32::from_bits(rng.next() as u32); if !x.is_nan() { return x; } } }
}
pub fn i64_edge(rng: &mut Rng) -> i64 {
    if rng.chance(2, 3) { *rng.pick(&[i64::MIN, -1, 0, 1, i64::MAX, -9007199254740993, 255, 65536]) } else { rng.next() as i64 }
}
pub fn u64_edge(rng: &mut Rng) -> u64 {
    if rng.chance(2, 3) { *rng.pick(&[0u64, 1, u64::MAX, i64::MAX as u64, i64::MAX as u64 + 1, 65535, 65536, 255, 256]) } else { rng.next() }
}
pub fn bf16_edge(rng: &mut Rng) -> bf16 {
    let e = [0x0000u16, 0x8000, 0x7f80, 0xff80, 0x7fc0, 0x7f81, 0x0001, 0x007f, 0x0080, 0x7f7f, 0xffff, 0x3f80];
    bf16::from_bits(if rng.chance(2, 3) { *rng.pick(&e) } else { rng.next() as u16 })
}
fn bytes(rng: &mut Rng) -> Vec<u8> { (0..rng.below(4)).map(|_| *rng.pick(&[0u8, 1, 42, 127, 128, 255])).collect() }
fn text(rng: &mut Rng) -> String { rng.pick(&TEXTS).to_string() }

pub fn gen_json(rng: &mut Rng, depth: usize) -> Json {
    let leaf = depth == 0 || rng.chance(1, 2);
    if leaf {
        return match rng.below(7) {
            0 => Json::Null, 1 => Json::Bool(rng.chance(1, 2)),
            2 => Json::from(u64_edge(rng)),
            3 => { let i = i64_edge(rng); Json::from(i) }
            4 => { loop { let f = f64_edge(rng); if f.is_finite() { return Json::from(f); } } }
            _ => Json::String(text(rng)),
        };
    }
    if rng.chance(1, 2) {
        Json::Array((0..rng.below(4)).map(|_| gen_json(rng, depth - 1)).collect())
    } else {
        let mut m = serde_json::Map::new();
        for _ in 0..rng.below(4) { m.insert(if rng.chance(1, 4) { text(rng) } else { rng.pick(&KEYS).to_string() }, gen_json(rng, depth - 1)); }
        Json::Object(m)
    }
}

/// values that schema-less read-back leaves unchanged (what FieldValue::try_from builds)
pub fn gen_plain(rng: &mut Rng, depth: usize) -> FieldValue {
    if depth == 0 || rng.chance(3, 5) {
        return match rng.below(7) {
            0 => FieldValue::Bool(rng.chance(1, 2)),
            1 => { let i = i64_edge(rng); if i < 0 { FieldValue::I64(i) } else { FieldValue::U64(i as u64) } }
            2 => FieldValue::U64(u64_edge(rng)),
            3 => FieldValue::F64(f64_edge(rng)),
            4 => FieldValue::Bytes(bytes(rng)),
            5 => FieldValue::Text(text(rng)),
            _ => FieldValue::Null,
        };
    }
    if rng.chance(1, 2) {
        FieldValue::Array((0..rng.below(4)).map(|_| gen_plain(rng, depth - 1)).collect())
    } else {
        let mut m = BTreeMap::new();
        for _ in 0..rng.below(4) { let k = rng.below(3); m.insert(gen_key(rng, k), gen_plain(rng, depth - 1)); }
        FieldValue::Map(m)
    }
}

/// a canonical valid value of type t (declared variant everywhere)
pub fn gen_value(rng: &mut Rng, t: &FieldType) -> FieldValue {
    match t {
        FieldType::Bool => FieldValue::Bool(rng.chance(1, 2)),
        FieldType::I64 => FieldValue::I64(i64_edge(rng)),
        FieldType::U64 => FieldValue::U64(u64_edge(rng)),
        FieldType::F64 => FieldValue::F64(f64_edge(rng)),
        FieldType::F32 => FieldValue::F32(f32_edge(rng)),
        FieldType::Bytes => FieldValue::Bytes(bytes(rng)),
        FieldType::Text => FieldValue::Text(text(rng)),
        FieldType::Json => FieldValue::Json(gen_json(rng, 3)),
        FieldType::Vector => FieldValue::Vector((0..rng.below(5)).map(|_| bf16_edge(rng)).collect()),
        FieldType::Array(ts) => match ts.len() {
            0 => FieldValue::Array((0..rng.below(4)).map(|_| gen_plain(rng, 2)).collect()),
            1 => FieldValue::Array((0..rng.below(4)).map(|_| gen_value(rng, &ts[0])).collect()),
            _ => FieldValue::Array(ts.iter().map(|t| gen_value(rng, t)).collect()),
        },
        FieldType::Map(m) => {
            if m.is_empty() {
                let mut r = BTreeMap::new();
                for _ in 0..rng.below(4) { let k = rng.below(3); r.insert(gen_key(rng, k), gen_plain(rng, 2)); }
                FieldValue::Map(r)
            } else if let Some((wk, ft)) = as_wildcard_map(m) {
                let kind = match wk { FieldKey::Text(_) => 0, FieldKey::I64(_) => 1, FieldKey::Bytes(_) => 2 };
                let mut r = BTreeMap::new();
                for _ in 0..rng.below(4) { r.insert(gen_key(rng, kind), gen_value(rng, ft)); }
                FieldValue::Map(r)
            } else {
                let mut r = BTreeMap::new();
                for (k, ft) in m {
                    if ft.allows_null() && rng.chance(1, 3) { continue; }
                    r.insert(k.clone(), gen_value(rng, ft));
                }
                FieldValue::Map(r)
            }
        }
        FieldType::Option(ft) => {
            if rng.chance(1, 3) { return FieldValue::Null; }
            loop {
                let v = gen_value(rng, ft);
                // Json(null) is stored as CBOR null: not a canonical non-null payload
                if v != FieldValue::Json(Json::Null) { return v; }
            }
        }
    }
}

/// any FieldValue at all, independent of a type
pub fn gen_wild(rng: &mut Rng, depth: usize) -> FieldValue {
    if depth == 0 || rng.chance(1, 2) {
        return match rng.below(12) {
            0 => FieldValue::Bool(true), 1 => FieldValue::I64(i64_edge(rng)), 2 => FieldValue::U64(u64_edge(rng)),
            3 => FieldValue::F64(f64_edge(rng)), 4 => FieldValue::F32(f32_edge(rng)), 5 => FieldValue::Bytes(bytes(rng)),
            6 => FieldValue::Text(text(rng)), 7 => FieldValue::Json(gen_json(rng, 2)),
            8 => FieldValue::Vector((0..rng.below(4)).map(|_| bf16_edge(rng)).collect()),
            9 => FieldValue::Null,
            10 => FieldValue::F64(if rng.chance(1, 2) { f64::NAN } else { f64::from_bits(0xfff8_0000_0000_0001) }),
            _ => FieldValue::F32(f32::NAN),
        };
    }
    if rng.chance(1, 2) {
        FieldValue::Array((0..rng.below(4)).map(|_| gen_wild(rng, depth - 1)).collect())
    } else {
        let mut m = BTreeMap::new();
        for _ in 0..rng.below(4) { let k = rng.below(3); m.insert(gen_key(rng, k), gen_wild(rng, depth - 1)); }
        FieldValue::Map(m)
    }
}

pub struct Mutation { pub value: FieldValue, pub class: &'static str, pub cbor_invalid: bool }

fn wrong_variant(rng: &mut Rng, t: &FieldType) -> Option<(FieldValue, bool)> {
    // (replacement, also invalid when the value arrives as CBOR through FieldType::extract)
    let big = FieldValue::U64(i64::MAX as u64 + 1);
    Some(match t {
        FieldType::Bool => (FieldValue::Text("true".into()), true),
        FieldType::I64 => match rng.below(3) { 0 => (big, true), 1 => (FieldValue::F64(1.0), true), _ => (FieldValue::Text("1".into()), true) },
        FieldType::U64 => match rng.below(3) { 0 => (FieldValue::I64(-1), true), 1 => (FieldValue::I64(5), false), _ => (FieldValue::Text("1".into()), true) },
        FieldType::F64 => match rng.below(3) { 0 => (FieldValue::U64(1), true), 1 => (FieldValue::F32(1.5), false), _ => (FieldValue::Text("1.5".into()), true) },
        FieldType::F32 => match rng.below(4) { 0 => (FieldValue::F64(1e308), true), 1 => (FieldValue::F64(2.7100000000001), false),
                                               2 => (FieldValue::F64(1e-300), false), _ => (FieldValue::U64(1), true) },
        FieldType::Bytes => (FieldValue::Text("AQID".into()), true),
        FieldType::Text => match rng.below(2) { 0 => (FieldValue::Bytes(vec![104, 105]), true), _ => (FieldValue::U64(7), true) },
        FieldType::Vector => match rng.below(3) { 0 => (FieldValue::Array(vec![FieldValue::U64(1), FieldValue::U64(65536)]), true),
                                                  1 => (FieldValue::Array(vec![FieldValue::I64(1)]), false), _ => (FieldValue::Text("v".into()), true) },
        FieldType::Array(_) => match rng.below(2) { 0 => (FieldValue::Map(BTreeMap::new()), true), _ => (FieldValue::Text("[]".into()), true) },
        FieldType::Map(_) => match rng.below(2) { 0 => (FieldValue::Array(vec![]), true), _ => (FieldValue::U64(0), true) },
        FieldType::Json | FieldType::Option(_) => return None,
    })
}

/// One violation somewhere in (t, v); v must be a canonical value of t. None if no site applies.
pub fn mutate(rng: &mut Rng, t: &FieldType, v: &FieldValue) -> Option<Mutation> {
    // descend first with some probability when there is a typed child
    match (t, v) {
        (FieldType::Option(ft), v) => {
            // Null is fine here; put an invalid payload instead
            let w = if *v != FieldValue::Null { v.clone() } else { gen_value(rng, ft) };
            return mutate(rng, ft, &w).filter(|m| m.value != FieldValue::Null);
        }
        (FieldType::Array(ts), FieldValue::Array(vs)) if !ts.is_empty() && !vs.is_empty() && rng.chance(1, 2) => {
            let i = rng.below(vs.len() as u64) as usize;
            let ft = if ts.len() == 1 { &ts[0] } else { &ts[i] };
            if let Some(m) = mutate(rng, ft, &vs[i]) {
                let mut vs = vs.clone();
                vs[i] = m.value;
                return Some(Mutation { value: FieldValue::Array(vs), ..m });
            }
        }
        (FieldType::Map(tm), FieldValue::Map(vm)) if !tm.is_empty() && !vm.is_empty() && rng.chance(1, 2) => {
            let i = rng.below(vm.len() as u64) as usize;
            let (k, x) = vm.iter().nth(i).unwrap();
            let ft = if let Some((_, ft)) = as_wildcard_map(tm) { ft } else { tm.get(k).unwrap() };
            if let Some(m) = mutate(rng, ft, x) {
                let mut vm = vm.clone();
                vm.insert(k.clone(), m.value);
                return Some(Mutation { value: FieldValue::Map(vm), ..m });
            }
        }
        _ => {}
    }
    // mutate here
    let mut choices: Vec<u8> = vec![];
    if !matches!(t, FieldType::Json | FieldType::Option(_)) { choices.push(0); choices.push(1); }
    if matches!(t, FieldType::F64 | FieldType::F32) { choices.push(2); }
    if let (FieldType::Array(ts), FieldValue::Array(_)) = (t, v) { if ts.len() >= 2 { choices.push(3); } }
    if let (FieldType::Map(tm), FieldValue::Map(vm)) = (t, v) {
        if !tm.is_empty() {
            if as_wildcard_map(tm).is_some() { choices.push(5); } else {
                choices.push(4);
                if vm.iter().any(|(k, _)| !tm[k].allows_null()) { choices.push(6); }
            }
        }
    }
    if choices.is_empty() { return None; }
    match *rng.pick(&choices) {
        0 => wrong_variant(rng, t).map(|(value, c)| Mutation { value, class: "wrong-variant", cbor_invalid: c }),
        1 => Some(Mutation { value: FieldValue::Null, class: "null-under-non-option", cbor_invalid: true }),
        2 => Some(Mutation { value: if *t == FieldType::F64 { FieldValue::F64(f64::NAN) } else { FieldValue::F32(f32::NAN) }, class: "nan", cbor_invalid: true }),
        3 => {
            let FieldValue::Array(vs) = v else { return None };
            let mut vs = vs.clone();
            if rng.chance(1, 2) { vs.pop(); } else { vs.push(vs[0].clone()); }
            Some(Mutation { value: FieldValue::Array(vs), class: "tuple-arity", cbor_invalid: true })
        }
        4 => {
            let (FieldType::Map(tm), FieldValue::Map(vm)) = (t, v) else { return None };
            let mut vm = vm.clone();
            let extra = [FieldKey::Text("undeclared".into()), FieldKey::I64(-99), FieldKey::Bytes(vec![9, 9, 9])];
            let k = rng.pick(&extra).clone();
            if tm.contains_key(&k) { return None; }
            vm.insert(k, FieldValue::Null);
            Some(Mutation { value: FieldValue::Map(vm), class: "undeclared-key", cbor_invalid: true })
        }
        5 => {
            let (FieldType::Map(tm), FieldValue::Map(vm)) = (t, v) else { return None };
            let (wk, ft) = as_wildcard_map(tm).unwrap();
            let mut vm = vm.clone();
            let k = match wk { FieldKey::Text(_) => FieldKey::I64(3), FieldKey::I64(_) => FieldKey::Bytes(vec![3]), FieldKey::Bytes(_) => FieldKey::Text("3".into()) };
            vm.insert(k, gen_value(rng, ft));
            Some(Mutation { value: FieldValue::Map(vm), class: "wildcard-key-kind", cbor_invalid: true })
        }
        _ => {
            let (FieldType::Map(tm), FieldValue::Map(vm)) = (t, v) else { return None };
            let mut vm = vm.clone();
            let k = vm.keys().find(|k| !tm[*k].allows_null()).unwrap().clone();
            if tm[&k] == FieldType::Json { return None; } // a missing Json key is validated against Null, which Json accepts
            vm.remove(&k);
            Some(Mutation { value: FieldValue::Map(vm), class: "missing-required-key", cbor_invalid: true })
        }
    }
}

// ------------------------------------------------------------------ nested structs and their evolution
const FIELD_NAMES: [&str; 6] = ["sku", "note", "qty", "tags", "meta", "price"];

/// a struct-like (explicitly keyed, text keys) map type whose members are scalars, options, nested structs,
/// arrays / tuples / wildcard maps / options of nested structs — the shapes #[derive(FieldTyped)] emits
pub fn gen_struct(rng: &mut Rng, depth: usize) -> FieldType {
    let n = rng.range(2, 4) as usize;
    let mut m = BTreeMap::new();
    let mut names = FIELD_NAMES.to_vec();
    rng.shuffle(&mut names);
    for name in names.into_iter().take(n) {
        let member = if depth == 0 { scalar(rng) } else {
            match rng.below(10) {
                0 | 1 => scalar(rng),
                2 => FieldType::Option(Box::new(scalar(rng))),
                3 => gen_struct(rng, depth - 1),
                4 | 5 => FieldType::Array(vec![gen_struct(rng, depth - 1)]),
                6 => FieldType::Array(vec![scalar(rng), gen_struct(rng, depth - 1)]),
                7 => FieldType::Map(BTreeMap::from([(TEXT_WILDCARD_KEY.clone(), gen_struct(rng, depth - 1))])),
                8 => FieldType::Option(Box::new(gen_struct(rng, depth - 1))),
                _ => FieldType::Array(vec![FieldType::Option(Box::new(gen_struct(rng, depth - 1)))]),
            }
        };
        m.insert(FieldKey::Text(name.to_string()), member);
    }
    FieldType::Map(m)
}

/// a field type that carries nested structs: a struct, or an array / tuple / map / option of structs
pub fn gen_struct_field(rng: &mut Rng, depth: usize) -> FieldType {
    let s = gen_struct(rng, depth);
    match rng.below(8) {
        0 => s,
        1 | 2 | 3 => FieldType::Array(vec![s]),
        4 => FieldType::Array(vec![FieldType::Text, s]),
        5 => FieldType::Map(BTreeMap::from([(I64_WILDCARD_KEY.clone(), s)])),
        6 => FieldType::Option(Box::new(FieldType::Array(vec![s]))),
        _ => FieldType::Array(vec![FieldType::Array(vec![s])]),
    }
}

/// A permitted evolution of t: keyed maps lose a key and / or gain an optional one, at any depth.
/// `fresh` numbers the added keys so a name is never re-added with another type.
pub fn evolve(rng: &mut Rng, t: &FieldType, fresh: &mut usize, changed: &mut bool) -> FieldType {
    match t {
        FieldType::Array(ts) => FieldType::Array(ts.iter().map(|t| evolve(rng, t, fresh, changed)).collect()),
        FieldType::Option(t) => FieldType::Option(Box::new(evolve(rng, t, fresh, changed))),
        FieldType::Map(m) if m.is_empty() => t.clone(),
        FieldType::Map(m) => {
            if let Some((k, ft)) = as_wildcard_map(m) {
                return FieldType::Map(BTreeMap::from([(k.clone(), evolve(rng, ft, fresh, changed))]));
            }
            let mut r: BTreeMap<FieldKey, FieldType> = m.iter().map(|(k, ft)| (k.clone(), evolve(rng, ft, fresh, changed))).collect();
            if r.len() > 1 && rng.chance(1, 2) {
                let i = rng.below(r.len() as u64) as usize;
                let k = r.keys().nth(i).unwrap().clone();
                r.remove(&k);
                *changed = true;
            }
            if rng.chance(1, 3) {
                *fresh += 1;
                r.insert(FieldKey::Text(format!("added{fresh}")), FieldType::Option(Box::new(scalar(rng))));
                *changed = true;
            }
            // a one-key map whose key is a wildcard sentinel would change meaning
            if as_wildcard_map(&r).is_some() { *fresh += 1; r.insert(FieldKey::Text(format!("added{fresh}")), FieldType::Option(Box::new(FieldType::Text))); }
            FieldType::Map(r)
        }
        _ => t.clone(),
    }
}

/// Independent reading of "surviving members unchanged, removed ones dropped": the value v (canonical under an
/// older type) restricted to what t declares. Does not use the implementation's prune_undeclared.
pub fn project(t: &FieldType, v: &FieldValue) -> FieldValue {
    match (t, v) {
        (FieldType::Option(t), v) if *v != FieldValue::Null => project(t, v),
        (FieldType::Array(ts), FieldValue::Array(vs)) => match ts.len() {
            0 => v.clone(),
            1 => FieldValue::Array(vs.iter().map(|x| project(&ts[0], x)).collect()),
            _ => FieldValue::Array(vs.iter().enumerate().map(|(i, x)| if i < ts.len() { project(&ts[i], x) } else { x.clone() }).collect()),
        },
        (FieldType::Map(tm), FieldValue::Map(vm)) => {
            if tm.is_empty() { return v.clone(); }
            if let Some((_, ft)) = as_wildcard_map(tm) {
                return FieldValue::Map(vm.iter().map(|(k, x)| (k.clone(), project(ft, x))).collect());
            }
            FieldValue::Map(vm.iter().filter_map(|(k, x)| tm.get(k).map(|ft| (k.clone(), project(ft, x)))).collect())
        }
        _ => v.clone(),
    }
}
