//! One database + one collection over the scheduling store, the operation alphabet, canonical
//! return values, state dumps and the consistency oracle (documents vs indexes).
use crate::sched::*;
use anda_db::{
    collection::{Collection, CollectionConfig},
    database::{AndaDB, DBConfig},
    error::{CollectionState, DBError},
    query::{Filter, Query, RangeQuery, Search},
    schema::{Document, FieldEntry, FieldType, Fv, Schema},
    storage::StorageConfig,
    unix_ms,
};
use futures::StreamExt;
use object_store::{ObjectStore, path::Path};
use std::collections::BTreeMap;
use std::sync::Arc;

pub const DB: &str = "db";
pub const COLL: &str = "c";

pub fn schema() -> Schema {
    let mut b = Schema::builder();
    b.add_field(FieldEntry::new("a".into(), FieldType::U64).unwrap()).unwrap();
    b.add_field(FieldEntry::new("b".into(), FieldType::U64).unwrap()).unwrap();
    b.add_field(FieldEntry::new("t".into(), FieldType::Text).unwrap()).unwrap();
    b.build().unwrap()
}

pub fn db_config(cache: bool) -> DBConfig { db_config_b(cache, StorageConfig::default().bucket_overload_size) }

pub fn db_config_b(cache: bool, bucket_overload_size: usize) -> DBConfig {
    DBConfig {
        name: DB.to_string(),
        description: "verif".to_string(),
        storage: StorageConfig { compress_level: 0, cache_max_capacity: if cache { 10000 } else { 0 }, bucket_overload_size, ..Default::default() },
        lock: None,
    }
}

pub fn word(a: u64) -> String { format!("w{a}") }

pub fn state_code(s: CollectionState) -> i64 {
    match s {
        CollectionState::Active => 0,
        CollectionState::Closing => 1,
        CollectionState::Closed => 2,
        CollectionState::Deleting => 3,
        CollectionState::Deleted => 4,
        CollectionState::Poisoned => 5,
    }
}

#[derive(Clone, Debug, PartialEq)]
pub enum Op {
    Add { a: u64, b: u64 },
    Update { id: u64, a: Option<u64>, b: Option<u64> },
    Remove { id: u64 },
    Get { id: u64 },
    QueryIds { a: u64 },
    Flush,
    SetExt { key: String, val: u64 },
    SaveExt { key: String, val: u64 },
    RemoveExt { key: String },
    CompactBtree,
    CompactBm25,
    Reconcile,
    Close,
    SetReadOnly(bool),
    DbSetReadOnly(bool),
    CloseCollection,
    DeleteCollection,
}

impl Op {
    pub fn name(&self) -> &'static str {
        match self {
            Op::Add { .. } => "add", Op::Update { .. } => "update", Op::Remove { .. } => "remove", Op::Get { .. } => "get", Op::QueryIds { .. } => "query_ids",
            Op::Flush => "flush", Op::SetExt { .. } => "set_extension", Op::SaveExt { .. } => "save_extension", Op::RemoveExt { .. } => "remove_extension",
            Op::CompactBtree => "compact_btree_index", Op::CompactBm25 => "compact_bm25_index", Op::Reconcile => "reconcile_storage",
            Op::Close => "close", Op::SetReadOnly(_) => "set_read_only", Op::DbSetReadOnly(_) => "db_set_read_only",
            Op::CloseCollection => "close_collection", Op::DeleteCollection => "delete_collection",
        }
    }
    pub fn is_mutating(&self) -> bool { !matches!(self, Op::Get { .. } | Op::QueryIds { .. }) }
}

/// canonical return value of an operation
#[derive(Clone, Debug, PartialEq)]
pub enum Ret {
    Id(u64),
    Doc(u64, u64),        // (a, b) of the returned document
    NoDoc,                // remove -> Ok(None)
    Ids(Vec<u64>),        // query_all_ids
    Bool(bool),
    Unit,
    NotFound,
    Lifecycle(i64),       // rejected with the typed collection state
    ReadOnly,
    Err(String),
}
impl Ret {
    pub fn is_ok(&self) -> bool { matches!(self, Ret::Id(_) | Ret::Doc(..) | Ret::NoDoc | Ret::Ids(_) | Ret::Bool(_) | Ret::Unit) }
    pub fn show(&self) -> String { format!("{self:?}") }
}

fn classify(e: DBError) -> Ret {
    if let Some(st) = e.collection_state() { return Ret::Lifecycle(state_code(st)); }
    match &e {
        DBError::NotFound { .. } => Ret::NotFound,
        _ => {
            let s = format!("{e:?}");
            if s.contains("read-only") { Ret::ReadOnly } else { Ret::Err(s.chars().take(160).collect()) }
        }
    }
}

pub fn doc_ab(d: &Document) -> (u64, u64) {
    let a = match d.get_field("a") { Some(Fv::U64(x)) => *x, _ => u64::MAX };
    let b = match d.get_field("b") { Some(Fv::U64(x)) => *x, _ => u64::MAX };
    (a, b)
}

pub struct World {
    pub store: SchedStore,
    pub dyn_store: Arc<dyn ObjectStore>,
    pub db: AndaDB,
    pub coll: Arc<Collection>,
    pub cache: bool,
}

async fn open_coll(db: &AndaDB, bm25: bool) -> Result<Arc<Collection>, DBError> {
    db.open_or_create_collection(
        schema(),
        CollectionConfig { name: COLL.to_string(), description: "verif".to_string() },
        async move |c: &mut Collection| {
            c.create_btree_index_nx(&["a"]).await?;
            if bm25 { c.create_bm25_index_nx(&["t"]).await?; }
            Ok(())
        },
    )
    .await
}

impl World {
    /// fresh store, database "db", collection "c" with a B-tree index on `a` (and BM25 on `t`),
    /// the given documents added and flushed
    pub fn new(cache: bool, bm25: bool, docs: &[(u64, u64)]) -> World { World::new_b(cache, bm25, docs, StorageConfig::default().bucket_overload_size) }

    /// like `new`, with a chosen index bucket size (tiny buckets make compaction do real work)
    pub fn new_b(cache: bool, bm25: bool, docs: &[(u64, u64)], bucket: usize) -> World {
        let store = SchedStore::new();
        let dyn_store: Arc<dyn ObjectStore> = Arc::new(store.clone());
        let ds = dyn_store.clone();
        let docs = docs.to_vec();
        let (db, coll) = drive(async move {
            let db = AndaDB::connect(ds, db_config_b(cache, bucket)).await.expect("db");
            let coll = open_coll(&db, bm25).await.expect("collection");
            for (a, b) in docs {
                let mut d = Document::new(coll.schema());
                d.set_id(0);
                d.set_field("a", Fv::U64(a)).unwrap();
                d.set_field("b", Fv::U64(b)).unwrap();
                d.set_field("t", Fv::Text(word(a))).unwrap();
                coll.add(d).await.expect("setup add");
            }
            coll.flush(unix_ms()).await.expect("setup flush");
            (db, coll)
        });
        World { store, dyn_store, db, coll, cache }
    }

    /// start an operation on the given handle; nothing runs until the future is polled
    pub fn start_on(&self, coll: &Arc<Collection>, op: &Op) -> BoxFut<Ret> {
        let c = coll.clone();
        let db = self.db.clone();
        match op.clone() {
            Op::Add { a, b } => Box::pin(async move {
                let mut d = Document::new(c.schema());
                d.set_id(0);
                d.set_field("a", Fv::U64(a)).unwrap();
                d.set_field("b", Fv::U64(b)).unwrap();
                d.set_field("t", Fv::Text(word(a))).unwrap();
                match c.add(d).await { Ok(id) => Ret::Id(id), Err(e) => classify(e) }
            }),
            Op::Update { id, a, b } => Box::pin(async move {
                let mut f = BTreeMap::new();
                if let Some(a) = a { f.insert("a".to_string(), Fv::U64(a)); f.insert("t".to_string(), Fv::Text(word(a))); }
                if let Some(b) = b { f.insert("b".to_string(), Fv::U64(b)); }
                match c.update(id, f).await { Ok(d) => { let (a, b) = doc_ab(&d); Ret::Doc(a, b) } Err(e) => classify(e) }
            }),
            Op::Remove { id } => Box::pin(async move {
                match c.remove(id).await { Ok(Some(d)) => { let (a, b) = doc_ab(&d); Ret::Doc(a, b) } Ok(None) => Ret::NoDoc, Err(e) => classify(e) }
            }),
            Op::Get { id } => Box::pin(async move {
                match c.get(id).await { Ok(d) => { let (a, b) = doc_ab(&d); Ret::Doc(a, b) } Err(e) => classify(e) }
            }),
            Op::QueryIds { a } => Box::pin(async move {
                match c.query_all_ids(Filter::Field(("a".to_string(), RangeQuery::Eq(Fv::U64(a))))).await { Ok(mut v) => { v.sort(); Ret::Ids(v) } Err(e) => classify(e) }
            }),
            Op::Flush => Box::pin(async move { match c.flush(unix_ms()).await { Ok(b) => Ret::Bool(b), Err(e) => classify(e) } }),
            Op::SetExt { key, val } => Box::pin(async move { c.set_extension(key, Fv::U64(val)); Ret::Unit }),
            Op::SaveExt { key, val } => Box::pin(async move { match c.save_extension(key, Fv::U64(val)).await { Ok(()) => Ret::Unit, Err(e) => classify(e) } }),
            Op::RemoveExt { key } => Box::pin(async move { match c.remove_extension(&key).await { Ok(_) => Ret::Unit, Err(e) => classify(e) } }),
            Op::CompactBtree => Box::pin(async move { match c.compact_btree_index(&["a"]).await { Ok(()) => Ret::Unit, Err(e) => classify(e) } }),
            Op::CompactBm25 => Box::pin(async move { match c.compact_bm25_index(&["t"]).await { Ok(()) => Ret::Unit, Err(e) => classify(e) } }),
            Op::Reconcile => Box::pin(async move { match c.reconcile_storage().await { Ok(_) => Ret::Unit, Err(e) => classify(e) } }),
            Op::Close => Box::pin(async move { match c.close().await { Ok(()) => Ret::Unit, Err(e) => classify(e) } }),
            Op::SetReadOnly(v) => Box::pin(async move { c.set_read_only(v); Ret::Unit }),
            Op::DbSetReadOnly(v) => Box::pin(async move { db.set_read_only(v); Ret::Unit }),
            Op::CloseCollection => Box::pin(async move { match db.close_collection(COLL).await { Ok(()) => Ret::Unit, Err(e) => classify(e) } }),
            Op::DeleteCollection => Box::pin(async move { match db.delete_collection(COLL).await { Ok(()) => Ret::Unit, Err(e) => classify(e) } }),
        }
    }
    pub fn start(&self, op: &Op) -> BoxFut<Ret> { self.start_on(&self.coll, op) }

    pub fn state(&self) -> i64 { state_code(self.coll.state()) }

    /// paths (relative to the collection prefix) of everything stored under the collection
    pub fn listing(&self) -> Vec<String> {
        let inner = self.store.inner.clone();
        let prefix = Path::from(DB).join(COLL);
        drive(async move {
            let mut v: Vec<String> = inner.list(Some(&prefix)).filter_map(|m| async move { m.ok().map(|m| m.location.to_string()) }).collect().await;
            v.sort();
            v
        })
    }

    pub fn reopen(&self) -> Result<Arc<Collection>, String> {
        let db = self.db.clone();
        drive(async move { db.open_collection(COLL.to_string(), async |_| Ok(())).await.map_err(|e| format!("{e:?}").chars().take(200).collect()) })
    }
}

/// canonical path of a backend mutation: collection-relative, intent sequence numbers and index
/// bucket generations replaced by placeholders
pub fn canon_path(p: &str) -> String {
    let rel = p.strip_prefix("db/c/").unwrap_or(p);
    if let Some(rest) = rel.strip_prefix("mutation_intents/") {
        let _ = rest;
        return "mutation_intents/<seq>".to_string();
    }
    rel.to_string()
}

/// (ids, docs) as the handle serves them
pub fn dump(coll: &Arc<Collection>) -> (Vec<u64>, BTreeMap<u64, (u64, u64)>) {
    let c = coll.clone();
    drive(async move {
        let ids = c.ids();
        let mut docs = BTreeMap::new();
        for id in &ids {
            if let Ok(d) = c.get(*id).await { docs.insert(*id, doc_ab(&d)); }
        }
        (ids, docs)
    })
}

/// C02-style oracle: every index answers exactly from the stored documents
pub fn consistency_failures(coll: &Arc<Collection>, probe_values: &[u64], bm25: bool) -> Vec<String> {
    let c = coll.clone();
    let probes = probe_values.to_vec();
    drive(async move {
        let mut bad = vec![];
        let ids = c.ids();
        let mut docs: BTreeMap<u64, (u64, u64)> = BTreeMap::new();
        for id in &ids {
            match c.get(*id).await {
                Ok(d) => { docs.insert(*id, doc_ab(&d)); }
                Err(e) => bad.push(format!("id {id} in ids() but get fails: {:?}", classify(e))),
            }
        }
        if c.len() != ids.len() { bad.push(format!("len {} != |ids| {}", c.len(), ids.len())); }
        let mut vals: Vec<u64> = probes.clone();
        vals.extend(docs.values().map(|d| d.0));
        vals.sort(); vals.dedup();
        for v in vals {
            let want: Vec<u64> = docs.iter().filter(|(_, d)| d.0 == v).map(|(id, _)| *id).collect();
            match c.query_all_ids(Filter::Field(("a".to_string(), RangeQuery::Eq(Fv::U64(v))))).await {
                Ok(mut got) => { got.sort(); if got != want { bad.push(format!("btree a={v}: index {:?} docs {:?}", got, want)); } }
                Err(e) => bad.push(format!("btree a={v}: query failed {:?}", classify(e))),
            }
            if bm25 {
                let q = Query { search: Some(Search { text: Some(word(v)), ..Default::default() }), limit: Some(100), ..Default::default() };
                match c.search_ids(q).await {
                    Ok(mut got) => { got.sort(); if got != want { bad.push(format!("bm25 t={}: index {:?} docs {:?}", word(v), got, want)); } }
                    Err(e) => bad.push(format!("bm25 t={}: search failed {:?}", word(v), classify(e))),
                }
            }
        }
        bad
    })
}

pub const EXT_KEYS: [&str; 3] = ["k1", "k2", "k3"];
pub const EXT_BASE: u64 = 1_000_000;
/// extensions as pseudo-documents (id = EXT_BASE + key index, doc = (value, 0)) so that they take part in the
/// same state comparison as the documents
pub fn ext_id(key: &str) -> u64 { EXT_BASE + EXT_KEYS.iter().position(|k| *k == key).map(|i| i as u64 + 1).unwrap_or(99) }
pub fn dump_exts(coll: &Arc<Collection>) -> BTreeMap<u64, (u64, u64)> {
    let mut m = BTreeMap::new();
    for k in EXT_KEYS { if let Some(Fv::U64(v)) = coll.get_extension(k) { m.insert(ext_id(k), (v, 0)); } }
    m
}
