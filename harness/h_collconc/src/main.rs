mod c05;
mod c06;
mod explore;
mod sched;
mod world;

fn main() {
    let args: Vec<String> = std::env::args().collect();
    // tokio primitives are used without a reactor; a current-thread runtime is entered so that
    // anything that looks for a handle finds one
    let rt = tokio::runtime::Builder::new_current_thread().enable_all().build().expect("rt");
    let _g = rt.enter();
    match args.get(1).map(|s| s.as_str()) {
        Some("c06") => c06::main(&args[2..]),
        Some("c05") => c05::main(&args[2..]),
        _ => {
            eprintln!("usage: h_collconc <c06|c05> --out FILE");
            std::process::exit(2);
        }
    }
}
