//! C05 — concurrent writers serialize.
//!
//! Explorer: sets of 2..4 operations started on one handle over the parking store (every backend
//! call parks before it is applied and again before its result is delivered); every release order
//! (or a sample beyond a cap) is run from a fresh collection.  Each run yields
//!   * the event trace (start / backend step with result / resume / return) for the Coq-proved
//!     `admits` checker (is this a run of the concurrent model, do returns and final dump agree?),
//!   * a linearization witness for the Coq-proved `lin_ok` checker (cache-enabled and
//!     multi-threaded runs use only this one),
//!   * the verdict of the harness-side sequential-order oracle (search over all orders respecting
//!     real time) and of the index/document consistency oracle.
use crate::explore::*;
use crate::sched::*;
use crate::world::*;
use h_common::*;
use serde_json::{Value, json};
use std::collections::{BTreeMap, BTreeSet};
use std::io::Write;
use std::sync::Arc;

const DOCS: [(u64, u64); 3] = [(10, 1), (20, 2), (30, 3)];

fn pool() -> Vec<Op> {
    vec![
        Op::Add { a: 70, b: 7 }, Op::Add { a: 71, b: 8 },
        Op::Update { id: 1, a: Some(72), b: None }, Op::Update { id: 1, a: None, b: Some(9) }, Op::Update { id: 2, a: Some(73), b: Some(6) },
        Op::Remove { id: 1 }, Op::Remove { id: 2 }, Op::Update { id: 9, a: Some(1), b: None }, Op::Remove { id: 9 }, Op::Flush,
    ]
}

// ------------------------------------------------------------------------------------------ JSON terms
fn jdoc(d: (u64, u64)) -> Value { tup(vec![json!(d.0), json!(d.1)]) }
fn jopt(x: Option<u64>) -> Value { match x { Some(v) => some(json!(v)), None => Value::Null } }
fn jop(o: &Op) -> Value { jop_hit(o, false) }
fn jop_hit(o: &Op, hit: bool) -> Value {
    match o {
        Op::Get { id } => ctor("OGet", vec![json!(id), json!(hit)]),
        Op::Add { a, b } => ctor("OAdd", vec![jdoc((*a, *b))]),
        Op::Update { id, a, b } => ctor("OUpdate", vec![json!(id), tup(vec![jopt(*a), jopt(*b)])]),
        Op::Remove { id } => ctor("ORemove", vec![json!(id)]),
        Op::Flush => ctor("OFlush", vec![]),
        _ => panic!("not a C05 op"),
    }
}
fn jret(o: &Op, r: &Ret) -> Value {
    match (o, r) {
        (Op::Add { .. }, Ret::Id(i)) => ctor("RId", vec![json!(i)]),
        (_, Ret::Doc(a, b)) => ctor("RDoc", vec![jdoc((*a, *b))]),
        (_, Ret::NoDoc) => ctor("RNone", vec![]),
        (Op::Update { .. } | Op::Get { .. }, Ret::NotFound) => ctor("RNotFound", vec![]),
        (Op::Flush, Ret::Bool(_)) => ctor("RFlushed", vec![]),
        _ => ctor("RErr", vec![]),
    }
}
fn jdocs(m: &BTreeMap<u64, (u64, u64)>) -> Value { Value::Array(m.iter().map(|(i, d)| tup(vec![json!(i), jdoc(*d)])).collect()) }

fn doc_id_of(path: &str) -> Option<u64> {
    let rel = path.strip_prefix("db/c/")?;
    rel.strip_prefix("data/")?.strip_suffix(".cbor")?.parse().ok()
}

/// backend event -> model label (None = a call the model does not speak about)
fn jlabel(e: &Ev, ops: &[Op]) -> Option<Value> {
    let rel = e.path.strip_prefix("db/c/").unwrap_or(&e.path);
    if let Some(id) = doc_id_of(&e.path) {
        return match (e.kind, e.put_mode) {
            ("put", "create") => Some(ctor("LCreate", vec![json!(id), jdoc((0, 0))])),
            ("put", _) => Some(ctor("LPut", vec![json!(id), jdoc((0, 0))])),
            ("get", _) => Some(ctor("LGet", vec![json!(id), if e.ok { some(jdoc((0, 0))) } else { Value::Null }])),
            ("delete", _) => Some(ctor("LDelete", vec![json!(id)])),
            _ => None,
        };
    }
    if rel.starts_with("mutation_intents/") && e.kind == "put" {
        let id = match ops.get(e.op as usize) { Some(Op::Update { id, .. }) | Some(Op::Remove { id }) => *id, _ => return None };
        return Some(ctor("LIntent", vec![json!(id)]));
    }
    if rel == "ids.cbor" && e.kind == "put" { return Some(ctor("LPersist", vec![])); }
    None
}

// ------------------------------------------------------------------------------------------ sequential oracle
type SeqState = (BTreeMap<u64, (u64, u64)>, BTreeSet<u64>);
fn seq_apply(st: &mut SeqState, o: &Op, r: &Ret) -> bool {
    if matches!(r, Ret::Err(_) | Ret::Lifecycle(_) | Ret::ReadOnly) { return false; }   // no error is expected in these runs
    match (o, r) {
        (Op::Add { a, b }, Ret::Id(i)) => { if st.1.contains(i) || st.0.contains_key(i) { return false; } st.1.insert(*i); st.0.insert(*i, (*a, *b)); true }
        (Op::Update { id, a, b }, Ret::Doc(x, y)) => match st.0.get_mut(id) {
            Some(d) => { if let Some(a) = a { d.0 = *a; } if let Some(b) = b { d.1 = *b; } (*x, *y) == *d }
            None => false },
        (Op::Update { id, .. }, Ret::NotFound) => !st.0.contains_key(id),
        (Op::Remove { id }, Ret::Doc(x, y)) => match st.0.remove(id) { Some(d) => d == (*x, *y), None => false },
        (Op::Remove { id }, Ret::NoDoc) => !st.0.contains_key(id),
        (Op::Flush, Ret::Bool(_)) => true,
        (Op::SetExt { key, val } | Op::SaveExt { key, val }, Ret::Unit) => { st.0.insert(ext_id(key), (*val, 0)); true }
        (Op::RemoveExt { key }, Ret::Unit) => { st.0.remove(&ext_id(key)); true }
        (Op::Get { id }, Ret::Doc(x, y)) => st.0.get(id) == Some(&(*x, *y)),
        (Op::Get { id }, Ret::NotFound) => !st.0.contains_key(id),
        _ => false,
    }
}

/// search for an order of all operations that respects `before` (a must precede b), reproduces every
/// return value and ends in `final_docs`
fn find_linearization(init: &SeqState, ops: &[Op], rets: &[Ret], before: &[(usize, usize)], final_docs: &BTreeMap<u64, (u64, u64)>) -> Option<Vec<usize>> {
    fn go(st: &SeqState, ops: &[Op], rets: &[Ret], before: &[(usize, usize)], fin: &BTreeMap<u64, (u64, u64)>, done: &mut Vec<usize>, used: &mut Vec<bool>, budget: &mut u64) -> bool {
        if done.len() == ops.len() { return &st.0 == fin; }
        if *budget == 0 { return false; }
        *budget -= 1;
        for i in 0..ops.len() {
            if used[i] { continue; }
            if before.iter().any(|(a, b)| *b == i && !used[*a]) { continue; }
            let mut st2 = st.clone();
            if !seq_apply(&mut st2, &ops[i], &rets[i]) { continue; }
            used[i] = true; done.push(i);
            if go(&st2, ops, rets, before, fin, done, used, budget) { return true; }
            used[i] = false; done.pop();
        }
        false
    }
    let mut done = vec![]; let mut used = vec![false; ops.len()]; let mut budget = 2_000_000u64;
    if go(init, ops, rets, before, final_docs, &mut done, &mut used, &mut budget) { Some(done) } else { None }
}

/// The read clause of the property, for reads that are not strictly linearizable with an in-flight writer:
/// find an order of the MUTATIONS (respecting real time, reproducing their returns and the documents read after
/// quiescence) such that every read returned the document as it was after some prefix of that order which
/// contains every mutation acknowledged before the read started and only mutations started before it returned.
/// times[i] = (start position, return position) in the trace.
fn find_weak(init: &SeqState, ops: &[Op], rets: &[Ret], times: &[(usize, usize)], final_docs: &BTreeMap<u64, (u64, u64)>) -> Option<Vec<usize>> {
    let writes: Vec<usize> = (0..ops.len()).filter(|i| ops[*i].is_mutating()).collect();
    let reads: Vec<usize> = (0..ops.len()).filter(|i| matches!(ops[*i], Op::Get { .. })).collect();
    fn reads_ok(init: &SeqState, ops: &[Op], rets: &[Ret], times: &[(usize, usize)], order: &[usize], reads: &[usize]) -> bool {
        // states after each prefix
        let mut states = vec![init.clone()];
        let mut st = init.clone();
        for i in order { let mut s2 = st.clone(); seq_apply(&mut s2, &ops[*i], &rets[*i]); st = s2; states.push(st.clone()); }
        reads.iter().all(|r| {
            let (rs, re) = times[*r];
            let lo = order.iter().enumerate().filter(|(_, w)| times[**w].1 < rs).map(|(k, _)| k + 1).max().unwrap_or(0);
            (lo..=order.len()).any(|k| order[..k].iter().all(|w| times[*w].0 < re) && { let mut s2 = states[k].clone(); seq_apply(&mut s2, &ops[*r], &rets[*r]) })
        })
    }
    fn go(st: &SeqState, init: &SeqState, ops: &[Op], rets: &[Ret], times: &[(usize, usize)], fin: &BTreeMap<u64, (u64, u64)>, writes: &[usize], reads: &[usize],
          done: &mut Vec<usize>, used: &mut Vec<bool>, budget: &mut u64) -> bool {
        if done.len() == writes.len() { return &st.0 == fin && reads_ok(init, ops, rets, times, done, reads); }
        if *budget == 0 { return false; }
        *budget -= 1;
        for (k, i) in writes.iter().enumerate() {
            if used[k] { continue; }
            // real time among mutations: everything that returned before i started must already be placed
            if writes.iter().enumerate().any(|(k2, j)| !used[k2] && k2 != k && times[*j].1 < times[*i].0) { continue; }
            let mut st2 = st.clone();
            if !seq_apply(&mut st2, &ops[*i], &rets[*i]) { continue; }
            used[k] = true; done.push(*i);
            if go(&st2, init, ops, rets, times, fin, writes, reads, done, used, budget) { return true; }
            used[k] = false; done.pop();
        }
        false
    }
    let mut done = vec![]; let mut used = vec![false; writes.len()]; let mut budget = 2_000_000u64;
    if go(init, init, ops, rets, times, final_docs, &writes, &reads, &mut done, &mut used, &mut budget) { Some(done) } else { None }
}

struct Out { lines: Vec<Value>, failures: Vec<Value>, evaluations: u64, dist: BTreeMap<String, u64>, model_every: u64, seen: u64 }
impl Out {
    fn fail(&mut self, class: &str, what: String, input: Value) { if self.failures.len() < 30 { self.failures.push(json!({"class": class, "what": what, "input": input})); } }
    fn bump(&mut self, k: &str) { *self.dist.entry(k.to_string()).or_insert(0) += 1; }
}

fn init_state() -> SeqState {
    let docs: BTreeMap<u64, (u64, u64)> = DOCS.iter().enumerate().map(|(i, d)| (i as u64 + 1, *d)).collect();
    let used = docs.keys().cloned().collect();
    (docs, used)
}

/// every document version of `id` that some call wrote (initial, added, or the result of an update)
fn versions(ops: &[Op], rets: &[Ret]) -> BTreeMap<u64, Vec<(u64, u64)>> {
    let mut v: BTreeMap<u64, Vec<(u64, u64)>> = BTreeMap::new();
    for (i, d) in DOCS.iter().enumerate() { v.entry(i as u64 + 1).or_default().push(*d); }
    for (o, r) in ops.iter().zip(rets) {
        match (o, r) {
            (Op::Add { a, b }, Ret::Id(i)) => v.entry(*i).or_default().push((*a, *b)),
            (Op::Update { id, .. }, Ret::Doc(a, b)) => v.entry(*id).or_default().push((*a, *b)),
            _ => {}
        }
    }
    v
}

/// one explorer run: `first` operations start at time 0 in index order, `late` ones as soon as the
/// first call has returned (so that real-time order constraints exist)
fn run_once(out: &mut Out, first: &[Op], late: &[Op], deferred: &[Op], cache: bool, post: bool, odo: &mut Odometer, rng: Option<&mut Rng>, always_emit: bool) {
    let ops: Vec<Op> = first.iter().chain(late.iter()).chain(deferred.iter()).cloned().collect();
    let ops = &ops[..];
    let w = World::new(cache, true, &DOCS);
    { let mut st = w.store.st.lock().unwrap(); st.mode = Mode::Park; st.post_park = post; st.trace.clear(); }
    let mut run = Run::new(w);
    for op in ops { run.add_actor(op.clone()); }
    let start = |run: &mut Run, id: i64| { run.w.store.st.lock().unwrap().trace.push(Tr::Issue { op: id, kind: "start", path: String::new() }); run.start(id); };
    for id in 0..first.len() { start(&mut run, id as i64); }
    let mut late_started = late.is_empty();
    // deferred operations: WHEN each of them starts is a scheduling choice like the release of a parked call
    let mut next_deferred = first.len() + late.len();
    odo.begin();
    let mut rng = rng;
    let mut step = 0usize;
    let mut sched: Vec<String> = vec![];
    loop {
        if !late_started && run.actors.iter().any(|a| a.ret.is_some()) {
            for id in first.len()..first.len() + late.len() { start(&mut run, id as i64); }
            late_started = true;
        }
        if run.all_done() && late_started && next_deferred >= ops.len() { break; }
        let en = run.enabled();
        let extra = if next_deferred < ops.len() { 1 } else { 0 };
        if en.len() + extra == 0 { break; }
        let c = match rng.as_deref_mut() { Some(r) => r.below((en.len() + extra) as u64) as usize, None => odo.pick(step, en.len() + extra) };
        if c == en.len() {
            sched.push(format!("start:{}", ops[next_deferred].name()));
            start(&mut run, next_deferred as i64);
            next_deferred += 1;
            step += 1;
            continue;
        }
        sched.push(format!("{}:{}{}:{}", en[c].op, en[c].kind, if en[c].phase == 1 { "'" } else { "" }, canon_path(&en[c].path)));
        run.release(en[c].ticket);
        step += 1;
        if step > 4000 { break; }
    }
    out.evaluations += 1;
    let rets: Vec<Ret> = run.actors.iter().map(|a| a.ret.clone().unwrap_or(Ret::Err("pending".into()))).collect();
    let input = json!({"ops": first.iter().map(|o| format!("{o:?}")).collect::<Vec<_>>(), "late_ops": late.iter().map(|o| format!("{o:?}")).collect::<Vec<_>>(),
                       "deferred_ops": deferred.iter().map(|o| format!("{o:?}")).collect::<Vec<_>>(),
                       "cache": cache, "post_park": post, "schedule": sched, "returns": rets.iter().map(|r| r.show()).collect::<Vec<_>>()});
    if !(run.all_done() && late_started && next_deferred >= ops.len()) { out.fail("deadlock", "no parked call left but operations are pending".into(), input); return; }
    run.w.store.set_mode(Mode::Pass);
    // reads that start after every call has returned: through the handle (and its read cache)
    let (ids, real_docs) = dump(&run.w.coll);
    let mut docs = real_docs.clone();
    docs.extend(dump_exts(&run.w.coll));
    let input = { let mut i = input; i["final_ids"] = json!(ids); i["final_docs"] = json!(docs.iter().map(|(k, v)| format!("{k}:{v:?}")).collect::<Vec<_>>()); i };
    // ---- direct oracles
    let mut probes: Vec<u64> = vec![10, 20, 30, 70, 71, 72, 73];
    probes.extend(real_docs.values().map(|d| d.0));
    for b in consistency_failures(&run.w.coll, &probes, true) { out.fail("index-document-divergence", b, input.clone()); }
    if ids != real_docs.keys().cloned().collect::<Vec<_>>() { out.fail("ids-without-document", format!("ids {:?} vs readable documents {:?}", ids, real_docs.keys()), input.clone()); }
    let add_ids: Vec<u64> = rets.iter().filter_map(|r| if let Ret::Id(i) = r { Some(*i) } else { None }).collect();
    if add_ids.iter().collect::<BTreeSet<_>>().len() != add_ids.len() || add_ids.iter().any(|i| *i <= 3) { out.fail("duplicate-id", format!("adds returned {:?}", add_ids), input.clone()); }
    for o in ops { if let Op::Remove { id } = o {
        let n = ops.iter().zip(&rets).filter(|(p, r)| matches!(p, Op::Remove { id: j } if j == id) && matches!(r, Ret::Doc(..))).count();
        if n > 1 { out.fail("remove-returned-twice", format!("{n} removes of id {id} returned the document"), input.clone()); } } }
    if let Some(bad) = rets.iter().position(|r| matches!(r, Ret::Err(_) | Ret::Lifecycle(_) | Ret::ReadOnly)) { out.fail("unexpected-error", format!("{:?} returned {:?}", ops[bad], rets[bad]), input.clone()); }
    // reads only ever return whole documents that some call wrote
    let vers = versions(ops, &rets);
    for (o, r) in ops.iter().zip(&rets) {
        match (o, r) {
            (Op::Get { id }, Ret::Doc(a, b)) => if !vers.get(id).map(|v| v.contains(&(*a, *b))).unwrap_or(false) {
                out.fail("read-returns-unwritten-document", format!("get({id}) returned ({a},{b}), never written by any call"), input.clone()); },
            (Op::QueryIds { a }, Ret::Ids(v)) => for id in v { if !vers.get(id).map(|vs| vs.iter().any(|d| d.0 == *a)).unwrap_or(false) {
                out.fail("query-returns-unjustified-id", format!("query a={a} returned id {id} which never had that value"), input.clone()); } },
            _ => {}
        }
    }
    for (id, d) in &real_docs { if !vers.get(id).map(|v| v.contains(d)).unwrap_or(false) { out.fail("read-returns-unwritten-document", format!("final get({id}) returned {d:?}, never written"), input.clone()); } }
    // real-time order: Return(a) logged before Start(b)
    let mut before: Vec<(usize, usize)> = vec![];
    let strong: Vec<usize> = (0..ops.len()).filter(|i| !matches!(ops[*i], Op::QueryIds { .. })).collect();
    { let st = run.w.store.st.lock().unwrap();
      let mut returned: Vec<usize> = vec![];
      for t in &st.trace { match t {
          Tr::Return { op, .. } => returned.push(*op as usize),
          Tr::Issue { op, kind: "start", .. } => for a in &returned { before.push((*a, *op as usize)); },
          _ => {} } } }
    // the linearization is searched over everything except the index-only reads
    let s_ops: Vec<Op> = strong.iter().map(|i| ops[*i].clone()).collect();
    let s_rets: Vec<Ret> = strong.iter().map(|i| rets[*i].clone()).collect();
    let pos = |i: usize| strong.iter().position(|x| *x == i);
    let s_before: Vec<(usize, usize)> = before.iter().filter_map(|(a, b)| Some((pos(*a)?, pos(*b)?))).collect();
    let lin = find_linearization(&init_state(), &s_ops, &s_rets, &s_before, &docs).map(|o| o.iter().map(|k| strong[*k]).collect::<Vec<usize>>());
    let mut weak: Option<Vec<usize>> = None;
    if lin.is_none() {
        // trace positions of start / return of every operation
        let times: Vec<(usize, usize)> = { let st = run.w.store.st.lock().unwrap();
            (0..ops.len()).map(|i| {
                let s0 = st.trace.iter().position(|t| matches!(t, Tr::Issue { op, kind: "start", .. } if *op == i as i64)).unwrap_or(0);
                let r0 = st.trace.iter().position(|t| matches!(t, Tr::Return { op, .. } if *op == i as i64)).unwrap_or(usize::MAX);
                (s0, r0) }).collect() };
        weak = find_weak(&init_state(), ops, &rets, &times, &docs);
        if weak.is_none() {
            out.fail("not-linearizable", "no order of the mutations respecting real time reproduces their return values and the documents read after quiescence such that every read returned a document state not older than the mutations acknowledged before it started".into(), input.clone());
        } else { out.bump("runs_with_reads_overlapping_an_unacknowledged_write_not_strictly_linearizable"); }
    }
    // ---- what a clean close persists is the state every call left behind: close, reopen, compare
    if !rets.iter().any(|r| matches!(r, Ret::Err(_) | Ret::Lifecycle(_) | Ret::ReadOnly)) {
        let c = run.w.coll.clone();
        let closed = drive(async move { c.close().await.map_err(|e| format!("{e:?}")) });
        match closed.and_then(|_| run.w.reopen()) {
            Err(e) => out.fail("close-or-reopen-fails", format!("after the run: {e}"), input.clone()),
            Ok(c2) => {
                let (_, mut d2) = dump(&c2);
                d2.extend(dump_exts(&c2));
                if d2 != docs {
                    let show = |m: &BTreeMap<u64, (u64, u64)>| m.iter().map(|(k, v)| if *k > EXT_BASE { format!("ext:{}={}", EXT_KEYS[(*k - EXT_BASE - 1) as usize % 3], v.0) } else { format!("{k}:{v:?}") }).collect::<Vec<_>>();
                    out.fail("persisted-state-diverges-after-close", format!("in memory after the run {:?}; after close + reopen {:?}", show(&docs), show(&d2)), input.clone());
                }
                let mut pr: Vec<u64> = probes.clone(); pr.extend(d2.iter().filter(|(k, _)| **k < EXT_BASE).map(|(_, d)| d.0));
                for b in consistency_failures(&c2, &pr, true) { out.fail("index-document-divergence", format!("after close + reopen: {b}"), input.clone()); }
            }
        }
    }
    // ---- model cases
    out.seen += 1;
    let emit = always_emit || out.seen % out.model_every == 0;
    let model_op = |o: &Op| matches!(o, Op::Add { .. } | Op::Update { .. } | Op::Remove { .. } | Op::Flush | Op::Get { .. });
    if !emit || !ops.iter().all(model_op) { return; }
    let st = run.w.store.st.lock().unwrap();
    let docs0 = init_state().0;
    // which gets were served by the read cache (no backend GET), and did one of them start while a write of the
    // same document was applied but not yet delivered (the entry is then legitimately the pre-write one)?
    let mut hit = vec![false; ops.len()];
    let mut window_hit = false;
    for (i, o) in ops.iter().enumerate() { if let Op::Get { id } = o {
        let miss = st.trace.iter().any(|t| matches!(t, Tr::Apply(e) if e.op == i as i64 && e.kind == "get" && doc_id_of(&e.path) == Some(*id)));
        hit[i] = !miss;
        if hit[i] {
            let mut open: Vec<(i64, u64)> = vec![];
            for t in &st.trace { match t {
                Tr::Apply(e) if e.ok && (e.kind == "put" || e.kind == "delete") => if let Some(d) = doc_id_of(&e.path) { open.push((e.op, d)); },
                Tr::Resume { op } => open.retain(|(o2, _)| o2 != op),
                Tr::Issue { op, kind: "start", .. } if *op == i as i64 => { if post && open.iter().any(|(_, d)| d == id) { window_hit = true; } }
                _ => {} } }
        } } }
    if window_hit { out.bump("runs_with_cache_hit_inside_a_write_window(not given to admits)"); }
    if !window_hit {
        let mut evs: Vec<Value> = vec![];
        for t in &st.trace {
            match t {
                Tr::Issue { op, kind: "start", .. } => evs.push(ctor("EvStart", vec![nat(*op as usize)])),
                Tr::Issue { .. } => {}
                Tr::Apply(e) => if e.op >= 0 { if let Some(l) = jlabel(e, ops) { evs.push(ctor("EvApply", vec![nat(e.op as usize), l])); } },
                Tr::Resume { op } => evs.push(ctor("EvResume", vec![nat(*op as usize)])),
                Tr::Return { op, .. } => evs.push(ctor("EvReturn", vec![nat(*op as usize), jret(&ops[*op as usize], &rets[*op as usize])])),
            }
        }
        let jops: Vec<Value> = ops.iter().enumerate().map(|(i, o)| jop_hit(o, hit[i])).collect();
        out.lines.push(json!({"kind": "model", "fn": "check_admits",
            "case": tup(vec![jdocs(&docs0), Value::Array(jops), json!(post), Value::Array(evs), jdocs(&docs)]), "input": input.clone()}));
    }
    if let Some(order) = lin {
        let hist: Vec<Value> = order.iter().map(|i| tup(vec![nat(*i), jop(&ops[*i]), jret(&ops[*i], &rets[*i])])).collect();
        let prec: Vec<Value> = before.iter().map(|(a, b)| tup(vec![nat(*a), nat(*b)])).collect();
        out.lines.push(json!({"kind": "model", "fn": "check_lin",
            "case": tup(vec![jdocs(&docs0), Value::Array(hist), Value::Array(prec), nat(ops.len()), jdocs(&docs)]), "input": input}));
    } else if let Some(order) = weak {
        // the mutations alone, renumbered
        let num = |i: usize| order.iter().position(|x| *x == i);
        let mut sorted = order.clone(); sorted.sort();
        let idx = |i: usize| sorted.iter().position(|x| *x == i);
        let _ = num;
        let hist: Vec<Value> = order.iter().map(|i| tup(vec![nat(idx(*i).unwrap()), jop(&ops[*i]), jret(&ops[*i], &rets[*i])])).collect();
        let prec: Vec<Value> = before.iter().filter_map(|(a, b)| Some(tup(vec![nat(idx(*a)?), nat(idx(*b)?)]))).collect();
        out.lines.push(json!({"kind": "model", "fn": "check_lin",
            "case": tup(vec![jdocs(&docs0), Value::Array(hist), Value::Array(prec), nat(order.len()), jdocs(&docs)]), "input": input}));
    }
}

fn explore_set(out: &mut Out, first: &[Op], late: &[Op], cache: bool, post: bool, cap: usize, rng: &mut Rng) { explore_set_d(out, first, late, &[], cache, post, cap, rng) }
fn explore_set_d(out: &mut Out, first: &[Op], late: &[Op], deferred: &[Op], cache: bool, post: bool, cap: usize, rng: &mut Rng) {
    let mut odo = Odometer::default();
    let mut n = 0usize;
    let k = first.len() + late.len() + deferred.len();
    loop {
        run_once(out, first, late, deferred, cache, post, &mut odo, None, n == 0);
        n += 1;
        if !odo.next() { out.bump(&format!("sets_exhaustive:{k}")); break; }
        if n >= cap {
            for _ in 0..cap / 2 { let mut r = rng.fork(); run_once(out, first, late, deferred, cache, post, &mut Odometer::default(), Some(&mut r), false); }
            out.bump(&format!("sets_sampled:{k}"));
            break;
        }
    }
    *out.dist.entry(format!("runs:{k}ops")).or_insert(0) += n as u64;
    if deferred.iter().chain(first).chain(late).any(|o| matches!(o, Op::SetExt { .. } | Op::SaveExt { .. } | Op::RemoveExt { .. })) { *out.dist.entry("runs_with_extension_writers".into()).or_insert(0) += n as u64; }
    if first.iter().chain(late).any(|o| !o.is_mutating()) { *out.dist.entry("runs_with_reads".into()).or_insert(0) += n as u64; }
}

// ------------------------------------------------------------------------------------------ multi-threaded
fn mt_runs(out: &mut Out, rounds: usize, nops: usize, rng: &mut Rng) {
    let rt = tokio::runtime::Builder::new_multi_thread().worker_threads(4).enable_all().build().expect("mt rt");
    for round in 0..rounds {
        let cache = round % 2 == 0;
        let w = Arc::new(World::new(cache, true, &DOCS));
        { let mut st = w.store.st.lock().unwrap(); st.mode = Mode::Jitter; st.jitter ^= rng.next(); st.trace.clear(); }
        let mut ops: Vec<Op> = vec![];
        for _ in 0..nops {
            let id = 1 + rng.below(4);
            ops.push(match rng.below(10) {
                0 | 1 | 2 => Op::Add { a: 100 + rng.below(5), b: rng.below(5) },
                3 | 4 => Op::Update { id, a: Some(200 + rng.below(5)), b: None },
                5 | 6 => Op::Update { id, a: None, b: Some(50 + rng.below(50)) },
                7 => Op::Remove { id },
                8 => Op::Get { id },
                _ => if rng.chance(1, 2) { Op::Flush } else { Op::Get { id } },
            });
        }
        // two waves so that real-time order constraints exist
        let split = nops / 2 + (rng.below(3) as usize);
        let rets: Vec<Ret> = rt.block_on(async {
            let mut all = vec![Ret::Unit; ops.len()];
            for (lo, hi) in [(0usize, split.min(ops.len())), (split.min(ops.len()), ops.len())] {
                let mut hs = vec![];
                for i in lo..hi {
                    let fut = w.start(&ops[i]);
                    let st = w.store.st.clone();
                    st.lock().unwrap().trace.push(Tr::Issue { op: i as i64, kind: "start", path: String::new() });
                    hs.push((i, tokio::spawn(async move {
                        let r = Tagged { op: i as i64, fut: Box::pin(fut) }.await;
                        st.lock().unwrap().trace.push(Tr::Return { op: i as i64, ret: r.show() });
                        r
                    })));
                }
                for (i, h) in hs { all[i] = h.await.unwrap_or(Ret::Err("panicked".into())); }
            }
            all
        });
        w.store.set_mode(Mode::Pass);
        out.evaluations += 1;
        out.bump("mt_runs");
        let (ids, docs) = dump(&w.coll);
        let input = json!({"multi_threaded": true, "cache": cache, "ops": ops.iter().map(|o| format!("{o:?}")).collect::<Vec<_>>(),
            "returns": rets.iter().map(|r| r.show()).collect::<Vec<_>>(), "final_docs": docs.iter().map(|(k, v)| format!("{k}:{v:?}")).collect::<Vec<_>>()});
        // real-time order from the log: Return(a) logged before Start(b)
        let mut before: Vec<(usize, usize)> = vec![];
        { let st = w.store.st.lock().unwrap();
          let mut returned: Vec<usize> = vec![];
          for t in &st.trace { match t {
              Tr::Return { op, .. } => returned.push(*op as usize),
              Tr::Issue { op, kind: "start", .. } => for a in &returned { before.push((*a, *op as usize)); },
              _ => {} } } }
        if !before.is_empty() { out.bump("mt_runs_with_realtime_constraints"); }
        let mut probes: Vec<u64> = vec![10, 20, 30];
        probes.extend(docs.values().map(|d| d.0)); probes.extend(100..105); probes.extend(200..205);
        for b in consistency_failures(&w.coll, &probes, true) { out.fail("index-document-divergence", b, input.clone()); }
        if ids != docs.keys().cloned().collect::<Vec<_>>() { out.fail("ids-without-document", format!("ids {:?} vs documents {:?}", ids, docs.keys()), input.clone()); }
        if let Some(bad) = rets.iter().position(|r| matches!(r, Ret::Err(_) | Ret::Lifecycle(_) | Ret::ReadOnly)) { out.fail("unexpected-error", format!("{:?} returned {:?}", ops[bad], rets[bad]), input.clone()); }
        match find_linearization(&init_state(), &ops, &rets, &before, &docs) {
            None => {
                let times: Vec<(usize, usize)> = { let st = w.store.st.lock().unwrap();
                    (0..ops.len()).map(|i| {
                        let s0 = st.trace.iter().position(|t| matches!(t, Tr::Issue { op, kind: "start", .. } if *op == i as i64)).unwrap_or(0);
                        let r0 = st.trace.iter().position(|t| matches!(t, Tr::Return { op, .. } if *op == i as i64)).unwrap_or(usize::MAX);
                        (s0, r0) }).collect() };
                if find_weak(&init_state(), &ops, &rets, &times, &docs).is_none() {
                    out.fail("not-linearizable", "no order respecting real time reproduces the return values and the final documents (reads judged by the acknowledged-write rule)".into(), input.clone());
                } else { out.bump("runs_with_reads_overlapping_an_unacknowledged_write_not_strictly_linearizable"); }
            }
            Some(order) => {
                let hist: Vec<Value> = order.iter().map(|i| tup(vec![nat(*i), jop(&ops[*i]), jret(&ops[*i], &rets[*i])])).collect();
                let prec: Vec<Value> = before.iter().map(|(a, b)| tup(vec![nat(*a), nat(*b)])).collect();
                out.lines.push(json!({"kind": "model", "fn": "check_lin",
                    "case": tup(vec![jdocs(&init_state().0), Value::Array(hist), Value::Array(prec), nat(ops.len()), jdocs(&docs)]), "input": input}));
            }
        }
    }
}

pub fn main(args: &[String]) {
    let out_path = arg_value(args, "--out").expect("--out");
    let thorough = std::env::var("VERIF_TIER").map(|t| t == "thorough").unwrap_or(false);
    let cap: usize = arg_value(args, "--schedules").and_then(|s| s.parse().ok()).unwrap_or(if thorough { 1500 } else { 60 });
    let triples: usize = arg_value(args, "--triples").and_then(|s| s.parse().ok()).unwrap_or(if thorough { 400 } else { 40 });
    let quads: usize = arg_value(args, "--quads").and_then(|s| s.parse().ok()).unwrap_or(if thorough { 300 } else { 10 });
    let mt: usize = arg_value(args, "--mt").and_then(|s| s.parse().ok()).unwrap_or(if thorough { 1500 } else { 120 });
    let model_every: u64 = arg_value(args, "--model-every").and_then(|s| s.parse().ok()).unwrap_or(if thorough { 40 } else { 4 });
    let mut rng = Rng::from_env();
    let mut out = Out { lines: vec![], failures: vec![], evaluations: 0, dist: BTreeMap::new(), model_every, seen: 0 };
    let pool = pool();
    // all ordered pairs, parked before and after every backend call, cache off (trace-level checker)
    for a in &pool { for b in &pool {
        if matches!(a, Op::Flush) && matches!(b, Op::Flush) { continue; }
        explore_set(&mut out, &[a.clone(), b.clone()], &[], false, true, cap, &mut rng);
    } }
    // the same-document pairs again with the read cache on (history-level checker only)
    for a in &pool[2..7] { for b in &pool[2..7] { explore_set(&mut out, &[a.clone(), b.clone()], &[], true, true, cap / 2, &mut rng); } }
    // overlapping reads, read cache ON, every backend call (the GETs included) parked before it is applied and again
    // before its result is delivered
    let reads = vec![Op::Get { id: 1 }, Op::Get { id: 2 }, Op::Get { id: 9 }, Op::QueryIds { a: 72 }, Op::QueryIds { a: 10 }];
    let writes: Vec<Op> = pool[0..7].to_vec();
    for r in &reads { for w in &writes {
        explore_set(&mut out, &[r.clone(), w.clone()], &[], true, true, cap / 2, &mut rng);
        explore_set(&mut out, &[w.clone(), r.clone()], &[], true, true, cap / 2, &mut rng);
        // a reader that starts only after the first of the two has returned
        explore_set(&mut out, &[w.clone(), r.clone()], &[Op::Get { id: 1 }], true, true, cap / 2, &mut rng);
    } }
    // read / write / read and two writers with a reader on the same document
    for w in &pool[2..7] { for w2 in &pool[2..7] {
        explore_set(&mut out, &[Op::Get { id: 1 }, w.clone(), w2.clone()], &[Op::Get { id: 1 }], true, true, cap / 3, &mut rng);
    } }
    // extension writers: save/remove_extension hold a lease; set_extension is synchronous and takes none, so WHEN it
    // runs relative to the backend steps of a flush is a scheduling choice (deferred start)
    let k = |s: &str| s.to_string();
    let exts = vec![Op::SetExt { key: k("k1"), val: 7 }, Op::SetExt { key: k("k1"), val: 8 }, Op::SaveExt { key: k("k2"), val: 5 }, Op::RemoveExt { key: k("k3") }];
    let dirty = vec![Op::SetExt { key: k("k3"), val: 1 }, Op::Add { a: 70, b: 7 }, Op::Update { id: 1, a: Some(72), b: None }, Op::SaveExt { key: k("k3"), val: 2 }];
    for d in &dirty { for e in &exts {
        explore_set_d(&mut out, &[d.clone(), Op::Flush], &[], &[e.clone()], true, true, cap, &mut rng);
        explore_set_d(&mut out, &[d.clone(), e.clone(), Op::Flush], &[], &[], true, false, cap / 2, &mut rng);
    } }
    for e in &exts { for e2 in &exts { explore_set_d(&mut out, &[e.clone(), Op::Flush], &[], &[e2.clone()], true, true, cap / 2, &mut rng); } }
    explore_set_d(&mut out, &[Op::SetExt { key: k("k3"), val: 1 }, Op::Flush], &[], &[Op::SetExt { key: k("k1"), val: 7 }, Op::SetExt { key: k("k2"), val: 9 }], true, true, cap, &mut rng);
    let mut pool_rw = pool.clone();
    pool_rw.extend(exts.iter().cloned());
    pool_rw.extend(reads.iter().cloned());
    for _ in 0..triples {
        let ops: Vec<Op> = (0..3).map(|_| rng.pick(&pool_rw).clone()).collect();
        if ops.iter().filter(|o| matches!(o, Op::Flush)).count() > 1 { continue; }
        let cache = rng.chance(1, 3);
        let post = rng.chance(1, 2);
        explore_set(&mut out, &ops, &[], cache, post, cap / 2, &mut rng);
    }
    for _ in 0..quads {
        let ops: Vec<Op> = (0..4).map(|_| rng.pick(&pool_rw).clone()).collect();
        if ops.iter().filter(|o| matches!(o, Op::Flush)).count() > 1 { continue; }
        let (first, late) = ops.split_at(3);
        explore_set(&mut out, first, late, rng.chance(1, 2), false, cap / 3, &mut rng);
    }
    let explorer_runs = out.evaluations;
    let nops = if thorough { 10 } else { 7 };
    let mut r2 = rng.fork();
    let handle = std::thread::spawn(move || { let mut o = Out { lines: vec![], failures: vec![], evaluations: 0, dist: BTreeMap::new(), model_every: 1, seen: 0 }; mt_runs(&mut o, mt, nops, &mut r2); o });
    let o2 = handle.join().expect("mt thread");
    out.evaluations += o2.evaluations;
    out.lines.extend(o2.lines);
    out.failures.extend(o2.failures);
    for (k, v) in o2.dist { *out.dist.entry(k).or_insert(0) += v; }
    let mut f = std::io::BufWriter::new(std::fs::File::create(&out_path).expect("out"));
    for l in &out.lines { writeln!(f, "{}", l).unwrap(); }
    let summary = json!({"kind": "summary", "evaluations": out.evaluations, "explorer_runs": explorer_runs, "model_cases": out.lines.len(),
        "distribution": out.dist, "oracle_failures": out.failures.len(), "failures": out.failures});
    writeln!(f, "{}", summary).unwrap();
}
