//! Scheduling object store: wraps `InMemory`, records every backend call, and either passes
//! calls through, makes every call a suspension point (Yield), or parks every call until the
//! explorer releases it (Park).  Calls are attributed to the operation being polled through a
//! thread-local set by the explorer / by the `Tagged` future wrapper.
use async_trait::async_trait;
use futures::{StreamExt, stream::BoxStream};
use object_store::{
    CopyOptions, GetOptions, GetResult, ListResult, MultipartUpload, ObjectMeta, ObjectStore,
    ObjectStoreExt, PutMode, PutMultipartOptions, PutOptions, PutPayload, PutResult, Result as OsResult,
    memory::InMemory, path::Path,
};
use std::cell::Cell;
use std::fmt;
use std::future::Future;
use std::pin::Pin;
use std::sync::{Arc, Mutex};
use std::task::{Context, Poll, RawWaker, RawWakerVTable, Waker};

thread_local! { static CUR_OP: Cell<i64> = const { Cell::new(-1) }; }
pub fn cur_op() -> i64 { CUR_OP.with(|c| c.get()) }
pub fn set_cur_op(v: i64) -> i64 { CUR_OP.with(|c| c.replace(v)) }

#[derive(Clone, Copy, PartialEq, Eq, Debug)]
pub enum Mode { Pass, Yield, Park, Jitter }

#[derive(Clone, Debug)]
pub struct Ev {
    pub op: i64,
    pub kind: &'static str,     // put | get | delete | list | copy | multipart
    pub path: String,           // full path in the store
    pub put_mode: &'static str, // create | overwrite | update | ""
    pub ok: bool,
    pub err: &'static str,      // "" | notfound | exists | precond | other
}
impl Ev {
    pub fn is_mutation(&self) -> bool { matches!(self.kind, "put" | "delete" | "copy" | "multipart") }
}

/// one entry of the explorer-visible trace
#[derive(Clone, Debug)]
pub enum Tr {
    Issue { op: i64, kind: &'static str, path: String },
    Apply(Ev),
    Resume { op: i64 },
    Return { op: i64, ret: String },
}

pub struct Parked {
    pub ticket: u64,
    pub op: i64,
    pub kind: &'static str,
    pub path: String,
    pub phase: u8,
    pub released: bool,
    pub waker: Option<Waker>,
}

pub struct State {
    pub mode: Mode,
    pub post_park: bool,
    pub log: Vec<Ev>,
    pub trace: Vec<Tr>,
    pub parked: Vec<Parked>,
    pub next_ticket: u64,
    pub jitter: u64,
}

pub type Shared = Arc<Mutex<State>>;

pub fn new_state() -> Shared {
    Arc::new(Mutex::new(State { mode: Mode::Pass, post_park: false, log: vec![], trace: vec![], parked: vec![], next_ticket: 1, jitter: 0x9E3779B97F4A7C15 }))
}

/// The suspension point in front of / behind a backend call.
pub struct Gate { st: Shared, ticket: Option<u64>, kind: &'static str, path: String, phase: u8, spins: u32 }

impl Future for Gate {
    type Output = ();
    fn poll(mut self: Pin<&mut Self>, cx: &mut Context<'_>) -> Poll<()> {
        let op = cur_op();
        let st_arc = self.st.clone();
        let mut st = st_arc.lock().unwrap();
        if op < 0 { return Poll::Ready(()); }
        match st.mode {
            Mode::Pass => Poll::Ready(()),
            Mode::Yield => {
                if self.ticket.is_none() { self.ticket = Some(0); cx.waker().wake_by_ref(); Poll::Pending } else { Poll::Ready(()) }
            }
            Mode::Jitter => {
                if self.ticket.is_none() {
                    let mut x = st.jitter; x ^= x >> 12; x ^= x << 25; x ^= x >> 27; st.jitter = x;
                    self.spins = (x.wrapping_mul(0x2545F4914F6CDD1D) >> 60) as u32 % 4;
                    self.ticket = Some(0);
                }
                if self.spins > 0 { self.spins -= 1; cx.waker().wake_by_ref(); Poll::Pending } else { Poll::Ready(()) }
            }
            Mode::Park => {
                if self.phase == 1 && !st.post_park { return Poll::Ready(()); }
                match self.ticket {
                    None => {
                        let t = st.next_ticket; st.next_ticket += 1;
                        if self.phase == 0 { let (k, p) = (self.kind, self.path.clone()); st.trace.push(Tr::Issue { op, kind: k, path: p }); }
                        let (kind, path, phase) = (self.kind, self.path.clone(), self.phase);
                        st.parked.push(Parked { ticket: t, op, kind, path, phase, released: false, waker: Some(cx.waker().clone()) });
                        self.ticket = Some(t);
                        Poll::Pending
                    }
                    Some(t) => {
                        if let Some(i) = st.parked.iter().position(|p| p.ticket == t) {
                            if st.parked[i].released {
                                st.parked.remove(i);
                                if self.phase == 1 { st.trace.push(Tr::Resume { op }); }
                                self.ticket = Some(u64::MAX);
                                Poll::Ready(())
                            } else { st.parked[i].waker = Some(cx.waker().clone()); Poll::Pending }
                        } else { Poll::Ready(()) }
                    }
                }
            }
        }
    }
}
impl Drop for Gate {
    fn drop(&mut self) {
        if let Some(t) = self.ticket { if t != 0 && t != u64::MAX { if let Ok(mut st) = self.st.lock() { st.parked.retain(|p| p.ticket != t); } } }
    }
}

#[derive(Clone)]
pub struct SchedStore { pub inner: Arc<InMemory>, pub st: Shared, pub apply: Arc<tokio::sync::Mutex<()>> }
impl fmt::Debug for SchedStore { fn fmt(&self, f: &mut fmt::Formatter<'_>) -> fmt::Result { f.write_str("SchedStore") } }
impl fmt::Display for SchedStore { fn fmt(&self, f: &mut fmt::Formatter<'_>) -> fmt::Result { f.write_str("SchedStore") } }

fn err_kind<T>(r: &OsResult<T>) -> &'static str {
    match r {
        Ok(_) => "",
        Err(object_store::Error::NotFound { .. }) => "notfound",
        Err(object_store::Error::AlreadyExists { .. }) => "exists",
        Err(object_store::Error::Precondition { .. }) => "precond",
        Err(_) => "other",
    }
}

impl SchedStore {
    pub fn new() -> Self { SchedStore { inner: Arc::new(InMemory::new()), st: new_state(), apply: Arc::new(tokio::sync::Mutex::new(())) } }
    fn gate(&self, kind: &'static str, path: &str, phase: u8) -> Gate {
        Gate { st: self.st.clone(), ticket: None, kind, path: path.to_string(), phase, spins: 0 }
    }
    fn record<T>(&self, kind: &'static str, path: &str, put_mode: &'static str, r: &OsResult<T>) {
        let ev = Ev { op: cur_op(), kind, path: path.to_string(), put_mode, ok: r.is_ok(), err: err_kind(r) };
        let mut st = self.st.lock().unwrap();
        st.trace.push(Tr::Apply(ev.clone()));
        st.log.push(ev);
    }
    pub fn set_mode(&self, m: Mode) { self.st.lock().unwrap().mode = m; }
    pub fn log_len(&self) -> usize { self.st.lock().unwrap().log.len() }
    pub fn log_from(&self, i: usize) -> Vec<Ev> { self.st.lock().unwrap().log[i..].to_vec() }
}

#[async_trait]
impl ObjectStore for SchedStore {
    async fn put_opts(&self, location: &Path, payload: PutPayload, opts: PutOptions) -> OsResult<PutResult> {
        let p = location.to_string();
        let m = match &opts.mode { PutMode::Create => "create", PutMode::Overwrite => "overwrite", PutMode::Update(_) => "update" };
        self.gate("put", &p, 0).await;
        let r = { let _g = self.apply.lock().await; let r = self.inner.put_opts(location, payload, opts).await; self.record("put", &p, m, &r); r };
        self.gate("put", &p, 1).await;
        r
    }
    async fn put_multipart_opts(&self, location: &Path, opts: PutMultipartOptions) -> OsResult<Box<dyn MultipartUpload>> {
        let p = location.to_string();
        let r = self.inner.put_multipart_opts(location, opts).await;
        self.record("multipart", &p, "", &r);
        r
    }
    async fn get_opts(&self, location: &Path, options: GetOptions) -> OsResult<GetResult> {
        let p = location.to_string();
        self.gate("get", &p, 0).await;
        let r = { let _g = self.apply.lock().await; let r = self.inner.get_opts(location, options).await; self.record("get", &p, "", &r); r };
        self.gate("get", &p, 1).await;
        r
    }
    fn delete_stream(&self, locations: BoxStream<'static, OsResult<Path>>) -> BoxStream<'static, OsResult<Path>> {
        let this = self.clone();
        locations
            .then(move |loc| {
                let this = this.clone();
                async move {
                    let loc = loc?;
                    let p = loc.to_string();
                    this.gate("delete", &p, 0).await;
                    let r = { let _g = this.apply.lock().await; let r = this.inner.delete(&loc).await; this.record("delete", &p, "", &r); r };
                    this.gate("delete", &p, 1).await;
                    r.map(|_| loc)
                }
            })
            .boxed()
    }
    fn list(&self, prefix: Option<&Path>) -> BoxStream<'static, OsResult<ObjectMeta>> {
        let this = self.clone();
        let prefix = prefix.cloned();
        futures::stream::once(async move {
            let p = prefix.as_ref().map(|p| p.to_string()).unwrap_or_default();
            this.gate("list", &p, 0).await;
            let items: Vec<OsResult<ObjectMeta>> = { let _g = this.apply.lock().await; this.inner.list(prefix.as_ref()).collect().await };
            this.record::<()>("list", &p, "", &Ok(()));
            futures::stream::iter(items)
        })
        .flatten()
        .boxed()
    }
    fn list_with_offset(&self, prefix: Option<&Path>, offset: &Path) -> BoxStream<'static, OsResult<ObjectMeta>> {
        let this = self.clone();
        let prefix = prefix.cloned();
        let offset = offset.clone();
        futures::stream::once(async move {
            let p = prefix.as_ref().map(|p| p.to_string()).unwrap_or_default();
            this.gate("list", &p, 0).await;
            let items: Vec<OsResult<ObjectMeta>> = { let _g = this.apply.lock().await; this.inner.list_with_offset(prefix.as_ref(), &offset).collect().await };
            this.record::<()>("list", &p, "", &Ok(()));
            futures::stream::iter(items)
        })
        .flatten()
        .boxed()
    }
    async fn list_with_delimiter(&self, prefix: Option<&Path>) -> OsResult<ListResult> {
        let p = prefix.map(|p| p.to_string()).unwrap_or_default();
        self.gate("list", &p, 0).await;
        let r = self.inner.list_with_delimiter(prefix).await;
        self.record("list", &p, "", &r);
        r
    }
    async fn copy_opts(&self, from: &Path, to: &Path, options: CopyOptions) -> OsResult<()> {
        let p = to.to_string();
        self.gate("copy", &p, 0).await;
        let r = { let _g = self.apply.lock().await; let r = self.inner.copy_opts(from, to, options).await; self.record("copy", &p, "", &r); r };
        self.gate("copy", &p, 1).await;
        r
    }
}

// ------------------------------------------------------------------------------------------ polling
fn noop_raw() -> RawWaker {
    fn clone(_: *const ()) -> RawWaker { noop_raw() }
    fn noop(_: *const ()) {}
    static VT: RawWakerVTable = RawWakerVTable::new(clone, noop, noop, noop);
    RawWaker::new(std::ptr::null(), &VT)
}
pub fn noop_waker() -> Waker { unsafe { Waker::from_raw(noop_raw()) } }

pub type BoxFut<T> = Pin<Box<dyn Future<Output = T> + Send>>;

/// poll once with a no-op waker, attributing backend calls to `op`
pub fn poll_as<T>(f: &mut BoxFut<T>, op: i64) -> Poll<T> {
    let w = noop_waker();
    let mut cx = Context::from_waker(&w);
    let prev = set_cur_op(op);
    let r = f.as_mut().poll(&mut cx);
    set_cur_op(prev);
    r
}

/// run a future to completion by busy polling (driver/setup code; untagged calls pass every gate)
pub fn drive<T>(f: impl Future<Output = T> + Send + 'static) -> T {
    let mut f: BoxFut<T> = Box::pin(f);
    for _ in 0..5_000_000u64 {
        if let Poll::Ready(v) = poll_as(&mut f, -1) { return v; }
    }
    panic!("drive: future did not complete (blocked on a parked call?)");
}

/// like `drive` but gives up (None) when the future stays pending for `max` polls
pub fn drive_bounded<T>(f: impl Future<Output = T> + Send + 'static, op: i64, max: u64) -> Option<T> {
    let mut f: BoxFut<T> = Box::pin(f);
    for _ in 0..max {
        if let Poll::Ready(v) = poll_as(&mut f, op) { return Some(v); }
    }
    None
}

/// future wrapper that attributes backend calls to `op` on whatever thread polls it
pub struct Tagged<F> { pub op: i64, pub fut: Pin<Box<F>> }
impl<F: Future> Future for Tagged<F> {
    type Output = F::Output;
    fn poll(mut self: Pin<&mut Self>, cx: &mut Context<'_>) -> Poll<F::Output> {
        let prev = set_cur_op(self.op);
        let r = self.fut.as_mut().poll(cx);
        set_cur_op(prev);
        r
    }
}
