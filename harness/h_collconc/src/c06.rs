//! C06 — retired or read-only handles never write; cancel = crash.
//!
//! Part A (cancel): for every mutating API and every poll count k, drop the future after k polls
//! (every backend call is two suspension points: before it is applied and before its result is
//! delivered), then check the handle state, the mutation log (a prefix of the same call run to
//! completion; empty when the handle is still Active), silence of the retained handle, and that a
//! reopen yields documents/indexes that agree and contain the call all-or-nothing.
//! Part B (transitions): close / close_collection / delete_collection / set_read_only / poison
//! interleaved with in-flight, gate-queued and late operations over the parking store; after the
//! transition returned nothing under the collection prefix is written by anyone.
use crate::explore::*;
use crate::sched::*;
use crate::world::*;
use anda_db::collection::Collection;
use h_common::*;
use serde_json::{Value, json};
use std::collections::BTreeMap;
use std::io::Write;
use std::sync::Arc;
use std::task::Poll;

const DOCS: [(u64, u64); 3] = [(10, 1), (20, 2), (30, 3)];
fn probes() -> Vec<u64> { let mut v = vec![10, 20, 30, 40, 70, 71, 33, 99]; v.extend(100..120); v }

fn dirty(w: &World) {
    // unflushed work so that flush/close have something to persist and intents to retire
    for op in [Op::Add { a: 40, b: 4 }, Op::Update { id: 3, a: None, b: Some(33) }, Op::SaveExt { key: "k".into(), val: 1 }] {
        let f = w.start(&op);
        let r = drive(f);
        assert!(r.is_ok(), "setup op failed: {r:?}");
    }
}

fn coll_mutations(evs: &[Ev]) -> Vec<(String, String)> {
    evs.iter().filter(|e| e.is_mutation() && e.ok && e.path.starts_with("db/c/"))
        .map(|e| (if e.kind == "put" { format!("put:{}", e.put_mode) } else { e.kind.to_string() }, canon_path(&e.path))).collect()
}

fn steps_json(s: &[(String, String)]) -> Value { Value::Array(s.iter().map(|(k, p)| tup(vec![json!(k), json!(p)])).collect()) }

fn is_prefix(a: &[(String, String)], b: &[(String, String)]) -> bool { a.len() <= b.len() && a.iter().zip(b).all(|(x, y)| x == y) }

fn probe_ops() -> Vec<Op> {
    vec![Op::Add { a: 99, b: 9 }, Op::Update { id: 2, a: Some(98), b: None }, Op::Remove { id: 1 }, Op::Flush,
         Op::SaveExt { key: "z".into(), val: 7 }, Op::RemoveExt { key: "k".into() }, Op::CompactBtree, Op::CompactBm25, Op::Reconcile]
}

/// every mutating API on a retained handle: all rejected, nothing written under the collection prefix
fn retained_handle_failures(w: &World, coll: &Arc<Collection>, what: &str) -> Vec<String> {
    let mut bad = vec![];
    let mark = w.store.log_len();
    for op in probe_ops() {
        let f = w.start_on(coll, &op);
        match drive_bounded(f, 99, 200_000) {
            Some(r) => if r.is_ok() { bad.push(format!("{what}: {} on the retained handle returned {r:?}", op.name())); },
            None => bad.push(format!("{what}: {} on the retained handle never returned", op.name())),
        }
    }
    coll.set_read_only(false);
    let f = w.start_on(coll, &Op::Add { a: 97, b: 9 });
    if let Some(r) = drive_bounded(f, 99, 200_000) { if r.is_ok() { bad.push(format!("{what}: add after set_read_only(false) on the retained handle returned {r:?}")); } }
    let wrote = coll_mutations(&w.store.log_from(mark));
    if !wrote.is_empty() { bad.push(format!("{what}: retained handle wrote {:?}", wrote)); }
    bad
}

fn allowed_dumps(pre: &BTreeMap<u64, (u64, u64)>, op: &Op, next_id: u64) -> Vec<BTreeMap<u64, (u64, u64)>> {
    let mut post = pre.clone();
    match op {
        Op::Add { a, b } => { post.insert(next_id, (*a, *b)); }
        Op::Update { id, a, b } => { if let Some(d) = post.get_mut(id) { if let Some(a) = a { d.0 = *a; } if let Some(b) = b { d.1 = *b; } } }
        Op::Remove { id } => { post.remove(id); }
        _ => {}
    }
    vec![pre.clone(), post]
}

struct Out { lines: Vec<Value>, failures: Vec<Value>, evaluations: u64, dist: BTreeMap<String, u64> }
impl Out {
    fn fail(&mut self, class: &str, what: String, input: Value) { if self.failures.len() < 40 { self.failures.push(json!({"class": class, "what": what, "input": input})); } else { self.failures.push(json!({"class": class})); self.failures.truncate(41); } }
    fn bump(&mut self, k: &str) { *self.dist.entry(k.to_string()).or_insert(0) += 1; }
}

fn cancel_ops() -> Vec<Op> {
    vec![Op::Add { a: 70, b: 7 }, Op::Update { id: 2, a: Some(71), b: None }, Op::Update { id: 2, a: None, b: Some(9) }, Op::Remove { id: 1 },
         Op::Flush, Op::SaveExt { key: "x".into(), val: 5 }, Op::RemoveExt { key: "k".into() }, Op::CompactBtree, Op::CompactBm25,
         Op::Reconcile, Op::Close, Op::CloseCollection, Op::DeleteCollection]
}

fn prepared() -> World {
    let w = World::new(true, true, &DOCS);
    dirty(&w);
    std::thread::sleep(std::time::Duration::from_millis(2));
    w
}

/// many tiny index buckets, then most documents removed and flushed: compaction has buckets to merge and persists
fn prepared_compact() -> World {
    let docs: Vec<(u64, u64)> = (0..16).map(|i| (100 + i, i)).collect();
    let w = World::new_b(true, true, &docs, 96);
    for id in 3..=14u64 { let f = w.start(&Op::Remove { id }); let r = drive(f); assert!(r.is_ok(), "setup remove failed: {r:?}"); }
    let r = drive(w.start(&Op::Flush)); assert!(r.is_ok(), "setup flush failed: {r:?}");
    std::thread::sleep(std::time::Duration::from_millis(2));
    w
}

fn prepared_for(op: &Op) -> World { if matches!(op, Op::CompactBtree | Op::CompactBm25) { prepared_compact() } else { prepared() } }

fn part_a(out: &mut Out, max_k: usize) {
    for op in cancel_ops() {
        // reference run: the same call to completion, every backend call a suspension point
        let w = prepared_for(&op);
        let mark = w.store.log_len();
        let mut f = w.start(&op);
        w.store.set_mode(Mode::Yield);
        let mut polls = 0usize;
        let full_ret = loop {
            polls += 1;
            if let Poll::Ready(r) = poll_as(&mut f, 0) { break r; }
            if polls > 100_000 { panic!("reference run of {} does not finish", op.name()); }
        };
        w.store.set_mode(Mode::Pass);
        let full = coll_mutations(&w.store.log_from(mark));
        if !full_ret.is_ok() { out.fail("harness", format!("reference run of {} failed: {full_ret:?}", op.name()), json!(null)); continue; }
        out.bump(&format!("polls:{}", op.name()));
        *out.dist.entry(format!("steps:{}", op.name())).or_insert(0) = full.len() as u64;
        *out.dist.entry(format!("polls:{}", op.name())).or_insert(0) = polls as u64;
        let retiring = matches!(op, Op::Close | Op::CloseCollection | Op::DeleteCollection);
        let ks: Vec<usize> = if polls <= max_k { (0..polls).collect() } else {
            // every k up to max_k/2, then an even spread over the rest
            let head = max_k / 2; let mut v: Vec<usize> = (0..head).collect();
            let rest = polls - head; for i in 0..(max_k - head) { v.push(head + i * rest / (max_k - head)); } v.dedup(); v };
        for k in ks {
            let w = prepared_for(&op);
            let (pre_ids, pre_docs) = dump(&w.coll);
            let next_id = w.coll.max_document_id() + 1;
            let mark = w.store.log_len();
            let mut f = w.start(&op);
            w.store.set_mode(Mode::Yield);
            let mut finished = None;
            for _ in 0..k { if let Poll::Ready(r) = poll_as(&mut f, 0) { finished = Some(r); break; } }
            drop(f);
            w.store.set_mode(Mode::Pass);
            out.evaluations += 1;
            if finished.is_some() { continue; }
            let st = w.state();
            let log = coll_mutations(&w.store.log_from(mark));
            let input = json!({"api": op.name(), "op": format!("{op:?}"), "dropped_after_polls": k, "state": st, "log": log.iter().map(|s| format!("{} {}", s.0, s.1)).collect::<Vec<_>>()});
            out.bump(&format!("state_after_drop:{st}"));
            out.lines.push(json!({"kind": "model", "fn": "check_cancel", "case": tup(vec![json!(st), steps_json(&log), steps_json(&full), json!(retiring)]), "obs": json!(null), "input": input.clone()}));
            // direct oracle
            if !is_prefix(&log, &full) { out.fail("cancel-not-a-crash-prefix", format!("{} dropped after {k} polls: mutation log is not a prefix of the completed call", op.name()), input.clone()); }
            if st == 0 {
                if !log.is_empty() { out.fail("cancel-partial-effect-unpoisoned", format!("{} dropped after {k} polls wrote {:?} but the handle is still Active", op.name(), log), input.clone()); }
                let (ids, docs) = dump(&w.coll);
                if ids != pre_ids || docs != pre_docs { out.fail("cancel-partial-effect-unpoisoned", format!("{} dropped after {k} polls changed the in-memory state of an Active handle", op.name()), input.clone()); }
                continue;
            }
            if !(st == 5 || retiring) { out.fail("cancel-unexpected-state", format!("{} dropped after {k} polls left state {st}", op.name()), input.clone()); }
            for b in retained_handle_failures(&w, &w.coll, &format!("{} dropped after {k} polls (state {st})", op.name())) { out.fail("retired-handle-writes", b, input.clone()); }
            // reopen
            if matches!(op, Op::DeleteCollection) {
                let r = w.reopen();
                if r.is_ok() { out.fail("delete-reopenable", format!("delete_collection dropped after {k} polls (state {st}): the collection can be opened again"), input.clone()); }
                let db = w.db.clone();
                let r = drive(async move { db.delete_collection(COLL).await.map_err(|e| format!("{e:?}")) });
                if let Err(e) = r { out.fail("delete-retry-fails", format!("retry of delete_collection after a drop at {k} polls failed: {e}"), input.clone()); }
                let l = w.listing();
                if !l.is_empty() { out.fail("delete-leaves-objects", format!("after the retried delete_collection the prefix still holds {:?}", l), input.clone()); }
                for b in retained_handle_failures(&w, &w.coll, "after delete_collection") { out.fail("retired-handle-writes", b, input.clone()); }
                if !w.listing().is_empty() { out.fail("delete-leaves-objects", "retained handle recreated objects after delete_collection".into(), input.clone()); }
                continue;
            }
            match w.reopen() {
                Err(e) => out.fail("reopen-fails", format!("{} dropped after {k} polls (state {st}): reopen failed: {e}", op.name()), input.clone()),
                Ok(c2) => {
                    if Arc::ptr_eq(&c2, &w.coll) { out.fail("reopen-returns-retired-handle", format!("{} dropped after {k} polls: open_collection returned the retired handle (state {st})", op.name()), input.clone()); continue; }
                    for b in consistency_failures(&c2, &probes(), true) { out.fail("reopen-inconsistent", format!("{} dropped after {k} polls: after reopen {b}", op.name()), input.clone()); }
                    let (_, docs) = dump(&c2);
                    if !allowed_dumps(&pre_docs, &op, next_id).contains(&docs) {
                        out.fail("reopen-not-all-or-nothing", format!("{} dropped after {k} polls: documents after reopen {:?} (before the call {:?})", op.name(), docs, pre_docs), input.clone());
                    }
                    // the reopened generation works, the old handle stays silent
                    let f = w.start_on(&c2, &Op::Add { a: 55, b: 5 });
                    let r = drive(f);
                    if !r.is_ok() { out.fail("reopen-unusable", format!("{} dropped after {k} polls: add on the reopened handle failed {r:?}", op.name()), input.clone()); }
                    let mark2 = w.store.log_len();
                    let f = w.start_on(&w.coll, &Op::Add { a: 56, b: 5 });
                    let r = drive_bounded(f, 99, 200_000);
                    if r.as_ref().map(|r| r.is_ok()).unwrap_or(true) || !coll_mutations(&w.store.log_from(mark2)).is_empty() {
                        out.fail("retired-handle-writes", format!("{} dropped after {k} polls: old handle accepted an add after the reopen ({r:?})", op.name()), input.clone());
                    }
                }
            }
        }
    }
}

/// cancel of the `&mut self` index APIs (only reachable inside an open/create callback)
fn part_a_mut(out: &mut Out, max_k: usize) {
    for which in ["create_btree_index(b)", "remove_btree_index(a)"] {
        let run = |k: Option<usize>| -> (bool, Vec<(String, String)>, World) {
            let w = World::new(true, false, &DOCS);
            let db = w.db.clone();
            drive(async move { db.close_collection(COLL).await.expect("close_collection") });
            std::thread::sleep(std::time::Duration::from_millis(2));
            let mark = w.store.log_len();
            let db = w.db.clone();
            let create = which.starts_with("create");
            let mut f: BoxFut<Result<(), String>> = Box::pin(async move {
                db.open_collection(COLL.to_string(), async move |c: &mut Collection| {
                    if create { c.create_btree_index_nx(&["b"]).await } else { c.remove_btree_index(&["a"]).await.map(|_| ()) }
                }).await.map(|_| ()).map_err(|e| format!("{e:?}"))
            });
            w.store.set_mode(Mode::Yield);
            let mut fin = false;
            let lim = k.unwrap_or(1_000_000);
            for _ in 0..lim { if let Poll::Ready(r) = poll_as(&mut f, 0) { fin = true; assert!(r.is_ok() || k.is_some(), "{r:?}"); break; } }
            drop(f);
            w.store.set_mode(Mode::Pass);
            let log = coll_mutations(&w.store.log_from(mark));
            (fin, log, w)
        };
        let (_, full, _) = run(None);
        *out.dist.entry(format!("steps:{which}")).or_insert(0) = full.len() as u64;
        for k in 0..max_k {
            let (fin, log, w) = run(Some(k));
            out.evaluations += 1;
            if fin { break; }
            let input = json!({"api": which, "dropped_after_polls": k, "log": log.iter().map(|s| format!("{} {}", s.0, s.1)).collect::<Vec<_>>()});
            out.lines.push(json!({"kind": "model", "fn": "check_cancel", "case": tup(vec![json!(2), steps_json(&log), steps_json(&full), json!(true)]), "obs": json!(null), "input": input.clone()}));
            if !is_prefix(&log, &full) { out.fail("cancel-not-a-crash-prefix", format!("{which} dropped after {k} polls: mutation log is not a prefix of the completed call"), input.clone()); }
            // the retry completes and everything agrees
            let db = w.db.clone();
            let create = which.starts_with("create");
            let r = drive(async move {
                db.open_collection(COLL.to_string(), async move |c: &mut Collection| {
                    if create { c.create_btree_index_nx(&["b"]).await } else { c.remove_btree_index(&["a"]).await.map(|_| ()) }
                }).await.map_err(|e| format!("{e:?}"))
            });
            match r {
                Err(e) => out.fail("reopen-fails", format!("{which} dropped after {k} polls: retry failed {e}"), input.clone()),
                Ok(c2) => {
                    let (_, docs) = dump(&c2);
                    let want: BTreeMap<u64, (u64, u64)> = DOCS.iter().enumerate().map(|(i, d)| (i as u64 + 1, *d)).collect();
                    if docs != want { out.fail("reopen-not-all-or-nothing", format!("{which} dropped after {k} polls: documents {:?}", docs), input.clone()); }
                    if create {
                        let c3 = c2.clone();
                        let got = drive(async move { c3.query_all_ids(anda_db::query::Filter::Field(("b".into(), anda_db::query::RangeQuery::Eq(anda_db::schema::Fv::U64(2))))).await.map_err(|e| format!("{e:?}")) });
                        if got != Ok(vec![2]) { out.fail("reopen-inconsistent", format!("{which} dropped after {k} polls: index b answers {:?}", got), input.clone()); }
                    } else {
                        for b in consistency_failures(&c2, &[], false).into_iter().filter(|b| !b.starts_with("btree a=")) { out.fail("reopen-inconsistent", b, input.clone()); }
                    }
                }
            }
        }
    }
}

// ------------------------------------------------------------------------------------------ part B
#[derive(Clone, Debug)]
enum Trans { Api(Op), Poison }
impl Trans {
    fn name(&self) -> String { match self { Trans::Api(o) => o.name().to_string(), Trans::Poison => "poison(drop in-flight call)".into() } }
    fn drains(&self) -> bool { matches!(self, Trans::Api(Op::Close) | Trans::Api(Op::CloseCollection) | Trans::Api(Op::DeleteCollection)) }
}

struct Scenario { inflight: Vec<Op>, hold_flush: bool, trans: Trans, late: Vec<Op>, post_park: bool }

/// returns false when the schedule space of this scenario is exhausted
fn run_scenario(out: &mut Out, sc: &Scenario, odo: &mut Odometer, rng: Option<&mut Rng>) {
    let w = World::new(true, true, &DOCS);
    dirty(&w);
    { let mut st = w.store.st.lock().unwrap(); st.mode = Mode::Park; st.post_park = sc.post_park; }
    let mut run = Run::new(w);
    let mut rng = rng;
    let mut flush_id = None;
    if sc.hold_flush { let id = run.add_actor(Op::Flush); run.start(id); flush_id = Some(id); }
    let mut inflight_ids = vec![];
    for op in &sc.inflight { let id = run.add_actor(op.clone()); run.start(id); inflight_ids.push(id); }
    // the transition
    let mut t_id: Option<i64> = None;
    let mut mark: Option<usize> = None;
    let mut state_at: i64 = -1;
    match &sc.trans {
        Trans::Api(op) => { let id = run.add_actor(op.clone()); run.start(id); t_id = Some(id); }
        Trans::Poison => {
            // drop the first in-flight call where it is parked
            if sc.hold_flush || inflight_ids.is_empty() { return; }
            run.drop_actor(inflight_ids[0]);
            mark = Some(run.w.store.log_len());
            state_at = run.w.state();
        }
    }
    if let Some(t) = t_id { if run.done(t) { mark = Some(run.w.store.log_len()); state_at = run.w.state(); } }
    let mut late_ids = vec![];
    for op in &sc.late { let id = run.add_actor(op.clone()); run.start(id); late_ids.push(id); }
    if let (Some(t), None) = (t_id, mark) { if run.done(t) { mark = Some(run.w.store.log_len()); state_at = run.w.state(); } }
    odo.begin();
    let mut step = 0usize;
    let mut sched: Vec<String> = vec![];
    let mut listing_at: Option<Vec<String>> = None;
    loop {
        if let (Some(t), None) = (t_id, mark) { if run.done(t) { mark = Some(run.w.store.log_len()); state_at = run.w.state();
            if matches!(sc.trans, Trans::Api(Op::DeleteCollection)) { run.w.store.set_mode(Mode::Pass); listing_at = Some(run.w.listing()); run.w.store.set_mode(Mode::Park); } } }
        if run.all_done() { break; }
        let en = run.enabled();
        if en.is_empty() { break; }
        let c = match rng.as_deref_mut() { Some(r) => r.below(en.len() as u64) as usize, None => odo.pick(step, en.len()) };
        sched.push(format!("{}:{}:{}", en[c].op, en[c].kind, canon_path(&en[c].path)));
        run.release(en[c].ticket);
        step += 1;
        if step > 5000 { break; }
    }
    out.evaluations += 1;
    let input = json!({"inflight": sc.inflight.iter().map(|o| format!("{o:?}")).collect::<Vec<_>>(), "queued_behind_flush": sc.hold_flush,
        "transition": sc.trans.name(), "late": sc.late.iter().map(|o| format!("{o:?}")).collect::<Vec<_>>(), "schedule": sched,
        "returns": run.actors.iter().map(|a| format!("{}={:?}", a.op.name(), a.ret)).collect::<Vec<_>>()});
    if !run.all_done() { out.fail("deadlock", format!("{}: no parked call left but calls are pending", sc.trans.name()), input.clone()); return; }
    let Some(mark) = mark else { out.fail("harness", "transition did not complete".into(), input); return; };
    run.w.store.set_mode(Mode::Pass);
    let t_ok = t_id.map(|t| run.actors[t as usize].ret.as_ref().unwrap().is_ok()).unwrap_or(true);
    out.bump(&format!("transition:{}", sc.trans.name()));
    if !t_ok { out.bump(&format!("transition_failed:{}", sc.trans.name())); }
    // who may still write after the transition returned?
    let after: Vec<Ev> = run.w.store.log_from(mark).into_iter().filter(|e| e.is_mutation() && e.ok && e.path.starts_with("db/c/")).collect();
    let admitted: Vec<i64> = if sc.hold_flush { flush_id.into_iter().collect() } else { inflight_ids.clone() };
    let offending: Vec<&Ev> = after.iter().filter(|e| {
        if Some(e.op) == t_id { return false; }
        if sc.trans.drains() && t_ok { return true; }
        !admitted.contains(&e.op)
    }).collect();
    let inflight_completions = after.iter().filter(|e| admitted.contains(&e.op)).count();
    if inflight_completions > 0 && !sc.trans.drains() { out.bump("inflight_writes_after_nondraining_transition"); }
    let off_steps: Vec<(String, String)> = offending.iter().map(|e| (e.kind.to_string(), canon_path(&e.path))).collect();
    let lifecycle_trans = !matches!(sc.trans, Trans::Api(Op::SetReadOnly(_)) | Trans::Api(Op::DbSetReadOnly(_)));
    if t_ok {
        out.lines.push(json!({"kind": "model", "fn": "check_silent", "case": tup(vec![json!(state_at), json!(lifecycle_trans), steps_json(&off_steps)]), "obs": json!(null), "input": input.clone()}));
        if !off_steps.is_empty() { out.fail("write-after-transition", format!("after {} returned: {:?}", sc.trans.name(), offending.iter().map(|e| format!("op{} {} {}", e.op, e.kind, canon_path(&e.path))).collect::<Vec<_>>()), input.clone()); }
        if lifecycle_trans && state_at == 0 { out.fail("transition-left-active", format!("{} returned Ok but the handle is Active", sc.trans.name()), input.clone()); }
        // late calls must be rejected
        for id in &late_ids { let r = run.actors[*id as usize].ret.as_ref().unwrap(); if r.is_ok() && run.actors[*id as usize].op.is_mutating() {
            out.fail("late-call-admitted", format!("{} issued after {} began returned {r:?}", run.actors[*id as usize].op.name(), sc.trans.name()), input.clone()); } }
        if sc.hold_flush { for id in &inflight_ids { let r = run.actors[*id as usize].ret.as_ref().unwrap(); if r.is_ok() {
            out.fail("queued-call-admitted", format!("{} queued behind the gate when {} began returned {r:?}", run.actors[*id as usize].op.name(), sc.trans.name()), input.clone()); } } }
        if lifecycle_trans {
            for b in retained_handle_failures(&run.w, &run.w.coll, &format!("after {}", sc.trans.name())) { out.fail("retired-handle-writes", b, input.clone()); }
        } else {
            // read-only: every mutating API is rejected and writes nothing while the flag is set
            let m = run.w.store.log_len();
            for op in probe_ops() { let f = run.w.start(&op); if let Some(r) = drive_bounded(f, 99, 200_000) { if r.is_ok() { out.fail("readonly-call-admitted", format!("{} on a read-only handle returned {r:?}", op.name()), input.clone()); } } }
            if !coll_mutations(&run.w.store.log_from(m)).is_empty() { out.fail("readonly-writes", "read-only handle wrote".into(), input.clone()); }
        }
        if matches!(sc.trans, Trans::Api(Op::DeleteCollection)) {
            if let Some(l) = &listing_at { if !l.is_empty() { out.fail("delete-leaves-objects", format!("when delete_collection returned the prefix held {:?}", l), input.clone()); } }
            let l = run.w.listing();
            if !l.is_empty() { out.fail("delete-leaves-objects", format!("retained handles recreated {:?}", l), input.clone()); }
            if run.w.reopen().is_ok() { out.fail("delete-reopenable", "collection can be opened after delete_collection".into(), input.clone()); }
        }
        if matches!(sc.trans, Trans::Api(Op::Close) | Trans::Api(Op::CloseCollection) | Trans::Poison) {
            // the only way back is a reopen, and the reopened generation agrees with itself
            match run.w.reopen() {
                Ok(c2) => {
                    if Arc::ptr_eq(&c2, &run.w.coll) { out.fail("reopen-returns-retired-handle", format!("after {}: open_collection returned the retired handle", sc.trans.name()), input.clone()); }
                    else { for b in consistency_failures(&c2, &probes(), true) { out.fail("reopen-inconsistent", format!("after {}: {b}", sc.trans.name()), input.clone()); } }
                }
                Err(e) => out.fail("reopen-fails", format!("after {}: {e}", sc.trans.name()), input.clone()),
            }
        }
    }
}

pub fn main(args: &[String]) {
    let out_path = arg_value(args, "--out").expect("--out");
    let thorough = std::env::var("VERIF_TIER").map(|t| t == "thorough").unwrap_or(false);
    let max_k: usize = arg_value(args, "--max-k").and_then(|s| s.parse().ok()).unwrap_or(if thorough { 400 } else { 90 });
    let cap: usize = arg_value(args, "--schedules").and_then(|s| s.parse().ok()).unwrap_or(if thorough { 400 } else { 40 });
    let mut rng = Rng::from_env();
    let mut out = Out { lines: vec![], failures: vec![], evaluations: 0, dist: BTreeMap::new() };
    part_a(&mut out, max_k);
    part_a_mut(&mut out, max_k.min(120));
    let cancel_cases = out.lines.len();

    let transitions = vec![Trans::Api(Op::Close), Trans::Api(Op::CloseCollection), Trans::Api(Op::DeleteCollection),
                           Trans::Api(Op::SetReadOnly(true)), Trans::Api(Op::DbSetReadOnly(true)), Trans::Poison];
    let mut inflights: Vec<Vec<Op>> = vec![
        vec![Op::Add { a: 70, b: 7 }], vec![Op::Update { id: 2, a: Some(71), b: None }], vec![Op::Remove { id: 1 }],
        vec![Op::SaveExt { key: "x".into(), val: 5 }],
        vec![Op::Add { a: 70, b: 7 }, Op::Update { id: 2, a: Some(71), b: None }],
        vec![Op::Update { id: 1, a: None, b: Some(8) }, Op::Remove { id: 1 }],
    ];
    if thorough { inflights.push(vec![Op::Add { a: 70, b: 7 }, Op::Update { id: 2, a: Some(71), b: None }, Op::Remove { id: 1 }]); }
    let lates: Vec<Vec<Op>> = vec![vec![Op::Add { a: 72, b: 7 }], vec![Op::Update { id: 3, a: Some(73), b: None }, Op::Flush]];
    let mut scenarios = 0u64;
    for t in &transitions {
        for inf in &inflights {
            for hold in [false, true] {
                for late in &lates {
                    let sc = Scenario { inflight: inf.clone(), hold_flush: hold, trans: t.clone(), late: late.clone(), post_park: thorough };
                    if matches!(t, Trans::Poison) && hold { continue; }
                    scenarios += 1;
                    let mut odo = Odometer::default();
                    let mut n = 0usize;
                    loop {
                        run_scenario(&mut out, &sc, &mut odo, None);
                        n += 1;
                        if !odo.next() { out.bump("scenarios_exhaustive"); break; }
                        if n >= cap { // sample the rest at random
                            for _ in 0..cap / 2 { let mut r = rng.fork(); run_scenario(&mut out, &sc, &mut Odometer::default(), Some(&mut r)); }
                            out.bump("scenarios_sampled");
                            break;
                        }
                    }
                }
            }
        }
    }
    let mut f = std::io::BufWriter::new(std::fs::File::create(&out_path).expect("out"));
    for l in &out.lines { writeln!(f, "{}", l).unwrap(); }
    let summary = json!({"kind": "summary", "evaluations": out.evaluations, "cancel_cases": cancel_cases, "transition_cases": out.lines.len() - cancel_cases,
        "scenarios": scenarios, "distribution": out.dist, "oracle_failures": out.failures.len(), "failures": out.failures});
    writeln!(f, "{}", summary).unwrap();
}
