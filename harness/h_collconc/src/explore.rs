//! Single-threaded schedule explorer: a set of operation futures polled by hand over the parking
//! store; the only scheduling decisions are which parked backend call to release next.
use crate::sched::*;
use crate::world::*;
use std::task::Poll;

pub struct Actor {
    pub id: i64,
    pub op: Op,
    pub fut: Option<BoxFut<Ret>>,
    pub ret: Option<Ret>,
    pub started: bool,
    pub dropped: bool,
}

pub struct Run {
    pub w: World,
    pub actors: Vec<Actor>,
}

#[derive(Clone, Debug)]
pub struct Choice { pub ticket: u64, pub op: i64, pub kind: &'static str, pub path: String, pub phase: u8 }

impl Run {
    pub fn new(w: World) -> Run { Run { w, actors: vec![] } }

    pub fn add_actor(&mut self, op: Op) -> i64 {
        let id = self.actors.len() as i64;
        let fut = self.w.start(&op);
        self.actors.push(Actor { id, op, fut: Some(fut), ret: None, started: false, dropped: false });
        id
    }

    pub fn start(&mut self, id: i64) { self.actors[id as usize].started = true; self.settle(); }

    fn fingerprint(&self) -> (usize, usize, u64, usize) {
        let st = self.w.store.st.lock().unwrap();
        (st.trace.len(), st.parked.len(), st.next_ticket, self.actors.iter().filter(|a| a.ret.is_some()).count())
    }

    /// poll every started, unfinished actor until nothing moves any more
    pub fn settle(&mut self) {
        for _ in 0..10_000 {
            let before = self.fingerprint();
            for i in 0..self.actors.len() {
                if !self.actors[i].started || self.actors[i].ret.is_some() || self.actors[i].dropped { continue; }
                let id = self.actors[i].id;
                let r = { let f = self.actors[i].fut.as_mut().unwrap(); poll_as(f, id) };
                if let Poll::Ready(ret) = r {
                    self.w.store.st.lock().unwrap().trace.push(Tr::Return { op: id, ret: ret.show() });
                    self.actors[i].ret = Some(ret);
                    self.actors[i].fut = None;
                }
            }
            if self.fingerprint() == before { return; }
        }
        panic!("settle: no fixpoint");
    }

    pub fn enabled(&self) -> Vec<Choice> {
        let st = self.w.store.st.lock().unwrap();
        let mut v: Vec<Choice> = st.parked.iter().filter(|p| !p.released)
            .map(|p| Choice { ticket: p.ticket, op: p.op, kind: p.kind, path: p.path.clone(), phase: p.phase }).collect();
        v.sort_by_key(|c| (c.op, c.ticket));
        v
    }

    pub fn release(&mut self, ticket: u64) {
        let waker = {
            let mut st = self.w.store.st.lock().unwrap();
            let mut w = None;
            for p in st.parked.iter_mut() { if p.ticket == ticket { p.released = true; w = p.waker.take(); } }
            w
        };
        if let Some(w) = waker { w.wake(); }
        self.settle();
    }

    /// drop an actor's future (cancellation)
    pub fn drop_actor(&mut self, id: i64) {
        let a = &mut self.actors[id as usize];
        a.fut = None;
        a.dropped = true;
        self.settle();
    }

    pub fn all_done(&self) -> bool { self.actors.iter().all(|a| !a.started || a.ret.is_some() || a.dropped) }
    pub fn done(&self, id: i64) -> bool { self.actors[id as usize].ret.is_some() }
}

/// Odometer over schedules: `choices[i] = (taken, available)` of the last run; `next` advances to
/// the lexicographically next schedule prefix, or returns false when all are enumerated.
#[derive(Default, Clone)]
pub struct Odometer { pub prefix: Vec<usize>, pub last: Vec<(usize, usize)> }
impl Odometer {
    pub fn pick(&mut self, step: usize, n: usize) -> usize {
        let c = if step < self.prefix.len() { self.prefix[step].min(n - 1) } else { 0 };
        if step < self.last.len() { self.last[step] = (c, n); } else { self.last.push((c, n)); }
        c
    }
    pub fn begin(&mut self) { self.last.clear(); }
    pub fn next(&mut self) -> bool {
        while let Some((c, n)) = self.last.pop() {
            if c + 1 < n {
                let mut p: Vec<usize> = self.last.iter().map(|x| x.0).collect();
                p.push(c + 1);
                self.prefix = p;
                return true;
            }
        }
        false
    }
}
