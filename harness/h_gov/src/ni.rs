//! C19 (b) — engine level: unreadable elements are invisible.
//!
//! For a generated population with mixed classifications and a generated read authority for
//! Principal `p`, three stores are built from the same logical population:
//!   S      everything;
//!   S_pert the same layout, hidden elements carrying different content (ids coincide);
//!   S_abs  only what `p` may read (the clone of S restricted to the readable elements).
//! A battery of KQL / META commands is run as `p` on all three and as the owner on S_abs; after
//! canonicalisation (timestamps, sequence numbers, ids renamed to logical names) the answers
//! must be equal.  The readable set is taken from the implementation's own `may_read`.
use crate::common::*;
use anda_cognitive_nexus::{
    CognitiveNexus, ElementId,
    governance::{
        AuthContext, SYSTEM_PRINCIPAL,
        rows::*,
        store::{DelegationDraft, GrantDraft, PolicyDraft},
    },
};
use h_common::*;
use serde_json::{Value, json};
use std::collections::BTreeMap;

const P: &str = "kip:principal:p";

#[derive(Clone, Debug)]
enum Item {
    Concept { ty: &'static str, name: String, alt: String, rank: i64 },
    Prop { subj: usize, obj: usize },
    Evidence { payload: String, alt: String },
    Assertion { prop: usize, by: usize, ev: usize, conf: f64 },
}

#[derive(Clone, Debug)]
struct Elem {
    item: Item,
    label: &'static str, // "" = none stated (Space default); the label the element carries NOW
    hidden: bool,
    /// Some(l): created carrying `l` and reclassified to `label` by the control plane after the
    /// marker coordinate (raised when it is hidden now, lowered when it is visible now)
    initial: Option<&'static str>,
}

#[derive(Clone, Copy, Debug, PartialEq)]
enum Shape { Ceiling, Classes, Kinds, PolicyAllow, Masked, Capped }

const WORDS: [&str; 8] = ["amber", "basil", "cedar", "delta", "ember", "fjord", "grove", "harbor"];

fn label_rank(l: &str) -> u8 { match l { "public" => 0, "" | "internal" => 1, "private" => 2, "sensitive" => 3, "secret" => 4, _ => 9 } }

/// The logical population; `hidden` is what the generated authority is designed to hide
/// (checked against the implementation's may_read once S is built).
fn population(rng: &mut Rng, shape: Shape, ceiling: &'static str, classes: &[&'static str]) -> Vec<Elem> {
    let labels = ["", "public", "private", "secret", "internal"];
    let hides = |kind: &str, label: &'static str| -> bool {
        match shape {
            Shape::Ceiling | Shape::Masked | Shape::Capped => label_rank(label) > label_rank(ceiling),
            Shape::Classes => !classes.contains(&(if label.is_empty() { "internal" } else { label })),
            Shape::Kinds => kind == "evidence" || kind == "assertion",
            Shape::PolicyAllow => label_rank(label) > 1,
        }
    };
    let mut v: Vec<Elem> = Vec::new();
    let nc = 5 + rng.below(6) as usize;
    for i in 0..nc {
        let label = *rng.pick(&labels);
        let ty = if i % 3 == 2 { "Preference" } else { "Person" };
        let w1 = *rng.pick(&WORDS);
        let w2 = *rng.pick(&WORDS);
        v.push(Elem { item: Item::Concept { ty, name: format!("{w1} {w2} {i}"), alt: format!("{} {} {i}", rng.pick(&WORDS), rng.pick(&WORDS)), rank: rng.range(0, 9) },
                      label, hidden: hides("concept", label), initial: None });
    }
    let persons: Vec<usize> = (0..nc).filter(|i| i % 3 != 2).collect();
    let prefs: Vec<usize> = (0..nc).filter(|i| i % 3 == 2).collect();
    let np = 2 + rng.below(5) as usize;
    let mut seen = Vec::new();
    for _ in 0..np {
        if persons.is_empty() || prefs.is_empty() { break; }
        let s = *rng.pick(&persons);
        let o = *rng.pick(&prefs);
        if seen.contains(&(s, o)) { continue; }
        seen.push((s, o));
        // a tuple is at least as restricted as what it relates
        let own = *rng.pick(&labels);
        let label = [own, v[s].label, v[o].label].into_iter().max_by_key(|l| label_rank(l)).unwrap();
        // mostly a tuple is hidden with what it relates; sometimes it stays visible on its own label
        // while an endpoint is hidden (a reference that leads to an element the reader may not read)
        let (label, hidden) = if rng.chance(1, 4) { (own, hides("proposition", own)) }
                              else { (label, hides("proposition", label) || v[s].hidden || v[o].hidden) };
        v.push(Elem { item: Item::Prop { subj: s, obj: o }, label, hidden, initial: None });
    }
    let props: Vec<usize> = (0..v.len()).filter(|i| matches!(v[*i].item, Item::Prop { .. })).collect();
    let ne = 1 + rng.below(3) as usize;
    let e0 = v.len();
    for i in 0..ne {
        let label = *rng.pick(&labels);
        v.push(Elem { item: Item::Evidence { payload: format!("{} {} note {i}", rng.pick(&WORDS), rng.pick(&WORDS)), alt: format!("{} memo {i}", rng.pick(&WORDS)) },
                      label, hidden: hides("evidence", label), initial: None });
    }
    let na = rng.below(4) as usize;
    for _ in 0..na {
        if props.is_empty() { break; }
        let p = *rng.pick(&props);
        let by = *rng.pick(&persons);
        let ev = e0 + rng.below(ne as u64) as usize;
        // the engine joins the cited Evidence's label onto the Assertion at commit
        // ... and it is labelled at least as high as everything it is about, so that a claim about
        // hidden things is hidden by its own label
        let label = [v[ev].label, v[p].label, v[by].label, ""].into_iter().max_by_key(|l| label_rank(l)).unwrap();
        let label = if label_rank(label) <= 1 { "" } else { label };
        let hidden = hides("assertion", label) || v[p].hidden || v[by].hidden || v[ev].hidden;
        v.push(Elem { item: Item::Assertion { prop: p, by, ev, conf: (1 + rng.below(9)) as f64 / 10.0 }, label, hidden, initial: None });
    }
    // control-plane reclassification after the marker coordinate: what is hidden now was written
    // readable (raised since), what is visible now was written secret (lowered since)
    for e in v.iter_mut() {
        if matches!(e.item, Item::Concept { .. } | Item::Prop { .. }) && rng.chance(1, 3) {
            if e.hidden { e.initial = Some("public"); }
            else if !e.label.is_empty() { e.initial = Some("secret"); }
        }
    }
    v
}

/// Whether some visible tuple relates an element the reader may not read (then no restricted clone
/// exists: the tuple cannot be written without its endpoint).
fn has_dangling(pop: &[Elem]) -> bool {
    pop.iter().any(|e| match e.item { Item::Prop { subj, obj } => !e.hidden && (pop[subj].hidden || pop[obj].hidden), _ => false })
}

/// A fixed population for the SEARCH over-fetch window: six hidden Concepts that outrank the one
/// visible Concept for the term "delta".
fn starvation_population() -> Vec<Elem> {
    let mut v = vec![Elem { item: Item::Concept { ty: "Person", name: "delta anchor visible one".into(), alt: "delta anchor visible one".into(), rank: 1 }, label: "public", hidden: false, initial: None }];
    for i in 0..6 {
        v.push(Elem { item: Item::Concept { ty: "Person", name: format!("delta delta h{i}"), alt: format!("omega omega h{i}"), rank: 2 }, label: "secret", hidden: true, initial: None });
    }
    v
}

fn kind_of(item: &Item) -> anda_kip::ElementKind {
    match item {
        Item::Concept { .. } => anda_kip::ElementKind::Concept,
        Item::Prop { .. } => anda_kip::ElementKind::Proposition,
        Item::Evidence { .. } => anda_kip::ElementKind::Evidence,
        Item::Assertion { .. } => anda_kip::ElementKind::Assertion,
    }
}

struct Built {
    nexus: CognitiveNexus,
    ids: BTreeMap<usize, ElementId>, // logical index -> id in this store
    absent: BTreeMap<usize, String>,  // a never-written id of the right kind for elements this store lacks
    marker: u64,                      // Space sequence after the population was written, before reclassification
}

/// Builds one store: `include(i)` says which logical elements exist here, `perturb` swaps the
/// content of hidden ones.
async fn build(name: &str, pop: &[Elem], include: &dyn Fn(usize) -> bool, perturb: bool) -> Result<Built, String> {
    let nexus = stocked(name).await;
    let owner = nexus.system_session();
    let mut ids: BTreeMap<usize, ElementId> = BTreeMap::new();
    let mut counters: BTreeMap<String, u64> = BTreeMap::new();
    let mut absent: BTreeMap<usize, String> = BTreeMap::new();
    for (i, e) in pop.iter().enumerate() {
        if !include(i) { absent.insert(i, ElementId::new(kind_of(&e.item), 999).to_string()); continue; }
        let alt = perturb && e.hidden;
        let mut params = json!({});
        let cmd = match &e.item {
            Item::Concept { ty, name, alt: alt_name, rank } => format!(
                r#"CREATE CONCEPT ?c {{ TYPE "{ty}" NAME "{}" SET ATTRIBUTES {{rank: {}, nickname: "{}"}} }}"#,
                if alt { alt_name } else { name }, if alt { 9 - rank } else { *rank }, if alt { "zz" } else { "nn" }),
            Item::Prop { subj, obj } => {
                let (Some(s), Some(o)) = (ids.get(subj), ids.get(obj)) else { return Err(format!("dangling proposition {i}")) };
                params = json!({"s": s.to_string(), "o": o.to_string()});
                r#"ENSURE PROPOSITION ?p (:s, "prefers", :o)"#.to_string()
            }
            Item::Evidence { payload, alt: alt_payload } => format!(
                r#"CREATE EVIDENCE ?e {{ SET FIELDS {{evidence_class: "Document", payload: "{}"}} }}"#, if alt { alt_payload } else { payload }),
            Item::Assertion { prop, by, ev, conf } => {
                let (Some(p), Some(b), Some(v)) = (ids.get(prop), ids.get(by), ids.get(ev)) else { return Err(format!("dangling assertion {i}")) };
                params = json!({"p": p.to_string(), "b": b.to_string(), "v": v.to_string()});
                format!(r#"CREATE ASSERTION ?a {{ SET FIELDS {{proposition: :p, asserted_by: :b, stance: "support", mode: "stated", confidence: {}}} SET STRUCTURAL {{ ("evidence", :v) {{role: "support"}} }} }}"#,
                        if alt { 1.0 - conf } else { *conf })
            }
        };
        let r = run_params(&owner, &cmd, params).await?;
        let code = error_code(&r);
        if !code.is_empty() { return Err(format!("population command failed: {cmd} -> {code} {:?}", r.error)); }
        let kind = kind_of(&e.item);
        let c = counters.entry(kind.to_string()).or_default();
        *c += 1;
        let id = ElementId::new(kind, *c);
        // the element just written really is the one with the next row id of its kind
        if nexus.store.get_element(id).await.is_err() { return Err(format!("id bookkeeping lost at {i}: {id}")); }
        ids.insert(i, id);
        let at_creation = e.initial.unwrap_or(e.label);
        if !at_creation.is_empty() {
            owner.classify(SPACE, id, at_creation).await.map_err(|err| format!("classify {id} {at_creation}: {err:?}"))?;
        }
    }
    let marker = nexus.store.get_space(SPACE).await.map_err(|e| format!("{e:?}"))?.seq;
    for (i, e) in pop.iter().enumerate() {
        let (Some(id), Some(was)) = (ids.get(&i), e.initial) else { continue };
        let now_label = if e.label.is_empty() { "internal" } else { e.label };
        if was != now_label {
            owner.classify(SPACE, *id, now_label).await.map_err(|err| format!("reclassify {id} {was}->{now_label}: {err:?}"))?;
        }
    }
    Ok(Built { nexus, ids, absent, marker })
}

async fn authorize_p(nexus: &CognitiveNexus, shape: Shape, ceiling: &str, classes: &[&'static str]) {
    let gov = nexus.governance();
    agent(gov, P).await;
    let actions: Vec<String> = ["read", "search", "discover", "read_history", "export", "project", "read_raw_origin"].iter().map(|x| x.to_string()).collect();
    let mut draft = GrantDraft { space_id: SPACE.into(), grantee_principal: P.into(), actions, ..Default::default() };
    draft.constraints.export = true;
    match shape {
        Shape::Ceiling => draft.constraints.max_classification = ceiling.into(),
        Shape::Masked => { draft.constraints.max_classification = ceiling.into(); draft.constraints.fields = vec!["name".into(), "schema_ref".into()]; }
        Shape::Capped => { draft.constraints.max_classification = ceiling.into(); draft.constraints.max_results = Some(3); }
        Shape::Classes => draft.scope.classifications = classes.iter().map(|x| x.to_string()).collect(),
        Shape::Kinds => draft.scope.kinds = vec!["concept".into(), "proposition".into()],
        Shape::PolicyAllow => {
            // no Grant at all: the authority is a policy allow statement scoped by classification
            gov.publish_policy(PolicyDraft { policy_id: "kip:policy:space".into(), space_id: SPACE.into(), description: "ni".into(), statements: vec![
                PolicyStatement { effect: "allow".into(), principals: vec![P.into()], actions: draft.actions.clone(),
                                  resource: AuthorityScope { classifications: vec!["public".into(), "internal".into()], ..Default::default() }, ..Default::default() },
            ] }, SYSTEM_PRINCIPAL).await.unwrap();
            let mut space = nexus.store.get_space(SPACE).await.unwrap();
            space.default_policy_id = "kip:policy:space".into();
            nexus.store.put_space(&space).await.unwrap();
            return;
        }
    }
    gov.create_grant(draft, SYSTEM_PRINCIPAL).await.unwrap();
}

/// (command, comparable across stores whose sequence numbers differ, comparable with the owner)
fn battery(rng: &mut Rng, pop: &[Elem], s: &Built) -> Vec<(String, bool, bool)> {
    let w = *rng.pick(&WORDS);
    let w2 = *rng.pick(&WORDS);
    let some_id = |rng: &mut Rng, want_hidden: bool| -> Option<String> {
        let c: Vec<usize> = (0..pop.len()).filter(|i| pop[*i].hidden == want_hidden && matches!(pop[*i].item, Item::Concept { .. })).collect();
        if c.is_empty() { None } else { Some(format!("@{}", rng.pick(&c))) }
    };
    let _ = s;
    let mut v: Vec<(String, bool, bool)> = vec![
        (r#"FIND(?c) WHERE { ?c CONCEPT {type: "Person"} }"#.into(), true, true),
        (r#"FIND(?c.name) WHERE { ?c CONCEPT {} } ORDER BY ?c.name"#.into(), true, true),
        (r#"FIND(?c.id, ?c.name) WHERE { ?c CONCEPT {} } ORDER BY ?c.attributes.rank DESC LIMIT 3"#.into(), true, true),
        (r#"FIND(?c.name) WHERE { ?c CONCEPT {} } ORDER BY ?c.name LIMIT 2 CURSOR 2"#.into(), true, true),
        (r#"FIND(COUNT(?c)) WHERE { ?c CONCEPT {} }"#.into(), true, true),
        (r#"FIND(COUNT(?c)) WHERE { ?c CONCEPT {type: "Preference"} }"#.into(), true, true),
        (r#"FIND(COUNT(?p)) WHERE { ?p PROPOSITION (?s, "prefers", ?o) }"#.into(), true, true),
        (r#"FIND(?s.name, ?o.name) WHERE { ?p PROPOSITION (?s, "prefers", ?o) } ORDER BY ?s.name"#.into(), true, true),
        (r#"FIND(?c.name) WHERE { ?c CONCEPT {type: "Person"} NOT { (?c, "prefers", ?o) } } ORDER BY ?c.name"#.into(), true, true),
        (r#"FIND(?c.name, ?o.name) WHERE { ?c CONCEPT {type: "Person"} OPTIONAL { (?c, "prefers", ?o) } } ORDER BY ?c.name"#.into(), true, true),
        (r#"FIND(?c.name) WHERE { UNION { ?c CONCEPT {type: "Person"} } UNION { ?c CONCEPT {type: "Preference"} } } ORDER BY ?c.name"#.into(), true, true),
        (r#"FIND(?c.name) WHERE { ?c CONCEPT {} FILTER(?c.attributes.rank > 4) } ORDER BY ?c.name"#.into(), true, true),
        (r#"FIND(?c.name) WHERE { ?c CONCEPT {} FILTER(?c.attributes.nickname == "nn") } ORDER BY ?c.name"#.into(), true, true),
        (r#"FIND(?c.name, ?c.governance.classification) WHERE { ?c CONCEPT {} } ORDER BY ?c.governance.classification, ?c.name"#.into(), true, true),
        (r#"FIND(?e) WHERE { ?e EVIDENCE {} }"#.into(), true, true),
        (r#"FIND(COUNT(?e)) WHERE { ?e EVIDENCE {} }"#.into(), true, true),
        (r#"FIND(?a.confidence) WHERE { ?a ASSERTION {} } ORDER BY ?a.confidence"#.into(), true, true),
        (r#"FIND(COUNT(?a)) WHERE { ?a ASSERTION {} }"#.into(), true, true),
        (format!(r#"FIND(?c.name) WHERE {{ ?c CONCEPT {{name: "{w} {w2} 0"}} }}"#), true, true),
        (r#"FIND(?c) WHERE { ?c CONCEPT {type: "Person"} } AS OF SEQ 6"#.into(), false, false),
        (r#"FIND(COUNT(?c)) WHERE { ?c CONCEPT {} } AS OF SEQ 9"#.into(), false, false),
        (format!(r#"SEARCH CONCEPT "{w}""#), true, true),
        (format!(r#"SEARCH CONCEPT "{w2}" LIMIT 1"#), true, true),
        (format!(r#"SEARCH COGNITION "{w}" LIMIT 2"#), true, true),
        (r#"SEARCH EVIDENCE "note""#.into(), true, true),
        (r#"SEARCH CONCEPT "delta" LIMIT 1"#.into(), true, true),
        (r#"SEARCH CONCEPT "delta""#.into(), true, true),
        ("DESCRIBE PRIMER".into(), true, false),
        ("HISTORY SPACE".into(), true, false),
        ("HISTORY SPACE LIMIT 3".into(), true, false),
        ("CHANGES AFTER SEQ 0".into(), true, false),
        ("CHANGES AFTER SEQ 0 LIMIT 4".into(), true, false),
        (r#"EXPORT CAPSULE ?c WHERE { ?c CONCEPT {} }"#.into(), true, false),
        (r#"EXPORT CAPSULE ?a WHERE { ?a ASSERTION {} }"#.into(), true, false),
    ];
    // reads bound to the coordinate before the control plane reclassified: every way of reaching an
    // element — type scan, by id, tuple endpoints, followed references, path steps, structural members
    v.push((r#"FIND(?c.name) WHERE { ?c CONCEPT {} } AS OF SEQ @M ORDER BY ?c.name"#.into(), true, false));
    v.push((r#"FIND(COUNT(?c)) WHERE { ?c CONCEPT {} } AS OF SEQ @M"#.into(), true, false));
    v.push((r#"FIND(?s.name, ?o.name) WHERE { ?p PROPOSITION (?s, "prefers", ?o) } AS OF SEQ @M ORDER BY ?s.name"#.into(), true, false));
    v.push((r#"FIND(?p) WHERE { ?p PROPOSITION (?s, "prefers", ?o) } AS OF SEQ @M"#.into(), true, false));
    v.push((r#"FIND(?a.confidence) WHERE { ?a ASSERTION {} } AS OF SEQ @M ORDER BY ?a.confidence"#.into(), true, false));
    v.push((r#"FIND(?e) WHERE { ?e EVIDENCE {} } AS OF SEQ @M"#.into(), true, false));
    let pick = |rng: &mut Rng, f: &dyn Fn(&Elem) -> bool| -> Option<usize> {
        let c: Vec<usize> = (0..pop.len()).filter(|i| f(&pop[*i])).collect();
        if c.is_empty() { None } else { Some(*rng.pick(&c)) }
    };
    let concept = |e: &Elem| matches!(e.item, Item::Concept { .. });
    let targets: Vec<Option<usize>> = vec![
        pick(rng, &|e| concept(e) && e.hidden && e.initial.is_some()),   // raised since
        pick(rng, &|e| concept(e) && e.hidden && e.initial.is_some()),
        pick(rng, &|e| concept(e) && !e.hidden && e.initial.is_some()),  // lowered since
        pick(rng, &|e| concept(e) && e.hidden && e.initial.is_none()),   // hidden all along
        pick(rng, &|e| concept(e) && !e.hidden && e.initial.is_none()),  // visible all along
    ];
    for i in targets.into_iter().flatten() {
        v.push((format!(r#"FIND(?c) WHERE {{ ?c CONCEPT {{id: "@{i}"}} }} AS OF SEQ @M"#), true, false));
        v.push((format!(r#"FIND(?c.name, ?c.attributes.rank) WHERE {{ ?c CONCEPT {{id: "@{i}"}} }} AS OF SEQ @M"#), true, false));
        v.push((format!(r#"FIND(?o.name) WHERE {{ ({{id: "@{i}"}}, "prefers", ?o) }} AS OF SEQ @M"#), true, false));
        v.push((format!(r#"FIND(?s.name) WHERE {{ (?s, "prefers", {{id: "@{i}"}}) }} AS OF SEQ @M"#), true, false));
        v.push((format!(r#"FIND(?b.name) WHERE {{ ({{id: "@{i}"}}, "prefers"{{1,2}}, ?b) }} AS OF SEQ @M"#), true, false));
        v.push((format!(r#"FIND(?c.name) WHERE {{ ?c CONCEPT {{id: "@{i}"}} OPTIONAL {{ (?c, "prefers", ?o) }} }} AS OF SEQ @M"#), true, false));
        v.push((format!(r#"EXPORT CAPSULE ?c WHERE {{ ?c CONCEPT {{id: "@{i}"}} }} AS OF SEQ @M"#), true, false));
    }
    // tuples reached by id, and through them their endpoints
    for want_hidden in [true, false] {
        if let Some(i) = pick(rng, &|e| matches!(e.item, Item::Prop { .. }) && e.hidden == want_hidden) {
            v.push((format!(r#"FIND(?p) WHERE {{ ?p PROPOSITION (id: "@{i}") }} AS OF SEQ @M"#), true, false));
            v.push((format!(r#"FIND(?s.name, ?o.name) WHERE {{ ?p PROPOSITION (id: "@{i}") ?p PROPOSITION (?s, "prefers", ?o) }} AS OF SEQ @M"#), true, false));
        }
    }
    // Assertions reached by id lead to their Proposition, actor and Evidence (structural members)
    if let Some(i) = pick(rng, &|e| matches!(e.item, Item::Assertion { .. })) {
        v.push((format!(r#"FIND(?a) WHERE {{ ?a ASSERTION {{id: "@{i}"}} }} AS OF SEQ @M"#), true, false));
        v.push((format!(r#"FIND(?a.proposition, ?a.asserted_by, ?a.evidence) WHERE {{ ?a ASSERTION {{id: "@{i}"}} }} AS OF SEQ @M"#), true, false));
    }
    for hidden in [true, false, true] {
        if let Some(id) = some_id(rng, hidden) {
            v.push((format!(r#"FIND(?c) WHERE {{ ?c CONCEPT {{id: "{id}"}} }}"#), true, true));
            v.push((format!(r#"HISTORY ELEMENT "{id}""#), true, false));
            v.push((format!(r#"FIND(?o.name) WHERE {{ ({{id: "{id}"}}, "prefers", ?o) }}"#), true, true));
        }
    }
    v
}

/// Logical ids: "@7" in a command is replaced by the element's id in the store it runs on.
fn materialise(cmd: &str, b: &Built) -> Option<String> {
    let cmd = cmd.replace("@M", &b.marker.to_string());
    let mut out = String::new();
    let mut rest = cmd.as_str();
    while let Some(i) = rest.find('@') {
        out.push_str(&rest[..i]);
        let digits: String = rest[i + 1..].chars().take_while(|c| c.is_ascii_digit()).collect();
        if digits.is_empty() { out.push('@'); rest = &rest[i + 1..]; continue; }
        let idx: usize = digits.parse().ok()?;
        match b.ids.get(&idx) {
            Some(id) => out.push_str(&id.to_string()),
            // the element does not exist in this store: name an id that was never written
            None => out.push_str(b.absent.get(&idx).map(|x| x.as_str()).unwrap_or("C-999")),
        }
        rest = &rest[i + 1 + digits.len()..];
    }
    out.push_str(rest);
    Some(out)
}

fn is_time(s: &str) -> bool {
    let b = s.as_bytes();
    b.len() >= 20 && b[4] == b'-' && b[7] == b'-' && b[10] == b'T' && b[13] == b':' && s.ends_with('Z')
}

/// Canonical form of an answer: ids renamed to logical names, timestamps / sequence numbers /
/// transaction ids / digests (which cover timestamps) blanked.
fn canon(v: &Value, names: &BTreeMap<String, String>, strip_scores: bool) -> Value {
    match v {
        Value::Object(m) => {
            let mut out = serde_json::Map::new();
            for (k, x) in m {
                let kl = k.to_ascii_lowercase();
                if kl.contains("seq") || kl == "tx_id" || kl.ends_with("_at") || kl == "at" || kl.contains("digest") || kl.contains("token")
                    || kl == "capsule_id" || kl == "nexus_id" || kl == "exported_at" || kl == "created" || kl == "version_id"
                    || (strip_scores && kl == "score") {
                    out.insert(k.clone(), json!("<>"));
                } else if kl == "next_cursor" {
                    out.insert(k.clone(), if x.is_null() { Value::Null } else { json!("<cursor>") });
                } else {
                    out.insert(k.clone(), canon(x, names, strip_scores));
                }
            }
            Value::Object(out)
        }
        Value::Array(a) => Value::Array(a.iter().map(|x| canon(x, names, strip_scores)).collect()),
        Value::String(s) => {
            if is_time(s) { return json!("<T>"); }
            if let Some(n) = names.get(s) { return json!(n); }
            // ids embedded in longer strings (endpoint keys, tx ids "space#seq")
            let mut t = s.clone();
            if t.contains('#') && t.starts_with("kip:space:") { return json!("<tx>"); }
            for (id, n) in names {
                if t.contains(id.as_str()) {
                    let mut out = String::new();
                    let mut rest = t.as_str();
                    while let Some(i) = rest.find(id.as_str()) {
                        let end = i + id.len();
                        let boundary = rest[end..].chars().next().is_none_or(|c| !c.is_ascii_digit());
                        out.push_str(&rest[..i]);
                        out.push_str(if boundary { n } else { id });
                        rest = &rest[end..];
                    }
                    out.push_str(rest);
                    t = out;
                }
            }
            json!(t)
        }
        other => other.clone(),
    }
}

fn names_of(b: &Built) -> BTreeMap<String, String> {
    // two-step renaming so that a logical name never collides with a real id
    b.ids.iter().map(|(i, id)| (id.to_string(), format!("<el{i}>"))).collect()
}

async fn answer(b: &Built, principal: &str, cmd: &str, strip_scores: bool) -> Value {
    let Some(text) = materialise(cmd, b) else { return json!("unmaterialisable") };
    let session = if principal == SYSTEM_PRINCIPAL { b.nexus.system_session() } else { b.nexus.session(AuthContext::principal(principal)) };
    match run_as(&session, &text).await {
        Err(e) => json!({"parse_error": e}),
        Ok(r) => {
            let code = error_code(&r);
            let body = json!({
                "status": format!("{:?}", r.status),
                "error": code,
                "results": r.results.iter().map(|x| serde_json::to_value(x).unwrap_or(Value::Null)).collect::<Vec<_>>(),
                "next_cursor": r.next_cursor,
            });
            canon(&body, &names_of(b), strip_scores)
        }
    }
}


/// Engine level, delegation: whatever a delegate can read through a direct Delegation, its
/// delegator can read now. Delegators hold two delegable Grants of different shapes (a narrow one
/// carrying `read`, a broad one that does not); Delegations fit the narrow Grant or exceed it.
async fn delegation_engine(rng: &mut Rng, failures: &mut Vec<Value>, dist: &mut BTreeMap<String, u64>, evaluations: &mut u64, keys: &mut Vec<String>, rounds: usize) {
    for round in 0..rounds {
        let nexus = stocked(&format!("c19_ni_deleg_{round}")).await;
        let owner = nexus.system_session();
        let labels = ["public", "secret", "", "private", "public", "internal"];
        let mut n_c = 0u64;
        for (i, label) in labels.iter().enumerate() {
            let ty = if i % 2 == 0 { "Person" } else { "Preference" };
            let r = run_as(&owner, &format!(r#"CREATE CONCEPT ?c {{ TYPE "{ty}" NAME "{} Note {i}" }}"#, rng.pick(&WORDS))).await.unwrap();
            if !error_code(&r).is_empty() { continue; }
            n_c += 1;
            if !label.is_empty() { owner.classify(SPACE, ElementId::new(anda_kip::ElementKind::Concept, n_c), label).await.unwrap(); }
        }
        for (i, label) in ["private", "public"].iter().enumerate() {
            let _ = run_as(&owner, &format!(r#"CREATE EVIDENCE ?e {{ SET FIELDS {{evidence_class: "Document", payload: "{} Note e{i}"}} }}"#, rng.pick(&WORDS))).await.unwrap();
            owner.classify(SPACE, ElementId::new(anda_kip::ElementKind::Evidence, i as u64 + 1), label).await.unwrap();
        }
        let gov = nexus.governance();
        let q = "kip:principal:q";
        agent(gov, q).await;
        let reads: Vec<String> = ["read", "search", "discover"].iter().map(|x| x.to_string()).collect();
        let mut narrow = GrantDraft { space_id: SPACE.into(), grantee_principal: q.into(), actions: reads.clone(), delegation_allowed: true, ..Default::default() };
        let shape = round % 3;
        match shape {
            0 => narrow.constraints.max_classification = "public".into(),
            1 => narrow.scope.kinds = vec!["evidence".into()],
            _ => narrow.scope.classifications = vec!["public".into(), "internal".into()],
        }
        let mut broad = GrantDraft { space_id: SPACE.into(), grantee_principal: q.into(), actions: vec!["export".into(), "read_history".into()], delegation_allowed: true, ..Default::default() };
        broad.constraints.export = true;
        if rng.chance(1, 2) { gov.create_grant(narrow.clone(), SYSTEM_PRINCIPAL).await.unwrap(); gov.create_grant(broad.clone(), SYSTEM_PRINCIPAL).await.unwrap(); }
        else { gov.create_grant(broad.clone(), SYSTEM_PRINCIPAL).await.unwrap(); gov.create_grant(narrow.clone(), SYSTEM_PRINCIPAL).await.unwrap(); }
        let delegates = [("kip:principal:fit", true), ("kip:principal:wide", false)];
        for (d, fits) in delegates {
            agent(gov, d).await;
            let mut draft = DelegationDraft { space_id: SPACE.into(), delegator_principal: q.into(), delegate_principal: d.into(), actions: reads.clone(), ..Default::default() };
            if fits { draft.scope = narrow.scope.clone(); draft.conditions = narrow.conditions.clone(); draft.constraints = narrow.constraints.clone(); }
            gov.create_delegation(draft, q).await.unwrap();
        }
        *dist.entry(format!("delegation-shape:{shape}")).or_default() += 1;
        let cmds = [
            r#"FIND(?c.id) WHERE { ?c CONCEPT {} } ORDER BY ?c.id"#,
            r#"FIND(?c.id) WHERE { ?c CONCEPT {type: "Person"} } ORDER BY ?c.id"#,
            r#"FIND(?e.id) WHERE { ?e EVIDENCE {} } ORDER BY ?e.id"#,
            r#"SEARCH CONCEPT "Note""#,
            r#"SEARCH EVIDENCE "Note""#,
        ];
        fn ids_in(v: &Value, out: &mut std::collections::BTreeSet<String>) {
            match v {
                Value::String(s) => {
                    let b = s.as_bytes();
                    if b.len() >= 3 && b[0].is_ascii_uppercase() && b[1] == b'-' && s[2..].chars().all(|c| c.is_ascii_digit()) { out.insert(s.clone()); }
                }
                Value::Array(a) => a.iter().for_each(|x| ids_in(x, out)),
                Value::Object(m) => m.values().for_each(|x| ids_in(x, out)),
                _ => {}
            }
        }
        let mut seen_q: Vec<std::collections::BTreeSet<String>> = Vec::new();
        for cmd in cmds {
            let r = run_as(&nexus.session(AuthContext::principal(q)), cmd).await.unwrap();
            let mut set = std::collections::BTreeSet::new();
            if error_code(&r).is_empty() { for x in &r.results { if let Some(res) = &x.result { ids_in(res, &mut set); } } }
            seen_q.push(set);
            *evaluations += 1;
        }
        for (d, fits) in delegates {
            for (k, cmd) in cmds.iter().enumerate() {
                let r = run_as(&nexus.session(AuthContext::principal(d)), cmd).await.unwrap();
                let code = error_code(&r);
                let mut set = std::collections::BTreeSet::new();
                if code.is_empty() { for x in &r.results { if let Some(res) = &x.result { ids_in(res, &mut set); } } }
                *evaluations += 1;
                keys.push(format!("deleg|{shape}|{fits}|{cmd}|{}", set.len()));
                let extra: Vec<&String> = set.difference(&seen_q[k]).collect();
                if !extra.is_empty() {
                    failures.push(json!({"what": "delegate-reads-what-delegator-cannot", "command": cmd, "delegate": d, "delegator": q,
                        "delegator_grants": [format!("{:?}", narrow), format!("{:?}", broad)],
                        "delegation": if fits { "bounds equal to the narrow Grant" } else { "bounds left unstated (wider than the narrow Grant, inside the broad one)" },
                        "delegate_sees": set, "delegator_sees": seen_q[k], "only_the_delegate_sees": extra, "shape": format!("{shape}"), "versus": "delegator", "scenario": round}));
                }
            }
        }
    }
}

pub async fn main(args: &[String]) {
    let out_path = arg_value(args, "--out").expect("--out");
    let scenarios: usize = arg_value(args, "--scenarios").and_then(|x| x.parse().ok()).unwrap_or(6);
    let mut rng = Rng::from_env();
    let mut out = Out::new(&out_path);
    let mut failures: Vec<Value> = Vec::new();
    let mut dist: BTreeMap<String, u64> = BTreeMap::new();
    let mut evaluations = 0u64;
    let mut keys: Vec<String> = Vec::new();
    let mut skipped = 0u64;
    let mut skip_reasons: Vec<String> = Vec::new();
    let shapes = [Shape::Ceiling, Shape::Classes, Shape::Kinds, Shape::PolicyAllow, Shape::Masked, Shape::Capped];

    for sc in 0..scenarios + 1 {
        let fixed = sc == 0;
        let shape = if fixed { Shape::Ceiling } else { shapes[sc % shapes.len()] };
        let ceiling: &'static str = if fixed { "public" } else { *rng.pick(&["public", "internal", "private"]) };
        let classes: Vec<&'static str> = if rng.chance(1, 2) { vec!["public", "internal"] } else { vec!["public"] };
        let pop = if fixed { starvation_population() } else { population(&mut rng, shape, ceiling, &classes) };
        *dist.entry(format!("shape:{shape:?}")).or_default() += 1;
        let s = match build(&format!("c19_ni_{sc}_s"), &pop, &|_| true, false).await { Ok(b) => b, Err(e) => { skipped += 1; skip_reasons.push(e.clone()); *dist.entry(format!("skipped:{}", e.split(':').next().unwrap_or(""))).or_default() += 1; continue } };
        authorize_p(&s.nexus, shape, ceiling, &classes).await;
        // the readable set, read off the implementation
        let auth = AuthContext::principal(P);
        let eff = s.nexus.session(auth.clone()).effective_authority(SPACE).await.unwrap();
        let mut design_ok = true;
        let mut mismatch: Vec<String> = Vec::new();
        let mut hidden_n = 0;
        for (i, e) in pop.iter().enumerate() {
            let el = s.nexus.store.get_element(s.ids[&i]).await.unwrap();
            let readable = eff.may_read(&el, &auth).is_some();
            if readable == e.hidden { design_ok = false; mismatch.push(format!("{i}:{:?}:{}:designed {} but may_read says {}", e.item, e.label, if e.hidden { "hidden" } else { "visible" }, if readable { "readable" } else { "unreadable" })); }
            if e.hidden { hidden_n += 1; }
        }
        if !design_ok {
            // the generator's idea of what is hidden must agree with may_read, or the restricted
            // clone below would not be the restriction to the readable elements
            skipped += 1;
            skip_reasons.push(format!("design mismatch in scenario {sc} ({shape:?}, ceiling {ceiling}, classes {classes:?}): {mismatch:?}"));
            *dist.entry("skipped:design-mismatch".into()).or_default() += 1;
            continue;
        }
        *dist.entry(format!("hidden:{}", if hidden_n == 0 { "none" } else if hidden_n * 2 < pop.len() { "some" } else { "most" })).or_default() += 1;
        let pert = match build(&format!("c19_ni_{sc}_pert"), &pop, &|_| true, true).await { Ok(b) => b, Err(e) => { skipped += 1; skip_reasons.push(e); continue } };
        authorize_p(&pert.nexus, shape, ceiling, &classes).await;
        let hidden: Vec<bool> = pop.iter().map(|e| e.hidden).collect();
        let dangling = has_dangling(&pop);
        *dist.entry(format!("restricted-clone:{}", if dangling { "none (a visible tuple relates a hidden element)" } else { "built" })).or_default() += 1;
        *dist.entry(format!("reclassified-after-write:{}", pop.iter().filter(|e| e.initial.is_some()).count().min(3))).or_default() += 1;
        let abs = if dangling { None } else {
            match build(&format!("c19_ni_{sc}_abs"), &pop, &|i| !hidden[i], false).await { Ok(b) => Some(b), Err(e) => { skipped += 1; skip_reasons.push(e); continue } }
        };
        if let Some(abs) = &abs { authorize_p(&abs.nexus, shape, ceiling, &classes).await; }

        let plain = !matches!(shape, Shape::Masked | Shape::Capped);
        for (cmd, seq_free, owner_ok) in battery(&mut rng, &pop, &s) {
            let is_search = cmd.starts_with("SEARCH");
            let on_s = answer(&s, P, &cmd, false).await;
            let on_pert = answer(&pert, P, &cmd, false).await;
            evaluations += 2;
            let family = cmd.split(|c: char| c == ' ' || c == '(').next().unwrap_or("").to_string();
            *dist.entry(format!("family:{family}")).or_default() += 1;
            keys.push(format!("{shape:?}|{hidden_n}|{cmd}"));
            let describe = |what: &str, a: &Value, b: &Value, versus: &str| json!({
                "what": what, "command": cmd, "command_on_full_store": materialise(&cmd, &s), "shape": format!("{shape:?}"), "ceiling": ceiling, "classes": classes,
                "versus": versus, "on_full_store": a, "on_other": b, "scenario": sc,
                "population": pop.iter().enumerate().map(|(i, e)| format!("{i}:{:?}:{}:{}{}", e.item, e.label, if e.hidden { "hidden" } else { "visible" }, match e.initial { Some(l) => format!(" (written as `{l}`, reclassified after the marker)"), None => String::new() })).collect::<Vec<_>>(),
            });
            if on_s != on_pert {
                let cls = if is_search {
                    if answer(&s, P, &cmd, true).await == answer(&pert, P, &cmd, true).await { "search-score-depends-on-hidden" } else { "search-hits-depend-on-hidden" }
                } else { "answer-depends-on-hidden-content" };
                failures.push(describe(cls, &on_s, &on_pert, "same Principal, hidden elements carrying different content"));
            }
            if let (true, Some(abs)) = (seq_free, abs.as_ref()) {
                let on_abs = answer(abs, P, &cmd, false).await;
                evaluations += 1;
                if on_s != on_abs {
                    // separate what only the relevance score gives away from what the hit list does
                    let cls = if is_search {
                        if answer(&s, P, &cmd, true).await == answer(abs, P, &cmd, true).await { "search-score-depends-on-hidden" } else { "search-hits-depend-on-hidden" }
                    } else { "answer-depends-on-hidden-existence" };
                    failures.push(describe(cls, &on_s, &on_abs, "same Principal, store restricted to the readable elements"));
                }
                if plain && owner_ok {
                    let owner_abs = answer(abs, SYSTEM_PRINCIPAL, &cmd, false).await;
                    evaluations += 1;
                    if on_s != owner_abs {
                        let cls = if is_search {
                            if answer(&s, P, &cmd, true).await == answer(abs, SYSTEM_PRINCIPAL, &cmd, true).await { "search-score-depends-on-hidden" } else { "search-hits-depend-on-hidden" }
                        } else { "differs-from-owner-on-restricted-store" };
                        failures.push(describe(cls, &on_s, &owner_abs, "owner, store restricted to the readable elements"));
                    }
                }
            }
        }
    }
    delegation_engine(&mut rng, &mut failures, &mut dist, &mut evaluations, &mut keys, if scenarios > 12 { 12 } else { 3 }).await;
    // one failure per class and command family is enough for the report
    let mut seen = std::collections::BTreeSet::new();
    failures.retain(|f| seen.insert(format!("{}|{}", f["what"].as_str().unwrap_or(""), f["command"].as_str().unwrap_or("").split(' ').next().unwrap_or(""))));
    failures.truncate(24);
    out.line(&json!({"kind": "summary", "evaluations": evaluations, "scenarios": scenarios, "skipped": skipped, "skip_reasons": skip_reasons,
                     "distribution": dist, "keys": keys, "oracle_failures": failures.len(), "failures": failures}));
    out.finish();
}
