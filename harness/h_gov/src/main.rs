mod common;
mod decide;
mod escalate;
mod ni;

fn main() {
    let args: Vec<String> = std::env::args().collect();
    let rt = tokio::runtime::Builder::new_multi_thread().worker_threads(4).enable_all().build().unwrap();
    match args.get(1).map(|s| s.as_str()) {
        Some("decide") => rt.block_on(decide::main(&args[2..])),
        Some("escalate") => rt.block_on(escalate::main(&args[2..])),
        Some("ni") => rt.block_on(ni::main(&args[2..])),
        _ => {
            eprintln!("usage: h_gov <decide|escalate|ni> --out FILE ...");
            std::process::exit(2);
        }
    }
}
