//! C19 (a) — decision level: generated control-plane histories x requests through the real
//! `EffectiveAuthority::resolve` + `authorize`, with the *stored* control plane dumped for the
//! Coq model after every step, and a direct oracle reading the property off the implementation.
use crate::common::*;
use anda_cognitive_nexus::{
    CognitiveNexus,
    governance::{
        AuthContext, Permission, ResourceContext, SYSTEM_PRINCIPAL,
        rows::*,
        store::{DelegationDraft, GrantDraft, GroupDraft, PolicyDraft, delegation_id},
    },
};
use h_common::*;
use serde_json::{Value, json};
use std::collections::BTreeMap;

const PAST: &str = "2000-01-01T00:00:00.000Z";
const FUTURE: &str = "2999-01-01T00:00:00.000Z";
const PERMS: [&str; 8] = ["read", "search", "discover", "export", "create", "update", "read_history", "read_raw_origin"];
const GROUPS: [&str; 2] = ["kip:group:g0", "kip:group:g1"];

fn pid(i: usize) -> String { format!("kip:principal:p{i}") }

fn pick_some(rng: &mut Rng, vocab: &[&str], p_empty: u64, max: usize) -> Vec<String> {
    if rng.chance(p_empty, 100) { return vec![]; }
    let k = 1 + rng.below(max as u64) as usize;
    let mut v: Vec<String> = Vec::new();
    for _ in 0..k {
        let x = rng.pick(vocab).to_string();
        if !v.contains(&x) { v.push(x); }
    }
    v
}

fn gen_scope(rng: &mut Rng) -> AuthorityScope {
    AuthorityScope {
        kinds: pick_some(rng, &["concept", "proposition", "evidence"], 65, 2),
        schema_refs: pick_some(rng, &["ref:A", "ref:B"], 85, 2),
        classifications: pick_some(rng, &["public", "internal", "private", "secret", "ultra"], 75, 3),
        elements: pick_some(rng, &["C-1", "C-2", "P-1"], 88, 2),
    }
}
fn gen_conds(rng: &mut Rng) -> AuthorityConditions {
    AuthorityConditions {
        purpose: pick_some(rng, &["research", "maintenance"], 80, 2),
        min_purpose_assurance: rng.pick(&["", "", "", "declared", "session_bound", "approved", "weird"]).to_string(),
        min_auth_strength: rng.pick(&["", "", "", "standard", "strong", "quantum"]).to_string(),
        valid_from: rng.pick(&["", "", "", "", PAST, FUTURE]).to_string(),
        valid_until: rng.pick(&["", "", "", "", FUTURE, FUTURE, PAST]).to_string(),
    }
}
fn gen_constr(rng: &mut Rng) -> AuthorityConstraints {
    AuthorityConstraints {
        fields: pick_some(rng, &["name", "attributes", "_system"], 75, 2),
        max_results: if rng.chance(25, 100) { Some(rng.below(6)) } else { None },
        max_influence_authority: rng.pick(&["", "", "", "advisory", "executable", "supreme"]).to_string(),
        max_classification: rng.pick(&["", "", "public", "internal", "private", "secret", "ultra"]).to_string(),
        export: rng.chance(1, 2),
    }
}
fn gen_actions(rng: &mut Rng) -> Vec<String> {
    let mut v = pick_some(rng, &PERMS, 3, 4);
    if rng.chance(1, 12) { v.push("fly".into()); }
    v
}

/// A narrowing of (scope, conds, constr) that the `contains` relations accept most of the time.
fn narrow(rng: &mut Rng, sc: &AuthorityScope, cd: &AuthorityConditions, cs: &AuthorityConstraints)
    -> (AuthorityScope, AuthorityConditions, AuthorityConstraints) {
    let mut s2 = sc.clone();
    let mut c2 = cd.clone();
    let mut k2 = cs.clone();
    if rng.chance(1, 3) && s2.kinds.is_empty() { s2.kinds = vec!["concept".into()]; }
    if rng.chance(1, 4) && s2.classifications.len() > 1 { s2.classifications.truncate(1); }
    if rng.chance(1, 4) { c2.min_auth_strength = "strong".into(); }
    if rng.chance(1, 5) && c2.valid_until.is_empty() { c2.valid_until = FUTURE.into(); }
    if rng.chance(1, 4) { k2.export = false; }
    if rng.chance(1, 5) { k2.max_results = Some(k2.max_results.unwrap_or(5).min(2)); }
    if rng.chance(1, 5) && k2.max_classification.is_empty() { k2.max_classification = "internal".into(); }
    // sometimes widen on purpose, which attenuation must refuse
    if rng.chance(1, 8) { s2.kinds = vec![]; }
    if rng.chance(1, 10) { c2.valid_until = String::new(); }
    if rng.chance(1, 10) { k2.export = true; }
    (s2, c2, k2)
}

struct World {
    nexus: CognitiveNexus,
    nprinc: usize,
    grants: Vec<GrantRow>,
    delegs: Vec<DelegationRow>,
    policy_bound: bool,
}

async fn gen_policy(rng: &mut Rng, nexus: &CognitiveNexus, nprinc: usize) {
    let ns = rng.below(4) as usize;
    let mut statements = Vec::new();
    for _ in 0..ns {
        let allow = rng.chance(3, 5);
        statements.push(PolicyStatement {
            effect: if rng.chance(1, 15) { "maybe".into() } else if allow { "allow".into() } else { "deny".into() },
            principals: if rng.chance(1, 2) { vec![] } else { vec![pid(rng.below(nprinc as u64) as usize)] },
            groups: if rng.chance(3, 4) { vec![] } else { vec![rng.pick(&GROUPS).to_string()] },
            actions: if rng.chance(1, 4) { vec![] } else { pick_some(rng, &PERMS, 0, 3) },
            resource: if rng.chance(1, 2) { AuthorityScope::default() } else { gen_scope(rng) },
            conditions: if rng.chance(2, 3) { AuthorityConditions::default() } else { gen_conds(rng) },
            constraints: if rng.chance(1, 2) { AuthorityConstraints::default() } else { gen_constr(rng) },
            obligations: PolicyObligations {
                audit: rng.chance(1, 4),
                approvals_required: if allow && rng.chance(1, 6) { 1 + rng.below(2) } else { 0 },
                redaction_profile: if rng.chance(1, 10) { "safe-summary".into() } else { String::new() },
            },
        });
    }
    nexus
        .governance()
        .publish_policy(
            PolicyDraft { policy_id: "kip:policy:space".into(), space_id: SPACE.into(), description: "gen".into(), statements },
            SYSTEM_PRINCIPAL,
        )
        .await
        .unwrap();
}

async fn build(rng: &mut Rng, name: &str, long_chain: bool, multi: bool) -> World {
    let nexus = fresh(name).await;
    let gov = nexus.governance();
    let nprinc = 3 + rng.below(3) as usize;
    for i in 0..nprinc { agent(gov, &pid(i)).await; }
    for g in GROUPS {
        let mut members = Vec::new();
        for i in 0..nprinc { if rng.chance(1, 3) { members.push(pid(i)); } }
        gov.put_group(GroupDraft { group_id: g.into(), name: g.into(), description: String::new(), members }, SYSTEM_PRINCIPAL).await.unwrap();
    }
    let mut grants = Vec::new();
    let ng = 2 + rng.below(6) as usize;
    for _ in 0..ng {
        let to_group = rng.chance(1, 4);
        let draft = GrantDraft {
            space_id: if rng.chance(1, 15) { "kip:space:other".into() } else { SPACE.into() },
            grantee_principal: if to_group { String::new() } else { pid(rng.below(nprinc as u64) as usize) },
            grantee_group: if to_group { rng.pick(&GROUPS).to_string() } else { String::new() },
            actions: gen_actions(rng),
            scope: if rng.chance(1, 2) { AuthorityScope::default() } else { gen_scope(rng) },
            conditions: if rng.chance(3, 5) { AuthorityConditions::default() } else { gen_conds(rng) },
            constraints: if rng.chance(2, 5) { AuthorityConstraints::default() } else { gen_constr(rng) },
            delegation_allowed: rng.chance(3, 5),
        };
        grants.push(gov.create_grant(draft, SYSTEM_PRINCIPAL).await.unwrap());
    }
    let mut delegs: Vec<DelegationRow> = Vec::new();
    let nd = if long_chain { 11 } else { rng.below(6) as usize };
    for k in 0..nd {
        // base the new delegation on a grant of the delegator or on an earlier delegation
        let mut draft = DelegationDraft { space_id: SPACE.into(), ..Default::default() };
        let from_parent = !delegs.is_empty() && (long_chain || rng.chance(2, 5));
        if from_parent {
            let parent = if long_chain { delegs[k - 1].clone() } else { rng.pick(&delegs).clone() };
            let sc: AuthorityScope = serde_json::from_value(parent.scope.clone()).unwrap_or_default();
            let cd: AuthorityConditions = serde_json::from_value(parent.conditions.clone()).unwrap_or_default();
            let cs: AuthorityConstraints = serde_json::from_value(parent.constraints.clone()).unwrap_or_default();
            let (s2, c2, k2) = if long_chain { (sc, cd, cs) } else { narrow(rng, &sc, &cd, &cs) };
            draft.delegator_principal = if !long_chain && rng.chance(1, 8) { pid(rng.below(nprinc as u64) as usize) } else { parent.delegate_principal.clone() };
            draft.delegate_principal = pid(rng.below(nprinc as u64) as usize);
            draft.actions = if long_chain || rng.chance(2, 3) { parent.actions.clone() } else { gen_actions(rng) };
            draft.scope = s2; draft.conditions = c2; draft.constraints = k2;
            draft.parent_delegation = match rng.below(if long_chain { 1 } else { 12 }) {
                10 => format!("x:{}", parent._id),
                11 => "nonsense".into(),
                _ => delegation_id(parent._id),
            };
        } else {
            let live: Vec<&GrantRow> = grants.iter().filter(|g| !g.grantee_principal.is_empty()).collect();
            if !live.is_empty() && (long_chain || rng.chance(3, 4)) {
                let g = *rng.pick(&live);
                let sc: AuthorityScope = serde_json::from_value(g.scope.clone()).unwrap_or_default();
                let cd: AuthorityConditions = serde_json::from_value(g.conditions.clone()).unwrap_or_default();
                let cs: AuthorityConstraints = serde_json::from_value(g.constraints.clone()).unwrap_or_default();
                let (s2, c2, k2) = if long_chain { (sc, cd, cs) } else { narrow(rng, &sc, &cd, &cs) };
                draft.delegator_principal = g.grantee_principal.clone();
                draft.actions = if rng.chance(2, 3) { g.actions.clone() } else { gen_actions(rng) };
                draft.scope = s2; draft.conditions = c2; draft.constraints = k2;
            } else {
                draft.delegator_principal = match rng.below(10) { 0 => SYSTEM_PRINCIPAL.into(), 1 => "kip:principal:ghost".into(), _ => pid(rng.below(nprinc as u64) as usize) };
                draft.actions = gen_actions(rng);
                draft.scope = if rng.chance(1, 2) { AuthorityScope::default() } else { gen_scope(rng) };
                draft.conditions = if rng.chance(2, 3) { AuthorityConditions::default() } else { gen_conds(rng) };
                draft.constraints = if rng.chance(1, 2) { AuthorityConstraints::default() } else { gen_constr(rng) };
            }
            draft.delegate_principal = pid(rng.below(nprinc as u64) as usize);
        }
        draft.may_redelegate = long_chain || rng.chance(3, 5);
        let actor = draft.delegator_principal.clone();
        delegs.push(gov.create_delegation(draft, &actor).await.unwrap());
    }
    if multi {
        // delegators holding several delegable Grants of different shapes: a narrow one that carries
        // an action and an unrelated broad one that does not, and direct Delegations whose bounds
        // fit the narrow Grant, exceed it but fit the broad one, or exceed both
        for round in 0..(1 + rng.below(3)) {
            let pd = pid(rng.below(nprinc as u64) as usize);
            let carried: Vec<String> = match rng.below(3) { 0 => vec!["read".into()], 1 => vec!["read".into(), "search".into()], _ => vec!["update".into(), "read".into()] };
            let mut narrow_g = GrantDraft { space_id: SPACE.into(), grantee_principal: pd.clone(), actions: carried.clone(), delegation_allowed: true, ..Default::default() };
            narrow_g.constraints.export = rng.chance(1, 2);
            match rng.below(6) {
                0 => narrow_g.constraints.max_classification = rng.pick(&["public", "internal"]).to_string(),
                1 => narrow_g.scope.kinds = vec![rng.pick(&["evidence", "concept"]).to_string()],
                2 => narrow_g.scope.classifications = vec!["public".into()],
                3 => narrow_g.scope.elements = vec!["C-1".into()],
                4 => narrow_g.conditions.min_auth_strength = "strong".into(),
                _ => { narrow_g.constraints.max_classification = "public".into(); narrow_g.scope.kinds = vec!["concept".into()]; }
            }
            let others: Vec<String> = ["discover", "export", "create", "read_history"].iter().filter(|a| !carried.contains(&a.to_string()) && rng.chance(2, 3)).map(|a| a.to_string()).collect();
            let mut broad_g = GrantDraft { space_id: SPACE.into(), grantee_principal: pd.clone(), actions: if others.is_empty() { vec!["discover".into()] } else { others }, delegation_allowed: true, ..Default::default() };
            broad_g.constraints.export = true;
            if rng.chance(1, 4) { broad_g.constraints.max_classification = "secret".into(); }
            let (first, second) = if rng.chance(1, 2) { (narrow_g.clone(), broad_g.clone()) } else { (broad_g.clone(), narrow_g.clone()) };
            grants.push(gov.create_grant(first, SYSTEM_PRINCIPAL).await.unwrap());
            grants.push(gov.create_grant(second, SYSTEM_PRINCIPAL).await.unwrap());
            for _ in 0..(1 + rng.below(2)) {
                let mut d = DelegationDraft { space_id: SPACE.into(), delegator_principal: pd.clone(), delegate_principal: pid(rng.below(nprinc as u64) as usize), ..Default::default() };
                d.actions = carried.clone();
                d.actions.push("discover".into());
                match rng.below(4) {
                    0 => { d.scope = narrow_g.scope.clone(); d.conditions = narrow_g.conditions.clone(); d.constraints = narrow_g.constraints.clone(); }
                    1 => { d.constraints.max_classification = "secret".into(); }
                    2 => { d.constraints = broad_g.constraints.clone(); d.constraints.export = false; }
                    _ => {}
                }
                d.may_redelegate = rng.chance(1, 2);
                let actor = d.delegator_principal.clone();
                delegs.push(gov.create_delegation(d, &actor).await.unwrap());
            }
            let _ = round;
        }
    }
    let mut policy_bound = false;
    if !multi && rng.chance(1, 2) {
        gen_policy(rng, &nexus, nprinc).await;
        policy_bound = true;
    }
    let mut space = nexus.store.get_space(SPACE).await.unwrap();
    if policy_bound { space.default_policy_id = "kip:policy:space".into(); }
    if rng.chance(1, 4) { space.owners.push(pid(0)); }
    if rng.chance(1, 6) { space.default_classification = rng.pick(&["", "private", "public"]).to_string(); }
    if rng.chance(1, 8) { space.audit_mode = "verbose".into(); }
    nexus.store.put_space(&space).await.unwrap();
    World { nexus, nprinc, grants, delegs, policy_bound }
}

async fn mutate(rng: &mut Rng, w: &mut World) -> String {
    let gov = w.nexus.governance();
    match rng.below(9) {
        0 | 1 if !w.grants.is_empty() => {
            let g = rng.pick(&w.grants)._id;
            let _ = gov.revoke_grant(g, SYSTEM_PRINCIPAL).await;
            format!("revoke_grant {g}")
        }
        2 if !w.delegs.is_empty() => {
            let d = rng.pick(&w.delegs)._id;
            let _ = gov.revoke_delegation(d, SYSTEM_PRINCIPAL).await;
            format!("revoke_delegation {d}")
        }
        3 | 4 => {
            let p = pid(rng.below(w.nprinc as u64) as usize);
            let st = rng.pick(&["suspended", "revoked", "active"]).to_string();
            gov.set_principal_status(&p, &st, SYSTEM_PRINCIPAL).await.unwrap();
            format!("set_principal_status {p} {st}")
        }
        5 => {
            gen_policy(rng, &w.nexus, w.nprinc).await;
            let mut space = w.nexus.store.get_space(SPACE).await.unwrap();
            space.default_policy_id = if rng.chance(1, 5) { String::new() } else { "kip:policy:space".into() };
            w.policy_bound = !space.default_policy_id.is_empty();
            w.nexus.store.put_space(&space).await.unwrap();
            "publish_policy".into()
        }
        6 => {
            let g = rng.pick(&GROUPS).to_string();
            let mut members = Vec::new();
            for i in 0..w.nprinc { if rng.chance(1, 3) { members.push(pid(i)); } }
            gov.put_group(GroupDraft { group_id: g.clone(), name: g.clone(), description: String::new(), members }, SYSTEM_PRINCIPAL).await.unwrap();
            format!("put_group {g}")
        }
        7 => {
            let mut space = w.nexus.store.get_space(SPACE).await.unwrap();
            match rng.below(3) {
                0 => space.status = if space.status == "suspended" { "active".into() } else { "suspended".into() },
                1 => { let p = pid(rng.below(w.nprinc as u64) as usize); if let Some(i) = space.owners.iter().position(|o| *o == p) { space.owners.remove(i); } else { space.owners.push(p); } }
                _ => space.default_classification = rng.pick(&["", "private", "secret"]).to_string(),
            }
            w.nexus.store.put_space(&space).await.unwrap();
            "put_space".into()
        }
        _ => {
            let draft = GrantDraft {
                space_id: SPACE.into(),
                grantee_principal: pid(rng.below(w.nprinc as u64) as usize),
                actions: gen_actions(rng),
                scope: if rng.chance(1, 2) { AuthorityScope::default() } else { gen_scope(rng) },
                constraints: if rng.chance(1, 2) { AuthorityConstraints::default() } else { gen_constr(rng) },
                delegation_allowed: rng.chance(1, 2),
                ..Default::default()
            };
            let g = gov.create_grant(draft, SYSTEM_PRINCIPAL).await.unwrap();
            let id = g._id;
            w.grants.push(g);
            format!("create_grant {id}")
        }
    }
}

#[derive(Clone)]
struct Req {
    auth: AuthContext,
    perm: Permission,
    res: ResourceContext,
}

fn gen_req(rng: &mut Rng, w: &World) -> Req {
    let principal = match rng.below(14) { 0 => SYSTEM_PRINCIPAL.to_string(), 1 => "kip:principal:ghost".to_string(), _ => pid(rng.below(w.nprinc as u64) as usize) };
    let mut auth = AuthContext::principal(principal.clone());
    auth.auth_strength = rng.pick(&["standard", "standard", "strong", "none", "quantum"]).to_string();
    if rng.chance(1, 3) {
        auth.purpose = rng.pick(&["research", "maintenance", "other"]).to_string();
        auth.purpose_assurance = rng.pick(&["declared", "session_bound", "approved", "system_bound"]).to_string();
    }
    if rng.chance(1, 7) && !w.delegs.is_empty() {
        // a named chain: mostly one that could link, sometimes garbage
        let last = rng.pick(&w.delegs).clone();
        let mut chain = vec![delegation_id(last._id)];
        let mut cur = last.clone();
        for _ in 0..3 {
            let Some(p) = anda_cognitive_nexus::governance::store::row_id_of(&cur.parent_delegation) else { break };
            let Some(prow) = w.delegs.iter().find(|d| d._id == p) else { break };
            chain.insert(0, delegation_id(prow._id));
            cur = prow.clone();
            if rng.chance(1, 3) { break; }
        }
        if rng.chance(1, 8) { chain.push("kip:delegation:999".into()); }
        if rng.chance(1, 10) { chain.insert(0, "junk".into()); }
        if rng.chance(2, 3) { auth.principal_id = last.delegate_principal.clone(); }
        auth.delegation_chain = chain;
    }
    let pn: &&str = rng.pick(&PERMS[..]);
    let perm = Permission::parse(pn).unwrap();
    let res = if rng.chance(1, 4) {
        ResourceContext::default()
    } else {
        ResourceContext {
            kind: rng.pick(&["concept", "concept", "proposition", "evidence", "assertion", ""]).to_string(),
            schema_ref: rng.pick(&["", "ref:A", "ref:B", "ref:C"]).to_string(),
            classification: rng.pick(&["", "", "public", "internal", "private", "secret", "ultra"]).to_string(),
            element_id: rng.pick(&["", "C-1", "C-2", "P-1", "C-9"]).to_string(),
        }
    };
    Req { auth, perm, res }
}

fn auth_term(a: &AuthContext) -> Value {
    c("mkAuth", vec![s(&a.principal_id), s(&a.auth_strength), s(&a.purpose), s(&a.purpose_assurance),
                     Value::Array(a.delegation_chain.iter().map(|x| dref_term(x)).collect())])
}
fn res_term(r: &ResourceContext) -> Value {
    c("mkRes", vec![s(&r.kind), s(&r.schema_ref), s(&r.classification), s(&r.element_id)])
}
fn used_term(x: &str) -> Value {
    if let Some(p) = x.strip_prefix("owner:") { return c("IdOwner", vec![s(p)]); }
    if let Some(r) = x.strip_prefix("kip:grant:") { return c("IdGrant", vec![n(r.parse().unwrap_or(0))]); }
    if let Some(r) = x.strip_prefix("kip:delegation:") { return c("IdDeleg", vec![n(r.parse().unwrap_or(0))]); }
    if let Some(r) = x.strip_prefix("policy:") {
        if let Some((id, v)) = r.rsplit_once('@') { return c("IdPolicy", vec![s(id), n(v.parse().unwrap_or(0))]); }
    }
    c("IdOwner", vec![s(&format!("?{x}"))])
}

#[derive(Clone)]
struct Seen {
    permitted: bool,
    decision: String,
    used: Vec<String>,
    err: bool,
}

async fn decide(nexus: &CognitiveNexus, r: &Req) -> (Value, Seen) {
    let session = nexus.session(r.auth.clone());
    match session.effective_authority(SPACE).await {
        Err(_) => (c("ObsErr", vec![]), Seen { permitted: false, decision: "error".into(), used: vec![], err: true }),
        Ok(eff) => {
            let z = eff.authorize(r.perm, &r.res, &r.auth);
            let d = match z.decision.as_str() {
                "allow" => "Allow", "allow_with_constraints" => "AllowWithConstraints", "deny" => "Deny", _ => "RequireApproval",
            };
            let obs = c("ObsAuthz", vec![
                c(d, vec![]), constr_term(&z.constraints), oblig_term(&z.obligations),
                Value::Array(z.authorities_used.iter().map(|u| used_term(u)).collect()),
                json!(z.unrestricted), json!(eff.is_owner), sl(&eff.groups), s(&z.policy_id), n(z.policy_version),
            ]);
            (obs, Seen { permitted: z.is_permitted(), decision: d.into(), used: z.authorities_used.clone(), err: false })
        }
    }
}

pub async fn main(args: &[String]) {
    let out_path = arg_value(args, "--out").expect("--out");
    let scenarios: usize = arg_value(args, "--scenarios").and_then(|x| x.parse().ok()).unwrap_or(30);
    let steps: usize = arg_value(args, "--steps").and_then(|x| x.parse().ok()).unwrap_or(5);
    let nreq: usize = arg_value(args, "--requests").and_then(|x| x.parse().ok()).unwrap_or(30);
    let mut rng = Rng::from_env();
    let mut out = Out::new(&out_path);
    let mut failures: Vec<Value> = Vec::new();
    let mut dist: BTreeMap<String, u64> = BTreeMap::new();
    let mut evaluations = 0u64;
    let mut states = 0u64;

    for sc in 0..scenarios {
        let long_chain = sc % 7 == 3;
        let multi = sc % 3 == 1;
        let mut w = build(&mut rng, &format!("c19_decide_{sc}"), long_chain, multi).await;
        let mut history: Vec<String> = vec!["build".into()];
        for step in 0..=steps {
            if step > 0 {
                let op = mutate(&mut rng, &mut w).await;
                *dist.entry(format!("op:{}", op.split(' ').next().unwrap())).or_default() += 1;
                history.push(op);
            }
            let cp = cplane_term(&w.nexus).await;
            let now = anda_cognitive_nexus::time::now();
            // current rows, for the direct oracle
            let principals: Vec<PrincipalRow> = typed_rows(&w.nexus, "gov_principals").await;
            let grants: Vec<GrantRow> = typed_rows(&w.nexus, "gov_grants").await;
            let delegs: Vec<DelegationRow> = typed_rows(&w.nexus, "gov_delegations").await;
            let groups: Vec<PrincipalGroupRow> = typed_rows(&w.nexus, "gov_principal_groups").await;
            let space = w.nexus.store.get_space(SPACE).await.unwrap();
            let policies: Vec<GovernancePolicyRow> = typed_rows(&w.nexus, "gov_policies").await;
            let no_deny_in_force = space.default_policy_id.is_empty() || !policies.iter().any(|p| p.policy_id == space.default_policy_id
                && p.statements.iter().any(|st| st.get("effect").and_then(|e| e.as_str()) != Some("allow")));
            // requests aimed at every direct Delegation in force: what its delegate asks for through it
            let mut aimed: Vec<Req> = Vec::new();
            for d in delegs.iter().filter(|d| d.status == "active" && d.space_id == SPACE && d.parent_delegation.is_empty()) {
                for action in d.actions.iter().filter(|a| PERMS.contains(&a.as_str())) {
                    for _ in 0..2 {
                        let mut auth = AuthContext::principal(d.delegate_principal.clone());
                        auth.auth_strength = rng.pick(&["standard", "strong"]).to_string();
                        let res = if rng.chance(1, 6) { ResourceContext::default() } else { ResourceContext {
                            kind: rng.pick(&["concept", "evidence", "proposition"]).to_string(), schema_ref: String::new(),
                            classification: rng.pick(&["public", "internal", "private", "secret", ""]).to_string(),
                            element_id: rng.pick(&["C-1", "C-2", "E-1"]).to_string() } };
                        aimed.push(Req { auth, perm: Permission::parse(action).unwrap(), res });
                    }
                }
            }
            aimed.truncate(nreq);
            let mut reqs: Vec<Value> = Vec::new();
            for k in 0..nreq + aimed.len() {
                let r = if k < nreq { gen_req(&mut rng, &w) } else { aimed[k - nreq].clone() };
                let (obs, seen) = decide(&w.nexus, &r).await;
                evaluations += 1;
                *dist.entry(format!("decision:{}", seen.decision)).or_default() += 1;
                let p = &r.auth.principal_id;
                let prow = principals.iter().find(|x| &x.principal_id == p);
                let active = prow.is_some_and(|x| x.status == "active");
                let owner = active && (space.owner_principal == *p || space.owners.contains(p));
                let describe = |what: &str| json!({
                    "what": what, "history": history, "principal": p, "permission": r.perm.as_str(),
                    "resource": {"kind": r.res.kind, "schema_ref": r.res.schema_ref, "classification": r.res.classification, "element_id": r.res.element_id},
                    "auth": {"strength": r.auth.auth_strength, "purpose": r.auth.purpose, "purpose_assurance": r.auth.purpose_assurance, "chain": r.auth.delegation_chain},
                    "observed": {"decision": seen.decision, "authorities_used": seen.used},
                    "scenario": sc, "step": step,
                });
                // (i) a Principal that is not active, or a suspended Space, is denied everything
                if !seen.err && seen.permitted && (!active || space.status == "suspended") {
                    failures.push(describe("inactive-principal-or-suspended-space-permitted"));
                }
                // (ii) default deny: nothing in the stored control plane names this Principal
                let my_groups: Vec<&String> = groups.iter().filter(|g| g.status == "active" && g.members.contains(p)).map(|g| &g.group_id).collect();
                let has_grant = grants.iter().any(|g| g.status == "active" && g.space_id == SPACE && (g.grantee_principal == *p || my_groups.contains(&&g.grantee_group)));
                let has_deleg = delegs.iter().any(|d| d.status == "active" && d.space_id == SPACE && d.delegate_principal == *p);
                if !seen.err && seen.permitted && !owner && !has_grant && !has_deleg && space.default_policy_id.is_empty() {
                    failures.push(describe("permitted-without-any-authority"));
                }
                // (iii) the authority a decision cites is in force right now
                for u in &seen.used {
                    if let Some(id) = u.strip_prefix("kip:grant:").and_then(|x| x.parse::<u64>().ok()) {
                        if grants.iter().any(|g| g._id == id && g.status != "active") && seen.permitted {
                            failures.push(describe("revoked-grant-still-authorizes"));
                        }
                    }
                    if let Some(id) = u.strip_prefix("kip:delegation:").and_then(|x| x.parse::<u64>().ok()) {
                        if delegs.iter().any(|d| d._id == id && d.status != "active") && seen.permitted {
                            failures.push(describe("revoked-delegation-still-authorizes"));
                        }
                        // (iv) a direct delegation confers nothing its delegator does not hold now
                        if let Some(d) = delegs.iter().find(|d| d._id == id) {
                            if seen.permitted && d.parent_delegation.is_empty() && no_deny_in_force {
                                let mut a2 = r.auth.clone();
                                a2.principal_id = d.delegator_principal.clone();
                                a2.delegation_chain = vec![];
                                let r2 = Req { auth: a2, perm: r.perm, res: r.res.clone() };
                                let (_, s2) = decide(&w.nexus, &r2).await;
                                if !s2.permitted {
                                    let mut f = describe("delegate-permitted-where-delegator-is-not");
                                    f["delegator"] = json!({"principal": d.delegator_principal, "decision": s2.decision});
                                    failures.push(f);
                                }
                            }
                        }
                    }
                }
                reqs.push(t(vec![t(vec![auth_term(&r.auth), s(r.perm.as_str()), res_term(&r.res), s(&now)]), obs]));
            }
            states += 1;
            out.line(&json!({"kind": "model", "case": t(vec![cp, Value::Array(reqs)]), "meta": {"scenario": sc, "step": step, "history": history}}));
        }
    }
    failures.truncate(20);
    out.line(&json!({
        "kind": "summary", "evaluations": evaluations, "states": states, "scenarios": scenarios,
        "distribution": dist, "oracle_failures": failures.len(), "failures": failures,
    }));
    out.finish();
}
