//! Shared setup for the C19 harness: a fresh Nexus on an in-memory store, the
//! cognitive-memory profile, principals, and dumps of the control plane.
use anda_cognitive_nexus::{
    CognitiveNexus,
    governance::{
        rows::*,
        store::{GovernanceStore, PrincipalDraft},
    },
    nexus::{DEFAULT_SPACE, Session},
    schema::{PackageState, SchemaLock, SchemaPackage},
};
use anda_db::database::{AndaDB, DBConfig};
use anda_kip::{Executor, Request, Response};
use object_store::memory::InMemory;
use serde_json::{Value, json};
use std::sync::Arc;

pub const SPACE: &str = DEFAULT_SPACE;

pub async fn fresh(name: &str) -> CognitiveNexus {
    let db = AndaDB::connect(
        Arc::new(InMemory::new()),
        DBConfig { name: name.to_string(), description: "verif C19".to_string(), ..Default::default() },
    )
    .await
    .unwrap();
    CognitiveNexus::connect(Arc::new(db)).await.unwrap()
}

pub async fn stocked(name: &str) -> CognitiveNexus {
    let nexus = fresh(name).await;
    nexus
        .install_package(&SchemaPackage::parse(anda_cognitive_nexus::profiles::COGNITIVE_MEMORY).unwrap(), "verif")
        .await
        .unwrap();
    let mut lock = SchemaLock::default();
    lock.packages.insert("kip://profiles/cognitive-memory".into(), "2.0.0".into());
    lock.states.insert("kip://profiles/cognitive-memory".into(), PackageState::Active);
    nexus.activate_schema(SPACE, lock).await.unwrap();
    nexus
}

pub async fn agent(gov: &GovernanceStore, id: &str) {
    gov.ensure_principal(PrincipalDraft {
        principal_id: id.to_string(),
        principal_class: principal_class::AGENT.to_string(),
        display_name: id.to_string(),
        auth_provider: "verif".to_string(),
        auth_subject: id.to_string(),
    })
    .await
    .unwrap();
}

/// Runs one KIP command text through a session; a parse failure is reported as such.
pub async fn run_as(session: &Session, command: &str) -> Result<Response, String> {
    let request = Request::single(command);
    let parsed = match anda_kip::parse_kip(command) {
        Ok(p) => p,
        Err(e) => return Err(format!("parse: {e}")),
    };
    Ok(session.execute(parsed, &request, &request.operations[0]).await)
}

/// The same with operation parameters (mutation endpoints resolve from parameters, not patterns).
pub async fn run_params(session: &Session, command: &str, params: Value) -> Result<Response, String> {
    let request: Request = serde_json::from_value(json!({
        "kip": "2.0",
        "operations": [{"command": command, "parameters": params}]
    }))
    .map_err(|e| format!("request: {e}"))?;
    let parsed = match anda_kip::parse_kip(command) {
        Ok(p) => p,
        Err(e) => return Err(format!("parse: {e}")),
    };
    Ok(session.execute(parsed, &request, &request.operations[0]).await)
}

pub fn error_code(response: &Response) -> String {
    response
        .error
        .as_ref()
        .or_else(|| response.results.first().and_then(|r| r.error.as_ref()))
        .map(|error| error.code.as_str().to_string())
        .unwrap_or_default()
}

/// Every row of one collection, as (row id, serialized row), in row-id order.
pub async fn dump_collection(nexus: &CognitiveNexus, name: &str) -> Vec<(u64, String)> {
    let c = nexus.store.db.open_collection(name.to_string(), async |_| Ok(())).await.unwrap();
    let mut ids = c.ids();
    ids.sort();
    let mut out = Vec::with_capacity(ids.len());
    for id in ids {
        // the stored document with every field, in schema order
        let doc = c.get(id).await.unwrap();
        out.push((id, serde_json::to_string(&doc).unwrap()));
    }
    out
}

pub const GOV_COLLECTIONS: [&str; 8] = [
    "gov_principals", "gov_principal_groups", "gov_actor_bindings", "gov_grants",
    "gov_delegations", "gov_policies", "gov_approvals", "gov_audit",
];

pub async fn typed_rows<T: serde::de::DeserializeOwned>(nexus: &CognitiveNexus, name: &str) -> Vec<T> {
    let c = nexus.store.db.open_collection(name.to_string(), async |_| Ok(())).await.unwrap();
    let mut ids = c.ids();
    ids.sort();
    let mut out = Vec::new();
    for id in ids {
        out.push(c.get_as::<T>(id).await.unwrap());
    }
    out
}

// ------------------------------------------------------------------ Coq term builders
pub fn s(x: &str) -> Value { json!(x) }
pub fn sl(xs: &[String]) -> Value { Value::Array(xs.iter().map(|x| json!(x)).collect()) }
pub fn n(x: u64) -> Value { json!({"N": x}) }
pub fn c(name: &str, args: Vec<Value>) -> Value { json!({"c": name, "a": args}) }
pub fn opt(x: Option<Value>) -> Value { match x { Some(v) => json!({"some": v}), None => Value::Null } }
pub fn t(xs: Vec<Value>) -> Value { json!({"t": xs}) }

pub fn scope_term(x: &AuthorityScope) -> Value {
    c("mkScope", vec![sl(&x.kinds), sl(&x.schema_refs), sl(&x.classifications), sl(&x.elements)])
}
pub fn conds_term(x: &AuthorityConditions) -> Value {
    c("mkConds", vec![sl(&x.purpose), s(&x.min_purpose_assurance), s(&x.min_auth_strength), s(&x.valid_from), s(&x.valid_until)])
}
pub fn constr_term(x: &AuthorityConstraints) -> Value {
    c("mkConstr", vec![sl(&x.fields), opt(x.max_results.map(n)), s(&x.max_influence_authority), s(&x.max_classification), json!(x.export)])
}
pub fn oblig_term(x: &PolicyObligations) -> Value {
    c("mkOblig", vec![json!(x.audit), n(x.approvals_required), s(&x.redaction_profile)])
}
pub fn dref_term(x: &str) -> Value {
    use anda_cognitive_nexus::governance::store::{delegation_id, row_id_of};
    if x.is_empty() {
        return c("DNone", vec![]);
    }
    match row_id_of(x) {
        Some(r) if delegation_id(r) == x => c("DCanon", vec![n(r)]),
        other => c("DOther", vec![opt(other.map(n))]),
    }
}

/// The control plane as it is stored *now*, read back from the collections.
pub async fn cplane_term(nexus: &CognitiveNexus) -> Value {
    let space = nexus.store.get_space(SPACE).await.unwrap();
    let principals: Vec<PrincipalRow> = typed_rows(nexus, "gov_principals").await;
    let groups: Vec<PrincipalGroupRow> = typed_rows(nexus, "gov_principal_groups").await;
    let grants: Vec<GrantRow> = typed_rows(nexus, "gov_grants").await;
    let delegs: Vec<DelegationRow> = typed_rows(nexus, "gov_delegations").await;
    let policies: Vec<GovernancePolicyRow> = typed_rows(nexus, "gov_policies").await;
    let pd = |v: &Value| -> AuthorityScope { serde_json::from_value(v.clone()).unwrap_or_default() };
    let pc = |v: &Value| -> AuthorityConditions { serde_json::from_value(v.clone()).unwrap_or_default() };
    let pk = |v: &Value| -> AuthorityConstraints { serde_json::from_value(v.clone()).unwrap_or_default() };
    c("mkCP", vec![
        c("mkSpace", vec![s(&space.space_id), s(&space.owner_principal), sl(&space.owners), s(&space.status),
                          s(&space.default_policy_id), s(&space.default_classification), s(&space.audit_mode)]),
        Value::Array(principals.iter().map(|p| c("mkPrincipal", vec![s(&p.principal_id), s(&p.status)])).collect()),
        Value::Array(groups.iter().map(|g| c("mkGroup", vec![s(&g.group_id), sl(&g.members), s(&g.status)])).collect()),
        Value::Array(grants.iter().map(|g| c("mkGrant", vec![
            n(g._id), s(&g.space_id), s(&g.grantee_principal), s(&g.grantee_group), sl(&g.actions),
            scope_term(&pd(&g.scope)), conds_term(&pc(&g.conditions)), constr_term(&pk(&g.constraints)),
            json!(g.delegation_allowed), s(&g.status)])).collect()),
        Value::Array(delegs.iter().map(|d| c("mkDeleg", vec![
            n(d._id), s(&d.space_id), s(&d.delegator_principal), s(&d.delegate_principal), sl(&d.actions),
            scope_term(&pd(&d.scope)), conds_term(&pc(&d.conditions)), constr_term(&pk(&d.constraints)),
            dref_term(&d.parent_delegation), json!(d.may_redelegate), s(&d.status)])).collect()),
        Value::Array(policies.iter().map(|p| c("mkPolicy", vec![
            s(&p.policy_id), n(p.version),
            Value::Array(p.statements.iter().filter_map(|v| serde_json::from_value::<PolicyStatement>(v.clone()).ok()).map(|st| c("mkStmt", vec![
                s(&st.effect), sl(&st.principals), sl(&st.groups), sl(&st.actions), scope_term(&st.resource),
                conds_term(&st.conditions), constr_term(&st.constraints), oblig_term(&st.obligations)])).collect())])).collect()),
    ])
}

pub struct Out {
    file: std::io::BufWriter<std::fs::File>,
}
impl Out {
    pub fn new(path: &str) -> Self {
        Out { file: std::io::BufWriter::new(std::fs::File::create(path).unwrap()) }
    }
    pub fn line(&mut self, v: &Value) {
        use std::io::Write;
        writeln!(self.file, "{}", v).unwrap();
    }
    pub fn finish(mut self) {
        use std::io::Write;
        self.file.flush().unwrap();
    }
}
