//! C19 (c) — no KIP command changes authority: byte comparison of the gov_* collections, the
//! Space's governance members and every existing element's governance block before/after every
//! command of a battery (benign, refused and hostile KML/KQL/META; text and pre-parsed AST path),
//! sent through sessions of several Principals, the owner's included.
use crate::common::*;
use anda_cognitive_nexus::{
    CognitiveNexus, ElementId,
    governance::{
        AuthContext, Permission, ResourceContext, SYSTEM_PRINCIPAL,
        rows::*,
        store::{ActorBindingDraft, ApprovalDraft, DelegationDraft, GrantDraft, GroupDraft, PolicyDraft},
    },
    nexus::Session,
};
use anda_kip::{ElementKind, Executor, Request};
use h_common::*;
use serde_json::{Value, json};
use std::collections::BTreeMap;

pub const KINDS: [ElementKind; 5] = [ElementKind::Concept, ElementKind::Proposition, ElementKind::Assertion, ElementKind::Evidence, ElementKind::Activity];

pub struct Snapshot {
    pub gov: BTreeMap<&'static str, Vec<(u64, String)>>,
    pub space: String,
    pub blocks: BTreeMap<String, String>,
    pub decisions: Vec<String>,
    pub approvals: Vec<Value>,
}

pub async fn governance_blocks(nexus: &CognitiveNexus) -> BTreeMap<String, String> {
    let mut blocks = BTreeMap::new();
    for kind in KINDS {
        let mut ids = nexus.store.elements(kind).ids();
        ids.sort();
        for seq in ids {
            let id = ElementId::new(kind, seq);
            if let Ok(e) = nexus.store.get_element(id).await {
                blocks.insert(id.to_string(), serde_json::to_string(e.governance()).unwrap());
            }
        }
    }
    blocks
}

const PROBE_PRINCIPALS: [&str; 6] = ["kip:principal:writer", "kip:principal:reader", "kip:principal:nobody", "kip:principal:helper", "kip:principal:anonymous", SYSTEM_PRINCIPAL];

pub async fn snapshot(nexus: &CognitiveNexus) -> Snapshot {
    let mut gov = BTreeMap::new();
    for name in GOV_COLLECTIONS {
        gov.insert(name, dump_collection(nexus, name).await);
    }
    let sp = nexus.store.get_space(SPACE).await.unwrap();
    let space = json!({
        "space_id": sp.space_id, "owner_principal": sp.owner_principal, "owners": sp.owners, "status": sp.status,
        "default_policy_id": sp.default_policy_id, "trust_policy_id": sp.trust_policy_id,
        "default_classification": sp.default_classification, "audit_mode": sp.audit_mode, "policies": sp.policies,
    })
    .to_string();
    // the decisions themselves, for a fixed probe set (authority as the engine evaluates it)
    let mut decisions = Vec::new();
    for p in PROBE_PRINCIPALS {
        let auth = AuthContext::principal(p);
        let session = nexus.session(auth.clone());
        match session.effective_authority(SPACE).await {
            Err(_) => decisions.push(format!("{p}: error")),
            Ok(eff) => {
                for perm in Permission::ALL {
                    for res in [ResourceContext::default(), ResourceContext::kind("concept").with_classification("secret"), ResourceContext::kind("evidence").with_classification("public")] {
                        let z = eff.authorize(*perm, &res, &auth);
                        decisions.push(format!("{p} {} {}/{}: {} {:?} {:?}", perm.as_str(), res.kind, res.classification, z.decision.as_str(), z.constraints, z.authorities_used));
                    }
                }
            }
        }
    }
    let approvals: Vec<ApprovalRow> = typed_rows(nexus, "gov_approvals").await;
    let approvals = approvals.iter().map(|a| serde_json::to_value(a).unwrap()).collect();
    Snapshot { gov, space, blocks: governance_blocks(nexus).await, decisions, approvals }
}

/// What changed that must not have: returns (class, detail) pairs.
pub fn compare(before: &Snapshot, after: &Snapshot) -> Vec<(String, String)> {
    let mut out = Vec::new();
    for name in GOV_COLLECTIONS {
        let b = &before.gov[name];
        let a = &after.gov[name];
        if name == "gov_audit" {
            // append-preserving: every existing record is byte-identical, new ones may follow
            if a.len() < b.len() || a[..b.len()] != b[..] {
                let k = b.iter().zip(a.iter()).position(|(x, y)| x != y).unwrap_or(a.len().min(b.len()));
                out.push(("audit-record-changed".into(), format!("gov_audit row #{k}: before {:?} after {:?}", b.get(k), a.get(k))));
            }
        } else if name == "gov_approvals" && a != b {
            // the one change a command may cause: spending a granted approval it ran under
            let spent_only = before.approvals.len() == after.approvals.len()
                && before.approvals.iter().zip(after.approvals.iter()).all(|(x, y)| {
                    if x == y { return true; }
                    let strip = |v: &Value| { let mut m = v.as_object().cloned().unwrap_or_default(); m.remove("status"); m.remove("updated_at"); m.remove("version"); m };
                    x["status"] == "granted" && y["status"] == "consumed" && strip(x) == strip(y)
                });
            if !spent_only {
                out.push(("control-plane-changed".into(), format!("gov_approvals: before {:?} after {:?}", before.approvals, after.approvals)));
            }
        } else if a != b {
            let k = b.iter().zip(a.iter()).position(|(x, y)| x != y).unwrap_or(a.len().min(b.len()));
            out.push(("control-plane-changed".into(), format!("{name} row #{k}: before {:?} after {:?}", b.get(k), a.get(k))));
        }
    }
    if before.space != after.space {
        out.push(("space-governance-changed".into(), format!("before {} after {}", before.space, after.space)));
    }
    for (id, block) in &before.blocks {
        match after.blocks.get(id) {
            Some(now) if now == block => {}
            Some(now) => out.push(("governance-block-changed".into(), format!("{id}: before {block} after {now}"))),
            None => {} // purged: the element is gone, nothing was conferred
        }
    }
    if before.decisions != after.decisions {
        let k = before.decisions.iter().zip(after.decisions.iter()).position(|(x, y)| x != y).unwrap_or(0);
        out.push(("decision-changed".into(), format!("before {:?} after {:?}", before.decisions.get(k), after.decisions.get(k))));
    }
    out
}

async fn setup(rng: &mut Rng, name: &str) -> CognitiveNexus {
    let nexus = stocked(name).await;
    let gov = nexus.governance();
    for p in ["kip:principal:writer", "kip:principal:reader", "kip:principal:nobody", "kip:principal:helper"] {
        agent(gov, p).await;
    }
    gov.put_group(GroupDraft { group_id: "kip:group:staff".into(), name: "staff".into(), description: String::new(), members: vec!["kip:principal:reader".into()] }, SYSTEM_PRINCIPAL).await.unwrap();
    let all_cognitive: Vec<String> = ["discover", "read", "search", "project", "read_history", "create", "update", "derive", "assert",
        "record_attributed_assertion", "assert_as_actor", "retract_own", "supersede_own", "moderate_assertion", "merge_identity",
        "maintain", "archive", "tombstone", "export", "manage_retention", "purge",
        // registered names no gate asks for: listing them must confer nothing
        "manage_grants", "manage_policy", "manage_membership", "manage_delegation", "delegate", "manage_actor_binding"]
        .iter().map(|x| x.to_string()).collect();
    gov.create_grant(GrantDraft { space_id: SPACE.into(), grantee_principal: "kip:principal:writer".into(), actions: all_cognitive.clone(),
        delegation_allowed: true, constraints: AuthorityConstraints { export: true, ..Default::default() }, ..Default::default() }, SYSTEM_PRINCIPAL).await.unwrap();
    gov.create_grant(GrantDraft { space_id: SPACE.into(), grantee_group: "kip:group:staff".into(), actions: vec!["read".into(), "search".into(), "discover".into()],
        constraints: AuthorityConstraints { max_classification: "internal".into(), ..Default::default() }, ..Default::default() }, SYSTEM_PRINCIPAL).await.unwrap();
    gov.create_delegation(DelegationDraft { space_id: SPACE.into(), delegator_principal: "kip:principal:writer".into(), delegate_principal: "kip:principal:helper".into(),
        actions: vec!["read".into(), "create".into(), "update".into()], ..Default::default() }, "kip:principal:writer").await.unwrap();
    gov.create_binding(ActorBindingDraft { principal_id: "kip:principal:writer".into(), actor_key: "C-1".into(), binding_class: binding_class::SELF.into(),
        assurance: assurance::VERIFIED.into(), scope: SPACE.into() }, SYSTEM_PRINCIPAL).await.unwrap();
    if rng.chance(2, 3) {
        gov.publish_policy(PolicyDraft { policy_id: "kip:policy:space".into(), space_id: SPACE.into(), description: "gen".into(), statements: vec![
            PolicyStatement { effect: "allow".into(), principals: vec!["kip:principal:anonymous".into()], actions: vec!["discover".into()], ..Default::default() },
            PolicyStatement { effect: "deny".into(), principals: vec!["kip:principal:reader".into()], actions: vec!["export".into()], ..Default::default() },
        ] }, SYSTEM_PRINCIPAL).await.unwrap();
        let mut space = nexus.store.get_space(SPACE).await.unwrap();
        space.default_policy_id = "kip:policy:space".into();
        nexus.store.put_space(&space).await.unwrap();
    }
    // population with mixed classifications
    let owner = nexus.system_session();
    let r = run_as(&owner, r#"MUTATE {
        CREATE CONCEPT ?alice { TYPE "Person" NAME "Alice" SET ATTRIBUTES {role: "administrator", nickname: "Al"} }
        CREATE CONCEPT ?bob { TYPE "Person" NAME "Bob" }
        CREATE CONCEPT ?dark { TYPE "Preference" NAME "Dark mode" }
        CREATE CONCEPT ?light { TYPE "Preference" NAME "Light mode" }
        ENSURE PROPOSITION ?p1 (?alice, "prefers", ?dark)
        ENSURE PROPOSITION ?p2 (?bob, "prefers", ?light)
        CREATE EVIDENCE ?e { SET FIELDS {evidence_class: "user_statement", payload: "I prefer dark mode.", observed_at: "2026-08-16T09:00:00Z"} }
        CREATE ASSERTION ?a { SET FIELDS {proposition: ?p1, asserted_by: ?alice, stance: "support", mode: "stated", confidence: 0.9}
                              SET STRUCTURAL { ("evidence", ?e) {role: "support"} } }
    }"#).await.unwrap();
    assert_eq!(error_code(&r), "", "population: {:?}", r);
    for (kind, seq, label) in [(ElementKind::Concept, 2u64, "secret"), (ElementKind::Concept, 3, "public"), (ElementKind::Evidence, 1, "private")] {
        owner.classify(SPACE, ElementId::new(kind, seq), label).await.unwrap();
    }
    nexus
}

fn battery(rng: &mut Rng) -> Vec<String> {
    let n = rng.below(1000);
    let mut v: Vec<String> = vec![
        // benign writes
        format!(r#"CREATE CONCEPT ?c {{ TYPE "Person" NAME "Carol {n}" }}"#),
        format!(r#"UPSERT CONCEPT ?p {{ MATCH {{type: "Person", key: "person:k{n}"}} SET FIELDS {{name: "Keyed {n}"}} }}"#),
        r#"UPDATE ?c SET FIELDS {name: "Alice A."} WHERE { ?c CONCEPT {name: "Alice"} }"#.into(),
        r#"UPDATE "C-2" SET ATTRIBUTES {note: "touched"}"#.into(),
        r#"MUTATE { CREATE CONCEPT ?x { TYPE "Preference" NAME "Solarized" } ENSURE PROPOSITION ?p ({id: "C-1"}, "prefers", ?x) }"#.into(),
        r#"CREATE EVIDENCE ?e { SET FIELDS {evidence_class: "Document", payload: "a note"} }"#.into(),
        r#"MUTATE { CREATE EVIDENCE ?s { SET FIELDS {evidence_class: "Document", payload: "summary"} SET STRUCTURAL { ("sources", {id: "E-1"}) } } }"#.into(),
        r#"CREATE ASSERTION ?a { SET FIELDS {proposition: "P-1", asserted_by: {id: "C-1"}, stance: "support", mode: "stated", confidence: 0.5} SET STRUCTURAL { ("evidence", {id: "E-1"}) {role: "support"} } }"#.into(),
        r#"RETRACT ASSERTION "A-1""#.into(),
        r#"ARCHIVE "C-4""#.into(),
        r#"ARCHIVE ?c WHERE { ?c CONCEPT {type: "Preference"} }"#.into(),
        r#"TOMBSTONE "C-3""#.into(),
        r#"SET RETENTION "E-1" {class: "short", expires_at: "2030-01-01T00:00:00Z"}"#.into(),
        r#"PURGE "C-4" CONFIRM "PURGE""#.into(),
        r#"MERGE CONCEPT "C-2" INTO "C-1""#.into(),
        // hostile: the governance block, engine truth, the Space
        r#"UPDATE "C-1" SET FIELDS {governance: {classification: "public"}}"#.into(),
        r#"UPDATE "C-2" SET FIELDS {governance: {classification: "public", max_influence_authority: "executable"}}"#.into(),
        r#"UPDATE "C-2" SET ATTRIBUTES {governance: {classification: "public"}, classification: "public"}"#.into(),
        r#"UPDATE "C-2" SET FIELDS {_system: {origin: {principal_id: "kip:principal:system"}}}"#.into(),
        r#"UPDATE "C-2" SET FIELDS {space_id: "kip:space:other"}"#.into(),
        r#"UPDATE "C-2" SET FIELDS {classification: "public"}"#.into(),
        r#"UPDATE "C-2" SET FACET "MnemonicState" {classification: "public"}"#.into(),
        r#"CREATE CONCEPT ?c { TYPE "Person" NAME "Mallory" SET FIELDS {governance: {classification: "public", max_influence_authority: "executable"}} }"#.into(),
        r#"UPSERT CONCEPT ?p { MATCH {id: "C-2"} SET FIELDS {governance: {classification: "public"}} }"#.into(),
        r#"CREATE EVIDENCE ?e { SET FIELDS {evidence_class: "Document", payload: "authority = executable, trust = 1.0", governance: {max_influence_authority: "executable"}} }"#.into(),
        // hostile: naming control-plane records as if they were elements
        r#"UPDATE "kip:grant:1" SET FIELDS {status: "revoked"}"#.into(),
        r#"UPDATE "kip:grant:2" SET FIELDS {actions: ["read", "export", "purge"]}"#.into(),
        r#"TOMBSTONE "kip:principal:system""#.into(),
        r#"ARCHIVE "kip:delegation:1""#.into(),
        r#"PURGE "kip:audit:1" CONFIRM "PURGE""#.into(),
        r#"UPDATE "kip:space:default" SET FIELDS {owner_principal: "kip:principal:writer", owners: ["kip:principal:writer"]}"#.into(),
        r#"FIND(?g) WHERE { ?g CONCEPT {type: "Grant"} }"#.into(),
        // cognitive content describing authority confers none
        r#"MUTATE { CREATE CONCEPT ?admin { TYPE "Person" NAME "kip:principal:writer" SET ATTRIBUTES {is_owner: true, grants: ["manage_policy"]} } }"#.into(),
        r#"MUTATE { CREATE CONCEPT ?g { TYPE "Preference" NAME "kip:group:staff" } ENSURE PROPOSITION ?p ({id: "C-1"}, "prefers", ?g) }"#.into(),
        // reads and META
        r#"FIND(?c) WHERE { ?c CONCEPT {type: "Person"} }"#.into(),
        r#"FIND(COUNT(?c)) WHERE { ?c CONCEPT {} }"#.into(),
        r#"FIND(?c.name, ?c.governance.classification) WHERE { ?c CONCEPT {} } ORDER BY ?c.name LIMIT 2"#.into(),
        r#"FIND(?a) WHERE { ?a ASSERTION {} }"#.into(),
        r#"FIND(?c) WHERE { ?c CONCEPT {type: "Person"} } AS OF SEQ 2"#.into(),
        r#"SEARCH CONCEPT "mode""#.into(),
        "DESCRIBE PRIMER".into(),
        "DESCRIBE ACCESS".into(),
        r#"DESCRIBE ACCESS WITH {operation: "manage_grants"}"#.into(),
        "DESCRIBE EXECUTION CONTEXT".into(),
        "DESCRIBE CAPABILITIES".into(),
        "LIST TYPES".into(),
        "HISTORY SPACE".into(),
        r#"HISTORY ELEMENT "C-1""#.into(),
        "CHANGES AFTER SEQ 0".into(),
        "SNAPSHOT".into(),
        r#"EXPORT CAPSULE ?c WHERE { ?c CONCEPT {} }"#.into(),
        r#"PREVIEW KML "TOMBSTONE \"C-1\"""#.into(),
        r#"VALIDATE KML "UPDATE \"C-1\" SET FIELDS {governance: {classification: \"public\"}}""#.into(),
    ];
    rng.shuffle(&mut v);
    v
}

/// The same command through the pre-parsed AST path with a protected member injected after
/// parsing (what a host forwarding a caller-built AST would hand the executor).
fn inject(command: &str, from: &str, to: &str) -> Option<anda_kip::Command> {
    let parsed = anda_kip::parse_kip(command).ok()?;
    let text = serde_json::to_string(&parsed).ok()?;
    if !text.contains(from) { return None; }
    serde_json::from_str(&text.replace(from, to)).ok()
}

async fn run_ast(session: &Session, cmd: anda_kip::Command, text: &str) -> anda_kip::Response {
    let request = Request::single(text);
    session.execute(cmd, &request, &request.operations[0]).await
}

pub async fn main(args: &[String]) {
    let out_path = arg_value(args, "--out").expect("--out");
    let rounds: usize = arg_value(args, "--rounds").and_then(|x| x.parse().ok()).unwrap_or(2);
    let mut rng = Rng::from_env();
    let mut out = Out::new(&out_path);
    let mut failures: Vec<Value> = Vec::new();
    let mut dist: BTreeMap<String, u64> = BTreeMap::new();
    let mut evaluations = 0u64;
    let mut keys: Vec<String> = Vec::new();
    let sessions = ["kip:principal:writer", "kip:principal:reader", "kip:principal:nobody", "kip:principal:helper", "kip:principal:anonymous", SYSTEM_PRINCIPAL];

    for round in 0..rounds {
        let nexus = setup(&mut rng, &format!("c19_escalate_{round}")).await;
        let mut history: Vec<String> = Vec::new();
        let cmds = battery(&mut rng);
        let ast_cmds: Vec<(String, &str, &str)> = vec![
            (r#"UPDATE "C-2" SET FIELDS {zzmember: {classification: "public"}}"#.into(), "zzmember", "governance"),
            (r#"CREATE CONCEPT ?c { TYPE "Person" NAME "Trent" SET FIELDS {zzmember: {max_influence_authority: "executable"}} }"#.into(), "zzmember", "governance"),
            (r#"UPSERT CONCEPT ?p { MATCH {id: "C-2"} SET FIELDS {zzmember: {classification: "public"}} }"#.into(), "zzmember", "governance"),
            (r#"UPDATE "C-2" SET FIELDS {zzmember: {origin: {principal_id: "kip:principal:system"}}}"#.into(), "zzmember", "_system"),
            (r#"UPDATE "C-2" SET ATTRIBUTES {zzmember: "x"}"#.into(), "zzmember", "governance"),
        ];
        let mut before = snapshot(&nexus).await;
        for (i, cmd) in cmds.iter().enumerate() {
            // every command as the broad cognitive writer or the owner, and as one other Principal
            let who = [if i % 3 == 0 { SYSTEM_PRINCIPAL } else { "kip:principal:writer" }, *rng.pick(&sessions)];
            for p in who {
                let session = if p == SYSTEM_PRINCIPAL { nexus.system_session() } else if p == "kip:principal:anonymous" { nexus.session(AuthContext::anonymous()) } else { nexus.session(AuthContext::principal(p)) };
                let outcome = match run_as(&session, cmd).await {
                    Ok(r) => { let c = error_code(&r); if c.is_empty() { "ok".to_string() } else { c } }
                    Err(_) => "ParseError".to_string(),
                };
                evaluations += 1;
                *dist.entry(format!("outcome:{outcome}")).or_default() += 1;
                history.push(format!("{p}: {cmd} -> {outcome}"));
                let after = snapshot(&nexus).await;
                for (cls, detail) in compare(&before, &after) {
                    failures.push(json!({"what": cls, "detail": detail, "principal": p, "command": cmd, "outcome": outcome,
                                         "round": round, "history_tail": history.iter().rev().take(6).rev().collect::<Vec<_>>()}));
                }
                keys.push(format!("{p}|{cmd}|{outcome}"));
                before = after;
            }
        }
        for (text, from, to) in &ast_cmds {
            for p in [SYSTEM_PRINCIPAL, "kip:principal:writer"] {
                let Some(cmd) = inject(text, from, to) else { *dist.entry("ast:not-injectable".into()).or_default() += 1; continue };
                let session = if p == SYSTEM_PRINCIPAL { nexus.system_session() } else { nexus.session(AuthContext::principal(p)) };
                let r = run_ast(&session, cmd, text).await;
                let c = error_code(&r);
                let outcome = if c.is_empty() { "ok".to_string() } else { c };
                evaluations += 1;
                *dist.entry(format!("ast-outcome:{outcome}")).or_default() += 1;
                let after = snapshot(&nexus).await;
                for (cls, detail) in compare(&before, &after) {
                    failures.push(json!({"what": cls, "detail": detail, "principal": p, "command": format!("AST[{from}->{to}] {text}"), "outcome": outcome, "round": round}));
                }
                keys.push(format!("{p}|AST {to}|{text}|{outcome}"));
                before = after;
            }
        }
        // approvals: a policy makes `export` wait for two independent approvals; the command that
        // runs under them spends them (granted -> consumed) and changes nothing else
        {
            let gov = nexus.governance();
            gov.publish_policy(PolicyDraft { policy_id: "kip:policy:space".into(), space_id: SPACE.into(), description: "approvals".into(), statements: vec![
                PolicyStatement { effect: "allow".into(), principals: vec!["kip:principal:anonymous".into()], actions: vec!["discover".into()], ..Default::default() },
                PolicyStatement { effect: "allow".into(), principals: vec!["kip:principal:writer".into()], actions: vec!["export".into()],
                                  constraints: AuthorityConstraints { export: true, ..Default::default() },
                                  obligations: PolicyObligations { approvals_required: 2, ..Default::default() }, ..Default::default() },
            ] }, SYSTEM_PRINCIPAL).await.unwrap();
            let mut space = nexus.store.get_space(SPACE).await.unwrap();
            space.default_policy_id = "kip:policy:space".into();
            nexus.store.put_space(&space).await.unwrap();
            let writer = nexus.session(AuthContext::principal("kip:principal:writer"));
            let export = r#"EXPORT CAPSULE ?c WHERE { ?c CONCEPT {} }"#;
            let mut outcomes: Vec<String> = Vec::new();
            for phase in 0..3 {
                if phase == 1 {
                    let digest = anda_cognitive_nexus::governance::approval::subject_digest(SPACE, Permission::Export, &ResourceContext::default());
                    let row = gov.request_approval(ApprovalDraft { space_id: SPACE.into(), operation: "export".into(), resource: String::new(), subject_digest: digest,
                        required: 2, allow_self_approval: false, expires_at: String::new() }, "kip:principal:writer").await.unwrap();
                    gov.approve(row._id, "kip:principal:reader", "ok").await.unwrap();
                    gov.approve(row._id, "kip:principal:helper", "ok").await.unwrap();
                }
                let before = snapshot(&nexus).await;
                let outcome = match run_as(&writer, export).await { Ok(r) => { let c = error_code(&r); if c.is_empty() { "ok".to_string() } else { c } } Err(_) => "ParseError".into() };
                evaluations += 1;
                *dist.entry(format!("approval-phase{phase}:{outcome}")).or_default() += 1;
                let after = snapshot(&nexus).await;
                for (cls, detail) in compare(&before, &after) {
                    failures.push(json!({"what": cls, "detail": detail, "principal": "kip:principal:writer", "command": export, "outcome": outcome, "round": round, "approval_phase": phase}));
                }
                keys.push(format!("approval|{phase}|{outcome}"));
                outcomes.push(outcome);
                if phase == 1 {
                    let spent = after.approvals.iter().filter(|a| a["status"] == "consumed").count();
                    *dist.entry(format!("approvals-consumed:{spent}")).or_default() += 1;
                }
            }
            // one pair of approvals buys one export: refused before, allowed once, refused again
            if !(outcomes[0] != "ok" && outcomes[1] == "ok" && outcomes[2] != "ok") {
                failures.push(json!({"what": "approval-not-required-or-not-spent", "detail": format!("export outcomes without / with / after approvals: {outcomes:?}"), "command": export, "round": round}));
            }
        }
        // the comparison is live: a control-plane call does change the dump
        nexus.governance().revoke_grant(2, SYSTEM_PRINCIPAL).await.unwrap();
        let after = snapshot(&nexus).await;
        if compare(&before, &after).is_empty() {
            failures.push(json!({"what": "harness-blind", "detail": "revoke_grant through the host API left every dump identical"}));
        }
        nexus.system_session().classify(SPACE, ElementId::new(ElementKind::Concept, 1), "private").await.unwrap();
        let after2 = snapshot(&nexus).await;
        if !compare(&after, &after2).iter().any(|(c, _)| c == "governance-block-changed") {
            failures.push(json!({"what": "harness-blind", "detail": "classify through the host API did not show in the governance blocks"}));
        }
    }
    failures.truncate(20);
    out.line(&json!({"kind": "summary", "evaluations": evaluations, "rounds": rounds, "distribution": dist,
                     "keys": keys, "oracle_failures": failures.len(), "failures": failures}));
    out.finish();
}
