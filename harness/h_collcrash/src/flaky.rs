//! Unknown-outcome fault: the n-th mutating call is APPLIED to the inner store and then an
//! error is returned ("the write landed but the caller was told it failed").  FaultStore has no
//! such kind (TornWrite covers puts only), so this wrapper lives in the harness.
use async_trait::async_trait;
use bytes::Bytes;
use futures::{StreamExt, stream::BoxStream};
use object_store::{path::Path, *};
use std::sync::{
    Arc,
    atomic::{AtomicBool, AtomicU64, Ordering},
};

#[derive(Debug, Default)]
pub struct FlakyState {
    pub calls: AtomicU64,
    pub fail_at: AtomicU64, // u64::MAX = never
    pub fired: AtomicBool,
    pub fired_on: std::sync::Mutex<Option<String>>,
}

impl FlakyState {
    pub fn new() -> Arc<Self> {
        Arc::new(FlakyState { fail_at: AtomicU64::new(u64::MAX), ..Default::default() })
    }
    pub fn arm(&self, n: u64) {
        self.calls.store(0, Ordering::Release);
        self.fired.store(false, Ordering::Release);
        self.fail_at.store(n, Ordering::Release);
    }
    pub fn disarm(&self) {
        self.fail_at.store(u64::MAX, Ordering::Release);
    }
    /// true when this (already applied) mutation must be reported as failed
    fn hit(&self, what: &str, path: &Path) -> bool {
        let n = self.calls.fetch_add(1, Ordering::AcqRel);
        if n == self.fail_at.load(Ordering::Acquire) {
            self.fired.store(true, Ordering::Release);
            *self.fired_on.lock().unwrap() = Some(format!("{what} {path}"));
            true
        } else {
            false
        }
    }
}

fn injected(what: &str, path: &Path) -> Error {
    Error::Generic { store: "Flaky", source: format!("injected unknown-outcome failure ({what} {path}): applied, error returned").into() }
}

#[derive(Debug)]
pub struct Flaky {
    pub inner: Arc<dyn ObjectStore>,
    pub state: Arc<FlakyState>,
}

impl std::fmt::Display for Flaky {
    fn fmt(&self, f: &mut std::fmt::Formatter<'_>) -> std::fmt::Result {
        write!(f, "Flaky({})", self.inner)
    }
}

#[async_trait]
impl ObjectStore for Flaky {
    async fn put_opts(&self, location: &Path, payload: PutPayload, opts: PutOptions) -> Result<PutResult> {
        let r = self.inner.put_opts(location, payload, opts).await?;
        if self.state.hit("Put", location) {
            return Err(injected("Put", location));
        }
        Ok(r)
    }

    async fn put_multipart_opts(&self, location: &Path, opts: PutMultipartOptions) -> Result<Box<dyn MultipartUpload>> {
        self.inner.put_multipart_opts(location, opts).await
    }

    async fn get_opts(&self, location: &Path, options: GetOptions) -> Result<GetResult> {
        self.inner.get_opts(location, options).await
    }

    async fn get_ranges(&self, location: &Path, ranges: &[std::ops::Range<u64>]) -> Result<Vec<Bytes>> {
        self.inner.get_ranges(location, ranges).await
    }

    fn delete_stream(&self, locations: BoxStream<'static, Result<Path>>) -> BoxStream<'static, Result<Path>> {
        let state = self.state.clone();
        self.inner
            .delete_stream(locations)
            .map(move |r| match r {
                Ok(p) => {
                    if state.hit("Delete", &p) {
                        Err(injected("Delete", &p))
                    } else {
                        Ok(p)
                    }
                }
                Err(e) => Err(e),
            })
            .boxed()
    }

    fn list(&self, prefix: Option<&Path>) -> BoxStream<'static, Result<ObjectMeta>> {
        self.inner.list(prefix)
    }

    fn list_with_offset(&self, prefix: Option<&Path>, offset: &Path) -> BoxStream<'static, Result<ObjectMeta>> {
        self.inner.list_with_offset(prefix, offset)
    }

    async fn list_with_delimiter(&self, prefix: Option<&Path>) -> Result<ListResult> {
        self.inner.list_with_delimiter(prefix).await
    }

    async fn copy_opts(&self, from: &Path, to: &Path, options: CopyOptions) -> Result<()> {
        self.inner.copy_opts(from, to, options).await?;
        if self.state.hit("Copy", from) {
            return Err(injected("Copy", from));
        }
        Ok(())
    }

    async fn rename_opts(&self, from: &Path, to: &Path, options: RenameOptions) -> Result<()> {
        self.inner.rename_opts(from, to, options).await?;
        if self.state.hit("Rename", from) {
            return Err(injected("Rename", from));
        }
        Ok(())
    }
}
