//! C01 / C02 — crash explorer and index-consistency explorer for one `Collection`.
//!
//! Generalises /repo/rs/anda_db/tests/crash_recovery.rs: generated workloads over
//! {add, update, remove, flush, save_extension, compact index, create/remove index (in the open
//! callback), close+reopen (collection or whole database), rejected writes} are run over
//! `FaultStore(InMemory)` below an optional `MetaStore` / `EncryptedStore` wrapper; the store loses
//! power after every backend mutation k, is rebooted, the collection is reopened (recovery) and
//! everything observable is dumped.  Nested: the recovery itself is crashed after every mutation j
//! (from a byte-exact snapshot of the crashed backend), and again one level deeper for a sample.
//! Unknown-outcome faults: `flaky::Flaky` applies the n-th mutating call and then returns an error.
//!
//! Output (JSON lines):
//!   {"kind":"c02","case":(ixs, dump)}               sampled dumps for the Coq monitor `consistent_b`
//!   {"kind":"c01","case":(spec, obs)}               sampled recoveries for the Coq monitor `durable_ok`
//!   {"kind":"log","case":(opkind, [(op, class)])}   distinct per-operation backend mutation shapes
//!   {"kind":"summary", ...}                         counts, distribution, direct-oracle failures
//! The direct oracle is computed here from the harness's own copy of the documents (`Progress`).
mod flaky;

use anda_db::{
    collection::{Collection, CollectionConfig},
    database::{AndaDB, DBConfig},
    error::DBError,
    index::{HnswConfig, virtual_field_value},
    query::{Filter, RangeQuery},
    schema::{Document, FieldEntry, FieldKey, FieldType, Fv, Schema, bf16},
    storage::StorageConfig,
    unix_ms,
};
use anda_object_store::{EncryptedStoreBuilder, FaultHandle, FaultOp, FaultStore, MetaStoreBuilder};
use flaky::{Flaky, FlakyState};
use futures::{FutureExt, StreamExt};
use h_common::*;
use object_store::{ObjectStore, ObjectStoreExt, memory::InMemory, path::Path};
use serde_json::{Value, json};
use std::collections::{BTreeMap, BTreeSet};
use std::io::Write;
use std::panic::AssertUnwindSafe;
use std::sync::Arc;

// ------------------------------------------------------------------------------------------ schema
const WORDS: [&str; 8] = ["alpha", "beta", "gamma", "delta", "omega", "kappa", "sigma", "theta"];
const TAGS: [&str; 5] = ["red", "green", "blue", "cyan", "pink"];
const ATTRS: [&str; 4] = ["ka", "kb", "kc", "kd"];
const NICKS: [&str; 4] = ["nemo", "nova", "nyx", "noor"];

#[derive(Clone, Copy, Debug, PartialEq)]
enum IxKind {
    B,
    T,
    V,
}
struct IxDef {
    kind: IxKind,
    fields: &'static [&'static str],
    kty: &'static str,
}
const IXS: [IxDef; 10] = [
    IxDef { kind: IxKind::B, fields: &["uid"], kty: "TyT" },
    IxDef { kind: IxKind::B, fields: &["age"], kty: "TyU" },
    IxDef { kind: IxKind::B, fields: &["score"], kty: "TyI" },
    IxDef { kind: IxKind::B, fields: &["nick"], kty: "TyT" },
    IxDef { kind: IxKind::B, fields: &["tags"], kty: "TyT" },
    IxDef { kind: IxKind::B, fields: &["attrs"], kty: "TyT" },
    IxDef { kind: IxKind::B, fields: &["uid", "age"], kty: "TyB" },
    IxDef { kind: IxKind::T, fields: &["body"], kty: "TyT" },
    IxDef { kind: IxKind::T, fields: &["body", "nick"], kty: "TyT" },
    IxDef { kind: IxKind::V, fields: &["emb"], kty: "TyT" },
];
const NIX: usize = 10;
type IxSet = [bool; NIX];

fn schema() -> Schema {
    let mut b = Schema::builder();
    b.add_field(FieldEntry::new("uid".into(), FieldType::Text).unwrap().with_unique()).unwrap();
    b.add_field(FieldEntry::new("age".into(), FieldType::U64).unwrap()).unwrap();
    b.add_field(FieldEntry::new("score".into(), FieldType::I64).unwrap()).unwrap();
    b.add_field(FieldEntry::new("nick".into(), FieldType::Option(Box::new(FieldType::Text))).unwrap()).unwrap();
    b.add_field(FieldEntry::new("tags".into(), FieldType::Array(vec![FieldType::Text])).unwrap()).unwrap();
    let wild: FieldKey = "*".into();
    b.add_field(FieldEntry::new("attrs".into(), FieldType::Map(BTreeMap::from([(wild, FieldType::U64)]))).unwrap()).unwrap();
    b.add_field(FieldEntry::new("body".into(), FieldType::Text).unwrap()).unwrap();
    // the HNSW index requires a plain (required) Vector field with the default hooks
    b.add_field(FieldEntry::new("emb".into(), FieldType::Vector).unwrap()).unwrap();
    b.build().unwrap()
}

#[derive(Clone, Debug, PartialEq, Eq, PartialOrd, Ord)]
struct DocVals {
    uid: String,
    age: u64,
    score: i64,
    nick: Option<String>,
    tags: Vec<String>,
    attrs: BTreeMap<String, u64>,
    body: Vec<String>,
    emb: Option<[u8; 4]>,
}

#[derive(Clone, Debug, Default)]
struct Patch {
    uid: Option<String>,
    age: Option<u64>,
    score: Option<i64>,
    nick: Option<Option<String>>,
    tags: Option<Vec<String>>,
    attrs: Option<BTreeMap<String, u64>>,
    body: Option<Vec<String>>,
    emb: Option<Option<[u8; 4]>>,
    /// != 0: the patch additionally carries a value that one index stage (or the schema) must reject; see `bad_field`
    bad: u8,
}

/// A value the write path must reject, and the stage that rejects it.  1..=4: the HNSW index (wrong dimension below / above,
/// NaN, infinity) - the LAST index stage, so the rollback closure runs with every B-tree / BM25 / HNSW change applied;
/// 6: the schema (wrong type), before any index is touched.  (The B-tree stage is reached by the duplicate-uid writes.  The
/// BM25 stage cannot reject through the public API: index::BM25::insert accepts a text without tokens by design and
/// AlreadyExists is unreachable for a sequential caller.)
fn bad_field(kind: u8) -> (&'static str, Fv) {
    let v = |xs: &[f32]| Fv::Vector(xs.iter().map(|x| bf16::from_f32(*x)).collect());
    match kind {
        1 => ("emb", v(&[1.0, 2.0, 3.0])),
        2 => ("emb", v(&[1.0, 2.0, 3.0, 4.0, 5.0])),
        3 => ("emb", v(&[1.0, f32::NAN, 3.0, 4.0])),
        4 => ("emb", v(&[1.0, 2.0, f32::INFINITY, 4.0])),
        _ => ("age", Fv::Text("old".into())),
    }
}
fn bad_applicable(kind: u8, ixs: &IxSet) -> bool {
    match kind { 1..=4 => ixs[9], _ => true }
}

fn emb_fv(e: &[u8; 4]) -> Fv {
    Fv::Vector(e.iter().map(|x| bf16::from_f32(*x as f32)).collect())
}
fn emb_f32(e: &[u8; 4]) -> Vec<f32> {
    e.iter().map(|x| *x as f32).collect()
}

impl DocVals {
    fn apply(&self, p: &Patch) -> DocVals {
        let mut d = self.clone();
        if let Some(v) = &p.uid { d.uid = v.clone(); }
        if let Some(v) = p.age { d.age = v; }
        if let Some(v) = p.score { d.score = v; }
        if let Some(v) = &p.nick { d.nick = v.clone(); }
        if let Some(v) = &p.tags { d.tags = v.clone(); }
        if let Some(v) = &p.attrs { d.attrs = v.clone(); }
        if let Some(v) = &p.body { d.body = v.clone(); }
        if let Some(v) = &p.emb { d.emb = *v; }
        d
    }
    fn fields(&self) -> BTreeMap<String, Fv> {
        let mut m = BTreeMap::new();
        m.insert("uid".into(), Fv::Text(self.uid.clone()));
        m.insert("age".into(), Fv::U64(self.age));
        m.insert("score".into(), Fv::I64(self.score));
        m.insert("nick".into(), self.nick.clone().map(Fv::Text).unwrap_or(Fv::Null));
        m.insert("tags".into(), Fv::Array(self.tags.iter().cloned().map(Fv::Text).collect()));
        m.insert("attrs".into(), Fv::Map(self.attrs.iter().map(|(k, v)| (FieldKey::from(k.clone()), Fv::U64(*v))).collect()));
        m.insert("body".into(), Fv::Text(self.body.join(" ")));
        m.insert("emb".into(), self.emb.as_ref().map(emb_fv).unwrap_or(Fv::Null));
        m
    }
    /// Coq term: list (string * value) in schema order.  `body` is rendered as its token list
    /// (the tokenizer is part of the trusted base; every vocabulary word is checked at start-up to
    /// be a fixed point of the collection's tokenizer).
    fn term(&self) -> Value {
        let ts = |l: &Vec<String>| ctor("VTs", vec![Value::Array(l.iter().map(|s| json!(s)).collect())]);
        Value::Array(vec![
            tup(vec![json!("uid"), ctor("VT", vec![json!(self.uid)])]),
            tup(vec![json!("age"), ctor("VU", vec![json!(self.age)])]),
            tup(vec![json!("score"), ctor("VI", vec![json!(self.score)])]),
            tup(vec![json!("nick"), self.nick.as_ref().map(|s| ctor("VT", vec![json!(s)])).unwrap_or(ctor("VNull", vec![]))]),
            tup(vec![json!("tags"), ts(&self.tags)]),
            tup(vec![json!("attrs"), ts(&self.attrs.keys().cloned().collect())]),
            tup(vec![json!("body"), ts(&self.body)]),
            tup(vec![json!("emb"), self.emb.map(|e| ctor("VVec", vec![json!(e.to_vec())])).unwrap_or(ctor("VNull", vec![]))]),
        ])
    }
}

fn patch_fields(p: &Patch) -> BTreeMap<String, Fv> {
    let mut m = BTreeMap::new();
    if let Some(v) = &p.uid { m.insert("uid".into(), Fv::Text(v.clone())); }
    if let Some(v) = p.age { m.insert("age".into(), Fv::U64(v)); }
    if let Some(v) = p.score { m.insert("score".into(), Fv::I64(v)); }
    if let Some(v) = &p.nick { m.insert("nick".into(), v.clone().map(Fv::Text).unwrap_or(Fv::Null)); }
    if let Some(v) = &p.tags { m.insert("tags".into(), Fv::Array(v.iter().cloned().map(Fv::Text).collect())); }
    if let Some(v) = &p.attrs { m.insert("attrs".into(), Fv::Map(v.iter().map(|(k, x)| (FieldKey::from(k.clone()), Fv::U64(*x))).collect())); }
    if let Some(v) = &p.body { m.insert("body".into(), Fv::Text(v.join(" "))); }
    if let Some(v) = &p.emb { m.insert("emb".into(), v.as_ref().map(emb_fv).unwrap_or(Fv::Null)); }
    if p.bad != 0 { let (k, fv) = bad_field(p.bad); m.insert(k.into(), fv); }
    m
}

/// Reads a stored document back into the harness representation (None = a shape the schema cannot produce).
fn read_back(doc: &Document) -> Result<DocVals, String> {
    let txt = |n: &str| match doc.get_field(n) { Some(Fv::Text(s)) => Ok(s.clone()), o => Err(format!("{n}: {o:?}")) };
    let uid = txt("uid")?;
    let age = match doc.get_field("age") { Some(Fv::U64(v)) => *v, o => return Err(format!("age: {o:?}")) };
    let score = match doc.get_field("score") {
        Some(Fv::I64(v)) => *v,
        Some(Fv::U64(v)) if *v <= i64::MAX as u64 => *v as i64,
        o => return Err(format!("score: {o:?}")),
    };
    let nick = match doc.get_field("nick") { Some(Fv::Text(s)) => Some(s.clone()), Some(Fv::Null) | None => None, o => return Err(format!("nick: {o:?}")) };
    let tags = match doc.get_field("tags") {
        Some(Fv::Array(v)) => v.iter().map(|x| match x { Fv::Text(s) => Ok(s.clone()), o => Err(format!("tags: {o:?}")) }).collect::<Result<Vec<_>, _>>()?,
        o => return Err(format!("tags: {o:?}")),
    };
    let attrs = match doc.get_field("attrs") {
        Some(Fv::Map(m)) => {
            let mut r = BTreeMap::new();
            for (k, v) in m {
                let k = match k { FieldKey::Text(s) => s.clone(), o => return Err(format!("attrs key {o:?}")) };
                let v = match v { Fv::U64(x) => *x, o => return Err(format!("attrs val {o:?}")) };
                r.insert(k, v);
            }
            r
        }
        o => return Err(format!("attrs: {o:?}")),
    };
    let body: Vec<String> = txt("body")?.split(' ').filter(|s| !s.is_empty()).map(|s| s.to_string()).collect();
    let emb = match doc.get_field("emb") {
        Some(Fv::Vector(v)) if v.len() == 4 => {
            let mut e = [0u8; 4];
            for (i, x) in v.iter().enumerate() { e[i] = x.to_f32() as u8; }
            Some(e)
        }
        Some(Fv::Null) | None => None,
        o => return Err(format!("emb: {o:?}")),
    };
    Ok(DocVals { uid, age, score, nick, tags, attrs, body, emb })
}

// ------------------------------------------------------------------------------------------ keys
#[derive(Clone, Debug, PartialEq, Eq, PartialOrd, Ord)]
enum Key {
    U(u64),
    I(i64),
    T(String),
    Tup(String, u64),
    Unit,
    Unknown(String),
}
impl Key {
    fn term(&self) -> Value {
        match self {
            Key::U(v) => ctor("KU", vec![json!(v)]),
            Key::I(v) => ctor("KI", vec![json!(v)]),
            Key::T(s) => ctor("KT", vec![json!(s)]),
            Key::Tup(u, a) => ctor("KTup", vec![Value::Array(vec![ctor("VT", vec![json!(u)]), ctor("VU", vec![json!(a)])])]),
            Key::Unit => ctor("KUnit", vec![]),
            Key::Unknown(s) => ctor("KT", vec![json!(format!("?{s}"))]),
        }
    }
    fn fv(&self) -> Option<Fv> {
        match self {
            Key::U(v) => Some(Fv::U64(*v)),
            Key::I(v) => Some(Fv::I64(*v)),
            Key::T(s) => Some(Fv::Text(s.clone())),
            Key::Tup(u, a) => virtual_field_value(&[Some(&Fv::Text(u.clone())), Some(&Fv::U64(*a))]),
            _ => None,
        }
    }
}

/// The harness-side reading of the property: which keys does document `d` own in index `ix`.
/// (null skipped, array elements, map keys, composite tuple, token set, vector presence)
fn keys_of(ix: usize, d: &DocVals) -> BTreeSet<Key> {
    let mut s = BTreeSet::new();
    match ix {
        0 => { s.insert(Key::T(d.uid.clone())); }
        1 => { s.insert(Key::U(d.age)); }
        2 => { s.insert(Key::I(d.score)); }
        3 => { if let Some(n) = &d.nick { s.insert(Key::T(n.clone())); } }
        4 => { for t in &d.tags { s.insert(Key::T(t.clone())); } }
        5 => { for k in d.attrs.keys() { s.insert(Key::T(k.clone())); } }
        6 => { s.insert(Key::Tup(d.uid.clone(), d.age)); }
        7 => { for w in &d.body { s.insert(Key::T(w.clone())); } }
        8 => { for w in &d.body { s.insert(Key::T(w.clone())); } if let Some(n) = &d.nick { s.insert(Key::T(n.clone())); } }
        9 => { if d.emb.is_some() { s.insert(Key::Unit); } }
        _ => unreachable!(),
    }
    s
}

fn ixs_term(ixs: &IxSet) -> Value {
    Value::Array((0..NIX).filter(|i| ixs[*i]).map(|i| {
        let f = Value::Array(IXS[i].fields.iter().map(|s| json!(s)).collect());
        match IXS[i].kind {
            IxKind::B => ctor("IxB", vec![f, ctor(IXS[i].kty, vec![])]),
            IxKind::T => ctor("IxT", vec![f]),
            IxKind::V => ctor("IxV", vec![json!(IXS[i].fields[0])]),
        }
    }).collect())
}

// ------------------------------------------------------------------------------------------ ops
#[derive(Clone, Debug)]
enum Op {
    Add(DocVals),
    /// an add carrying a value an index stage must reject (see `bad_field`)
    AddBad(DocVals, u8),
    Update(u64, Patch),
    UpdateMissing(Patch),
    Remove(u64),
    RemoveLast,
    RemoveMissing,
    Flush,
    SaveExt(u64),
    CompactB(usize),
    CompactT(usize),
    Reopen(IxSet, bool),
}
impl Op {
    fn kind(&self) -> &'static str {
        match self {
            Op::Add(_) | Op::AddBad(..) => "add", Op::Update(..) => "update", Op::UpdateMissing(_) => "update_missing",
            Op::Remove(_) | Op::RemoveLast => "remove", Op::RemoveMissing => "remove_missing", Op::Flush => "flush",
            Op::SaveExt(_) => "save_extension", Op::CompactB(_) => "compact_btree", Op::CompactT(_) => "compact_bm25",
            Op::Reopen(_, false) => "reopen_collection", Op::Reopen(_, true) => "reopen_database",
        }
    }
}

#[derive(Clone, Debug)]
struct Workload {
    init: IxSet,
    ops: Vec<Op>,
    bucket: usize,
}

struct Gen {
    rng: Rng,
    uid_ctr: u64,
}
impl Gen {
    fn ixset(&mut self) -> IxSet {
        let mut s = [false; NIX];
        let dense = self.rng.chance(3, 4);
        for b in s.iter_mut() { *b = if dense { self.rng.chance(5, 6) } else { self.rng.chance(1, 3) }; }
        s
    }
    fn words(&mut self) -> Vec<String> {
        let n = 1 + self.rng.below(3) as usize;
        (0..n).map(|_| self.rng.pick(&WORDS).to_string()).collect()
    }
    fn tags(&mut self) -> Vec<String> {
        let n = self.rng.below(4) as usize;
        let mut v: Vec<String> = (0..n).map(|_| self.rng.pick(&TAGS).to_string()).collect();
        v.sort(); v.dedup();
        v
    }
    fn attrs(&mut self) -> BTreeMap<String, u64> {
        let n = self.rng.below(3) as usize;
        (0..n).map(|_| (self.rng.pick(&ATTRS).to_string(), self.rng.below(5))).collect()
    }
    fn emb(&mut self) -> Option<[u8; 4]> {
        Some([self.rng.below(60) as u8, self.rng.below(60) as u8, 1 + self.rng.below(60) as u8, self.rng.below(60) as u8])
    }
    fn nick(&mut self) -> Option<String> {
        if self.rng.chance(1, 3) { None } else { Some(self.rng.pick(&NICKS).to_string()) }
    }
    fn fresh_uid(&mut self) -> String {
        self.uid_ctr += 1;
        format!("u{}", self.uid_ctr)
    }
    fn doc(&mut self) -> DocVals {
        DocVals {
            uid: self.fresh_uid(), age: self.rng.below(6), score: self.rng.range(-3, 3), nick: self.nick(),
            tags: self.tags(), attrs: self.attrs(), body: self.words(), emb: self.emb(),
        }
    }
    fn patch(&mut self, dup_uid: bool) -> Patch {
        let mut p = Patch::default();
        loop {
            if self.rng.chance(1, 3) { p.age = Some(self.rng.below(6)); }
            if self.rng.chance(1, 4) { p.score = Some(self.rng.range(-3, 3)); }
            if self.rng.chance(1, 4) { p.nick = Some(self.nick()); }
            if self.rng.chance(1, 3) { p.tags = Some(self.tags()); }
            if self.rng.chance(1, 4) { p.attrs = Some(self.attrs()); }
            if self.rng.chance(1, 3) { p.body = Some(self.words()); }
            if self.rng.chance(1, 4) { p.emb = Some(self.emb()); }
            if self.rng.chance(1, 8) { p.uid = Some(if dup_uid { format!("u{}", 1 + self.rng.below(self.uid_ctr.max(1))) } else { self.fresh_uid() }); }
            if !patch_fields(&p).is_empty() { return p; }
        }
    }
    /// A long unflushed tail: after a flush, `run` consecutive ids that end up without a document (added and
    /// removed again, or burned by an add the unique index rejects), then an acknowledged add, then a little
    /// more activity — and no flush.  The acknowledged add is recoverable only by the reopen repair scan.
    fn hole_workload(&mut self, run: usize, rejected: bool) -> Workload {
        let mut init = self.ixset();
        init[0] = true;
        let mut ops = vec![];
        for _ in 0..(1 + self.rng.below(3)) { ops.push(Op::Add(self.doc())); }
        ops.push(Op::Flush);
        if self.rng.chance(1, 2) { ops.push(Op::Add(self.doc())); }
        for j in 0..run {
            if rejected || (j % 5 == 4) {
                let mut d = self.doc();
                d.uid = "u1".to_string();
                ops.push(Op::Add(d));
            } else {
                ops.push(Op::Add(self.doc()));
                ops.push(Op::RemoveLast);
            }
        }
        ops.push(Op::Add(self.doc()));
        match self.rng.below(4) {
            0 | 1 => ops.push(Op::Add(self.doc())),
            2 => { let s = self.rng.next(); ops.push(Op::Update(s, self.patch(false))) }
            _ => ops.push(Op::SaveExt(self.rng.below(1000))),
        }
        Workload { init, ops, bucket: 1024 * 1024 }
    }

    fn workload(&mut self, nops: usize, with_reopen: bool) -> Workload {
        let mut cfg = self.ixset();
        let init = cfg;
        let mut ops = vec![];
        // start with a few adds so that later ops have targets
        for _ in 0..(2 + self.rng.below(3)) { ops.push(Op::Add(self.doc())); }
        while ops.len() < nops {
            let r = self.rng.below(100);
            let op = match r {
                0..=24 => Op::Add(self.doc()),
                25..=27 if cfg[0] => {
                    // duplicate uid: must be rejected by the unique index and leave no trace
                    let mut d = self.doc();
                    d.uid = format!("u{}", 1 + self.rng.below(self.uid_ctr.max(1)));
                    Op::Add(d)
                }
                25..=42 => { let dup = cfg[0] && self.rng.chance(1, 2); let s = self.rng.next(); Op::Update(s, self.patch(dup)) }
                43..=49 => {
                    // a write that one index stage must reject, on documents that carry values in every index kind:
                    // nothing of it may remain in ANY index (the rollback closures), now and after flush + reopen
                    let mut kinds: Vec<u8> = vec![6];
                    if cfg[9] { kinds.extend([1, 2, 3, 4, 1, 3]); }
                    let kind = *self.rng.pick(&kinds);
                    let op = if kind != 6 && self.rng.chance(1, 3) { Op::AddBad(self.doc(), kind) } else {
                        let s = self.rng.next();
                        let mut p = self.patch(false);
                        // touch every index kind so that the rollback has something of each to restore
                        if self.rng.chance(2, 3) { p.body = Some(self.words()); p.tags = Some(self.tags()); p.age = Some(self.rng.below(6)); p.emb = Some(self.emb()); }
                        p.bad = kind;
                        Op::Update(s, p)
                    };
                    if self.rng.chance(1, 3) {
                        ops.push(op);
                        ops.push(Op::Flush);
                        if with_reopen { Op::Reopen(cfg, self.rng.chance(1, 3)) } else { Op::Flush }
                    } else { op }
                }
                50..=51 => Op::UpdateMissing(self.patch(false)),
                52..=63 => Op::Remove(self.rng.next()),
                64 => Op::RemoveMissing,
                65..=78 => Op::Flush,
                79..=82 => Op::SaveExt(self.rng.below(1000)),
                83..=86 => Op::CompactB(self.rng.below(7) as usize),
                87..=89 => Op::CompactT(7 + self.rng.below(2) as usize),
                _ if with_reopen => {
                    let mut n = cfg;
                    if self.rng.chance(2, 3) {
                        for _ in 0..(1 + self.rng.below(3)) { let i = self.rng.below(NIX as u64) as usize; n[i] = !n[i]; }
                    }
                    cfg = n;
                    Op::Reopen(n, self.rng.chance(1, 3))
                }
                _ => Op::Flush,
            };
            ops.push(op);
        }
        let bucket = *self.rng.pick(&[1024 * 1024usize, 1024 * 1024, 96, 200]);
        Workload { init, ops, bucket }
    }
}

// ------------------------------------------------------------------------------------------ environment
#[derive(Clone, Copy, Debug, PartialEq)]
enum Backend {
    Mem,
    Meta,
    Enc,
}
impl Backend {
    fn name(self) -> &'static str { match self { Backend::Mem => "InMemory", Backend::Meta => "MetaStore(InMemory)", Backend::Enc => "EncryptedStore(InMemory)" } }
}

struct Env {
    backend: Backend,
    raw: Arc<FaultStore<InMemory>>,
    fault: FaultHandle,
    flaky: Arc<FlakyState>,
    bucket: usize,
}
impl Env {
    fn new(backend: Backend, bucket: usize) -> Env {
        let (s, h) = FaultStore::wrap(InMemory::new());
        Env { backend, raw: Arc::new(s), fault: h, flaky: FlakyState::new(), bucket }
    }
    /// A fresh wrapper stack (fresh caches: a rebooted process) over the same backend bytes.
    fn stack(&self) -> Arc<dyn ObjectStore> {
        let base: Arc<dyn ObjectStore> = self.raw.clone();
        let mid: Arc<dyn ObjectStore> = match self.backend {
            Backend::Mem => base,
            Backend::Meta => Arc::new(MetaStoreBuilder::new(base, 10000).build()),
            Backend::Enc => Arc::new(EncryptedStoreBuilder::with_secret(base, 10000, [7u8; 32]).with_conditional_put().build()),
        };
        Arc::new(Flaky { inner: mid, state: self.flaky.clone() })
    }
    async fn snapshot(&self) -> Vec<(Path, bytes::Bytes)> {
        let inner = self.raw.inner();
        let mut out = vec![];
        let mut st = inner.list(None);
        let mut metas = vec![];
        while let Some(m) = st.next().await { metas.push(m.expect("list")); }
        for m in metas {
            let b = inner.get(&m.location).await.expect("get").bytes().await.expect("bytes");
            out.push((m.location, b));
        }
        out
    }
    async fn restored(&self, snap: &[(Path, bytes::Bytes)]) -> Env {
        let e = Env::new(self.backend, self.bucket);
        for (p, b) in snap { e.raw.inner().put(p, b.clone().into()).await.expect("restore"); }
        e
    }
    fn db_config(&self) -> DBConfig {
        DBConfig {
            name: "crashdb".into(), description: "verif C01/C02".into(),
            storage: StorageConfig { compress_level: 0, bucket_overload_size: self.bucket, ..Default::default() },
            lock: None,
        }
    }
}

struct Session {
    db: AndaDB,
    coll: Arc<Collection>,
}

async fn apply_ixs(c: &mut Collection, want: IxSet) -> Result<(), DBError> {
    for i in 0..NIX {
        let f = IXS[i].fields;
        match (IXS[i].kind, want[i]) {
            (IxKind::B, true) => c.create_btree_index_nx(f).await?,
            (IxKind::B, false) => { c.remove_btree_index(f).await?; }
            (IxKind::T, true) => c.create_bm25_index_nx(f).await?,
            (IxKind::T, false) => { c.remove_bm25_index(f).await?; }
            (IxKind::V, true) => c.create_hnsw_index_nx(f[0], HnswConfig { dimension: 4, ..Default::default() }).await?,
            (IxKind::V, false) => { c.remove_hnsw_index(f[0]).await?; }
        }
    }
    Ok(())
}

async fn open_coll(db: &AndaDB, want: IxSet) -> Result<Arc<Collection>, DBError> {
    db.open_or_create_collection(
        schema(),
        CollectionConfig { name: "docs".into(), description: "verif".into() },
        async move |c: &mut Collection| apply_ixs(c, want).await,
    )
    .await
}

async fn open_session(store: Arc<dyn ObjectStore>, cfg: DBConfig, want: IxSet) -> Result<Session, DBError> {
    let db = AndaDB::connect(store, cfg).await?;
    let coll = open_coll(&db, want).await?;
    Ok(Session { db, coll })
}

// ------------------------------------------------------------------------------------------ progress (the spec side)
#[derive(Clone, Debug)]
struct Inflight {
    id: u64,
    before: Option<DocVals>,
    after: Option<DocVals>,
    what: String,
}

#[derive(Clone, Debug, Default)]
struct Progress {
    created: bool,
    cur: BTreeMap<u64, DocVals>,
    flushed: BTreeMap<u64, DocVals>,
    flushed_max_id: u64,
    inflight: Option<Inflight>,
    ixs: IxSet,
    ixs_inflight: Option<IxSet>,
    ext: Option<u64>,
    ext_inflight: Option<u64>,
    ops_done: usize,
    universe: BTreeSet<(usize, Key)>,
    acked_ops: BTreeMap<&'static str, usize>,
    rejected: usize,
}
impl Progress {
    fn see(&mut self, d: &DocVals) {
        for ix in 0..NIX { for k in keys_of(ix, d) { self.universe.insert((ix, k)); } }
    }
    fn ack_flush(&mut self) {
        self.flushed = self.cur.clone();
        self.flushed_max_id = self.flushed_max_id.max(self.cur.keys().next_back().copied().unwrap_or(0));
    }
}

fn expected_rejection(e: &DBError) -> bool {
    matches!(e, DBError::AlreadyExists { .. } | DBError::NotFound { .. } | DBError::Schema { .. } | DBError::Index { .. })
        || format!("{e:?}").contains("AlreadyExists")
        || format!("{e:?}").contains("Duplicate")
        || format!("{e:?}").contains("already exists")
}

fn to_document(coll: &Collection, d: &DocVals) -> Document {
    let mut doc = Document::new(coll.schema());
    doc.set_id(0);
    for (k, fv) in d.fields() {
        if fv != Fv::Null { doc.set_field(&k, fv).expect("set_field"); }
    }
    doc
}

/// Outcome of executing one op on a live session.
enum Exec {
    Done,
    Rejected(String),
    Failed(String),
}

/// Executes `op`; updates `p` for acknowledged effects; on failure records the in-flight effect.
async fn exec_op(env: &Env, sess: &mut Option<Session>, op: &Op, p: &mut Progress, faulty: bool) -> Exec {
    let s = sess.as_ref().expect("session");
    let coll = s.coll.clone();
    let live: Vec<u64> = p.cur.keys().copied().collect();
    let fail = |p: &mut Progress, inf: Option<Inflight>, e: DBError| -> Exec {
        let msg = format!("{e:?}");
        let injected = msg.contains("injected") || msg.contains("Poisoned") || msg.contains("poisoned");
        // a deterministic rejection (unique violation, missing id) is not a crash, also on a run with a fault armed
        if faulty && (injected || !expected_rejection(&e)) { p.inflight = inf; Exec::Failed(msg) }
        else if expected_rejection(&e) { p.rejected += 1; if std::env::var("H_DEBUG").is_ok() { eprintln!("rejected: {e:?}"); } Exec::Rejected(format!("{e:?}")) }
        else { Exec::Failed(format!("{e:?}")) }
    };
    match op {
        Op::Add(d) => {
            p.see(d);
            let next = coll.max_document_id() + 1;
            match coll.add(to_document(&coll, d)).await {
                Ok(id) => { p.cur.insert(id, d.clone()); Exec::Done }
                Err(e) => fail(p, Some(Inflight { id: next, before: None, after: Some(d.clone()), what: "add".into() }), e),
            }
        }
        Op::AddBad(d, kind) => {
            if !bad_applicable(*kind, &p.ixs) { return Exec::Done; }
            p.see(d);
            let next = coll.max_document_id() + 1;
            let mut doc = to_document(&coll, d);
            let (k, fv) = bad_field(*kind);
            if doc.set_field(k, fv).is_err() { p.rejected += 1; return Exec::Rejected("set_field".into()); }
            match coll.add(doc).await {
                Ok(id) => Exec::Failed(format!("an add carrying an invalid value (kind {kind}) was accepted as id {id}")),
                Err(e) => fail(p, Some(Inflight { id: next, before: None, after: None, what: "add".into() }), e),
            }
        }
        Op::Update(sel, patch) => {
            if live.is_empty() { return Exec::Done; }
            if patch.bad != 0 && !bad_applicable(patch.bad, &p.ixs) { return Exec::Done; }
            let id = live[(*sel % live.len() as u64) as usize];
            let before = p.cur[&id].clone();
            let after = before.apply(patch);
            p.see(&after);
            match coll.update(id, patch_fields(patch)).await {
                Ok(_) if patch.bad != 0 => Exec::Failed(format!("an update of {id} carrying an invalid value (kind {}) was accepted", patch.bad)),
                Ok(_) => { p.cur.insert(id, after); Exec::Done }
                Err(e) => fail(p, Some(Inflight { id, before: Some(before), after: Some(after), what: "update".into() }), e),
            }
        }
        Op::UpdateMissing(patch) => {
            let id = coll.max_document_id() + 7;
            match coll.update(id, patch_fields(patch)).await {
                Ok(_) => Exec::Failed(format!("update of the missing id {id} succeeded")),
                Err(e) => fail(p, None, e),
            }
        }
        Op::Remove(sel) => {
            if live.is_empty() { return Exec::Done; }
            let id = live[(*sel % live.len() as u64) as usize];
            let before = p.cur[&id].clone();
            match coll.remove(id).await {
                Ok(_) => { p.cur.remove(&id); Exec::Done }
                Err(e) => fail(p, Some(Inflight { id, before: Some(before), after: None, what: "remove".into() }), e),
            }
        }
        Op::RemoveLast => {
            let Some(&id) = live.last() else { return Exec::Done; };
            let before = p.cur[&id].clone();
            match coll.remove(id).await {
                Ok(_) => { p.cur.remove(&id); Exec::Done }
                Err(e) => fail(p, Some(Inflight { id, before: Some(before), after: None, what: "remove".into() }), e),
            }
        }
        Op::RemoveMissing => {
            let id = coll.max_document_id() + 7;
            match coll.remove(id).await {
                Ok(None) => Exec::Done,
                Ok(Some(_)) => Exec::Failed(format!("remove of the missing id {id} returned a document")),
                Err(e) => fail(p, None, e),
            }
        }
        Op::Flush => match coll.flush(unix_ms()).await {
            Ok(_) => { p.ack_flush(); Exec::Done }
            Err(e) => fail(p, None, e),
        },
        Op::SaveExt(v) => {
            p.ext_inflight = Some(*v);
            match coll.save_extension("ext".into(), Fv::U64(*v)).await {
                Ok(()) => { p.ext = Some(*v); p.ext_inflight = None; Exec::Done }
                Err(e) => fail(p, None, e),
            }
        }
        Op::CompactB(i) => {
            if !p.ixs[*i] { return Exec::Done; }
            match coll.compact_btree_index(IXS[*i].fields).await { Ok(()) => Exec::Done, Err(e) => fail(p, None, e) }
        }
        Op::CompactT(i) => {
            if !p.ixs[*i] { return Exec::Done; }
            match coll.compact_bm25_index(IXS[*i].fields).await { Ok(()) => Exec::Done, Err(e) => fail(p, None, e) }
        }
        Op::Reopen(want, whole) => {
            p.ixs_inflight = Some(*want);
            let s = sess.take().unwrap();
            drop(coll);
            let closed = if *whole { s.db.close().await } else { s.db.close_collection("docs").await };
            if let Err(e) = closed { return fail(p, None, e); }
            p.ack_flush(); // a successful close is a flush
            let r = if *whole {
                drop(s);
                open_session(env.stack(), env.db_config(), *want).await
            } else {
                match open_coll(&s.db, *want).await { Ok(c) => Ok(Session { db: s.db, coll: c }), Err(e) => Err(e) }
            };
            match r {
                Ok(ns) => { *sess = Some(ns); p.ixs = *want; p.ixs_inflight = None; p.ack_flush(); Exec::Done }
                Err(e) => fail(p, None, e),
            }
        }
    }
}

// ------------------------------------------------------------------------------------------ dump + direct oracle
#[derive(Clone, Debug, Default)]
struct Dump {
    ids: Vec<u64>,
    len: usize,
    max_id: u64,
    docs: BTreeMap<u64, DocVals>,
    doc_errors: Vec<(u64, String)>,
    post: BTreeMap<usize, BTreeMap<Key, BTreeSet<u64>>>, // what the index answers (query_all_ids / search)
    raw: BTreeMap<usize, BTreeMap<Key, BTreeSet<u64>>>,  // what the index view holds (B-tree only)
    hnsw_len: Option<u64>,
    hnsw_self_miss: Vec<u64>,
    ext: Option<u64>,
    problems: Vec<String>,
}

fn fv_to_key(ix: usize, fv: &Fv, tuples: &BTreeMap<Vec<u8>, (String, u64)>) -> Key {
    match fv {
        Fv::U64(v) => if IXS[ix].kty == "TyI" { Key::I(*v as i64) } else { Key::U(*v) },
        Fv::I64(v) => Key::I(*v),
        Fv::Text(s) => Key::T(s.clone()),
        Fv::Bytes(b) => tuples.get(b).map(|(u, a)| Key::Tup(u.clone(), *a)).unwrap_or_else(|| Key::Unknown(format!("{b:02x?}"))),
        o => Key::Unknown(format!("{o:?}")),
    }
}

async fn dump(coll: &Collection, ixs: &IxSet, p: &Progress) -> Dump {
    let mut d = Dump { ids: coll.ids(), len: coll.len(), max_id: coll.max_document_id(), ..Default::default() };
    d.ext = coll.get_extension("ext").and_then(|v| match v { Fv::U64(x) => Some(x), _ => None });
    let top = d.max_id.max(p.cur.keys().next_back().copied().unwrap_or(0)).max(d.ids.last().copied().unwrap_or(0)) + 3;
    for id in 1..=top {
        match coll.get(id).await {
            Ok(doc) => match read_back(&doc) {
                Ok(v) => { d.docs.insert(id, v); }
                Err(e) => d.doc_errors.push((id, format!("undecodable shape: {e}"))),
            },
            Err(DBError::NotFound { .. }) => {}
            Err(e) => d.doc_errors.push((id, format!("{e:?}"))),
        }
        if coll.contains(id) != d.ids.contains(&id) { d.problems.push(format!("contains({id}) disagrees with ids()")); }
    }
    // key universe: everything the workload ever wrote + what is stored now
    let mut uni = p.universe.clone();
    for v in d.docs.values() { for ix in 0..NIX { for k in keys_of(ix, v) { uni.insert((ix, k)); } } }
    let mut tuples: BTreeMap<Vec<u8>, (String, u64)> = BTreeMap::new();
    for (ix, k) in &uni {
        if *ix == 6 && let Key::Tup(u, a) = k && let Some(Fv::Bytes(b)) = k.fv() { tuples.insert(b, (u.clone(), *a)); }
    }
    let n = d.docs.len().max(d.ids.len()) + 5;
    for ix in 0..NIX {
        if !ixs[ix] { continue; }
        let name = IXS[ix].fields.join("-");
        match IXS[ix].kind {
            IxKind::B => {
                let mut raw: BTreeMap<Key, BTreeSet<u64>> = BTreeMap::new();
                match coll.get_btree_index(IXS[ix].fields) {
                    Ok(view) => {
                        let all = RangeQuery::Not(Box::new(RangeQuery::Include(vec![])));
                        for (k, ids) in view.range_query_with(all, |fv, pks| (true, vec![(fv, pks.clone())])) {
                            let e = raw.entry(fv_to_key(ix, &k, &tuples)).or_default();
                            for id in ids { if !e.insert(id) { d.problems.push(format!("index {name}: duplicate posting ({k:?},{id})")); } }
                        }
                    }
                    Err(e) => d.problems.push(format!("index {name} not found: {e:?}")),
                }
                let mut keys: BTreeSet<Key> = uni.iter().filter(|(i, _)| *i == ix).map(|(_, k)| k.clone()).collect();
                keys.extend(raw.keys().cloned());
                let mut post = BTreeMap::new();
                for k in keys {
                    let Some(fv) = k.fv() else { continue; };
                    match coll.query_all_ids(Filter::Field((name.clone(), RangeQuery::Eq(fv)))).await {
                        Ok(ids) => {
                            let set: BTreeSet<u64> = ids.iter().copied().collect();
                            if set.len() != ids.len() || !ids.windows(2).all(|w| w[0] < w[1]) { d.problems.push(format!("query_all_ids({name} = {k:?}) not strictly ascending: {ids:?}")); }
                            if raw.get(&k).cloned().unwrap_or_default() != set { d.problems.push(format!("query_all_ids({name} = {k:?}) = {set:?} but the index holds {:?}", raw.get(&k))); }
                            if !set.is_empty() { post.insert(k, set); }
                        }
                        Err(e) => d.problems.push(format!("query_all_ids({name} = {k:?}) failed: {e:?}")),
                    }
                }
                for (k, v) in &raw { if k.fv().is_none() && !v.is_empty() { post.insert(k.clone(), v.clone()); } }
                d.post.insert(ix, post);
                d.raw.insert(ix, raw);
            }
            IxKind::T => {
                let mut post = BTreeMap::new();
                match coll.get_bm25_index(IXS[ix].fields) {
                    Ok(view) => {
                        let mut terms: BTreeSet<String> = WORDS.iter().map(|s| s.to_string()).collect();
                        terms.extend(NICKS.iter().map(|s| s.to_string()));
                        for t in terms {
                            let hits = view.search(&t, 100_000, None);
                            let set: BTreeSet<u64> = hits.iter().map(|h| h.0).collect();
                            if set.len() != hits.len() { d.problems.push(format!("bm25 {name} term {t}: duplicate hits {hits:?}")); }
                            if !set.is_empty() { post.insert(Key::T(t), set); }
                        }
                    }
                    Err(e) => d.problems.push(format!("index {name} not found: {e:?}")),
                }
                d.post.insert(ix, post);
            }
            IxKind::V => {
                let mut post = BTreeMap::new();
                match coll.get_hnsw_index(IXS[ix].fields[0]) {
                    Ok(view) => {
                        d.hnsw_len = Some(view.stats().num_elements);
                        let mut hits: BTreeSet<u64> = BTreeSet::new();
                        let mut queries: Vec<(Option<u64>, Vec<f32>)> = d.docs.iter().filter_map(|(id, v)| v.emb.as_ref().map(|e| (Some(*id), emb_f32(e)))).collect();
                        queries.push((None, vec![1.0, 1.0, 1.0, 1.0]));
                        queries.push((None, vec![50.0, 0.0, 30.0, 9.0]));
                        for (own, q) in queries {
                            let r = view.search(&q, n);
                            let set: BTreeSet<u64> = r.iter().map(|h| h.0).collect();
                            if set.len() != r.len() { d.problems.push(format!("hnsw search returned duplicate ids {r:?}")); }
                            if let Some(id) = own && !set.contains(&id) { d.hnsw_self_miss.push(id); }
                            hits.extend(set);
                        }
                        if !hits.is_empty() { post.insert(Key::Unit, hits); }
                    }
                    Err(e) => d.problems.push(format!("index {name} not found: {e:?}")),
                }
                d.post.insert(ix, post);
            }
        }
    }
    d
}

fn dump_term(ixs: &IxSet, d: &Dump) -> Value {
    let docs: Vec<Value> = d.docs.iter().map(|(id, v)| tup(vec![json!(id), v.term()])).collect();
    let post: Vec<Value> = (0..NIX).filter(|i| ixs[*i]).map(|i| {
        Value::Array(d.post.get(&i).map(|m| m.iter().map(|(k, ids)| tup(vec![k.term(), json!(ids.iter().collect::<Vec<_>>())])).collect()).unwrap_or_default())
    }).collect();
    let counts: Vec<Value> = (0..NIX).filter(|i| ixs[*i]).map(|i| if IXS[i].kind == IxKind::V { d.hnsw_len.map(|n| some(json!(n))).unwrap_or(Value::Null) } else { Value::Null }).collect();
    tup(vec![json!(d.ids), json!(d.len), Value::Array(docs), Value::Array(post), Value::Array(counts)])
}

/// C02's direct oracle: every index answers exactly f(stored documents); ids = fetchable documents; counts agree.
fn oracle_c02(ixs: &IxSet, d: &Dump) -> Vec<String> {
    let mut f = d.problems.clone();
    for (id, e) in &d.doc_errors { f.push(format!("document {id} is listed but cannot be read: {e}")); }
    let fetch: Vec<u64> = d.docs.keys().copied().collect();
    let mut listed = d.ids.clone();
    listed.sort_unstable();
    if listed != d.ids { f.push(format!("ids() not ascending: {:?}", d.ids)); }
    let listed_ok: Vec<u64> = listed.iter().copied().filter(|id| !d.doc_errors.iter().any(|(e, _)| e == id)).collect();
    if listed_ok != fetch { f.push(format!("ids() = {listed:?} but the fetchable documents are {fetch:?}")); }
    if d.len != d.ids.len() { f.push(format!("len() = {} but ids() has {}", d.len, d.ids.len())); }
    for ix in 0..NIX {
        if !ixs[ix] { continue; }
        let name = IXS[ix].fields.join("-");
        let mut want: BTreeMap<Key, BTreeSet<u64>> = BTreeMap::new();
        for (id, v) in &d.docs { for k in keys_of(ix, v) { want.entry(k).or_default().insert(*id); } }
        let got = d.post.get(&ix).cloned().unwrap_or_default();
        if IXS[ix].kind == IxKind::V {
            let owners = want.get(&Key::Unit).cloned().unwrap_or_default();
            let hits = got.get(&Key::Unit).cloned().unwrap_or_default();
            let phantom: Vec<u64> = hits.difference(&owners).copied().collect();
            if !phantom.is_empty() { f.push(format!("hnsw {name}: search returned {phantom:?} which are not live documents carrying a vector")); }
            if d.hnsw_len != Some(owners.len() as u64) { f.push(format!("hnsw {name}: holds {:?} entries, {} live documents carry a vector", d.hnsw_len, owners.len())); }
            if !d.hnsw_self_miss.is_empty() { f.push(format!("hnsw {name}: documents {:?} are not found by a search for their own vector with top_k >= index size", d.hnsw_self_miss)); }
            continue;
        }
        let keys: BTreeSet<&Key> = want.keys().chain(got.keys()).collect();
        for k in keys {
            let w = want.get(k).cloned().unwrap_or_default();
            let g = got.get(k).cloned().unwrap_or_default();
            if w != g {
                let ph: Vec<u64> = g.difference(&w).copied().collect();
                let ho: Vec<u64> = w.difference(&g).copied().collect();
                f.push(format!("index {name} key {k:?}: answers {g:?}, stored documents say {w:?} (phantom {ph:?}, missing {ho:?})"));
            }
        }
    }
    f
}

/// C01's direct oracle on one recovered dump.
fn oracle_c01(p: &Progress, d: &Dump) -> Vec<String> {
    let mut f = vec![];
    let inf_id = p.inflight.as_ref().map(|i| i.id);
    for (id, e) in &d.doc_errors { f.push(format!("document {id} unreadable after recovery (mixed or undecodable): {e}")); }
    for (id, want) in &p.cur {
        if Some(*id) == inf_id { continue; }
        match d.docs.get(id) {
            Some(got) if got == want => {}
            Some(got) => f.push(format!("{} document {id}: stored {got:?}, last acknowledged {want:?}", if p.flushed.get(id) == Some(want) { "flushed" } else { "acknowledged" })),
            None => f.push(format!("{} document {id} lost (last acknowledged {want:?})", if p.flushed.get(id) == Some(want) { "flushed" } else { "acknowledged" })),
        }
    }
    for (id, got) in &d.docs {
        if Some(*id) == inf_id || p.cur.contains_key(id) { continue; }
        f.push(format!("document {id} = {got:?} exists after recovery but no acknowledged or in-flight operation produced it (resurrected or invented)"));
    }
    if let Some(i) = &p.inflight {
        let got = d.docs.get(&i.id);
        if got != i.before.as_ref() && got != i.after.as_ref() {
            f.push(format!("in-flight {} of document {}: stored {got:?} is neither the state before {:?} nor after {:?}", i.what, i.id, i.before, i.after));
        }
    }
    if d.ext != p.ext && d.ext != p.ext_inflight.or(p.ext) { f.push(format!("extension: stored {:?}, acknowledged {:?} (in flight {:?})", d.ext, p.ext, p.ext_inflight)); }
    f
}

fn spec_term(p: &Progress, new_id: Option<u64>) -> Value {
    let m = |m: &BTreeMap<u64, DocVals>| Value::Array(m.iter().map(|(id, v)| tup(vec![json!(id), v.term()])).collect());
    let od = |o: &Option<DocVals>| o.as_ref().map(|v| some(v.term())).unwrap_or(Value::Null);
    let inf = p.inflight.as_ref().map(|i| some(tup(vec![json!(i.id), od(&i.before), od(&i.after)]))).unwrap_or(Value::Null);
    tup(vec![m(&p.cur), m(&p.flushed), inf, json!(p.flushed_max_id), new_id.map(|n| some(json!(n))).unwrap_or(Value::Null)])
}

fn obs_term(d: &Dump) -> Value {
    let docs: Vec<Value> = d.docs.iter().map(|(id, v)| tup(vec![json!(id), v.term()])).collect();
    let bad: Vec<u64> = d.doc_errors.iter().map(|(id, _)| *id).collect();
    tup(vec![json!(d.ids), Value::Array(docs), json!(bad)])
}

// ------------------------------------------------------------------------------------------ exploration
#[derive(Default)]
struct Out {
    lines: Vec<String>,
    failures: Vec<Value>,
    evals: u64,
    crash_points: u64,
    crashes_fired: u64,
    nested_points: u64,
    nested2_points: u64,
    flaky_points: u64,
    recoveries: u64,
    quiescent: u64,
    creation_recreate: u64,
    sentinels: u64,
    ops: BTreeMap<String, u64>,
    inflight_kinds: BTreeMap<String, u64>,
    rejected: u64,
    replayed_updates: u64,
    nontrivial: BTreeSet<String>,
    log_shapes: BTreeSet<String>,
    model_ctr: u64,
    index_changes: u64,
    multi_bucket: u64,
    max_mutations: u64,
}

struct Ctx<'a> {
    out: &'a mut Out,
    widx: usize,
    backend: Backend,
    model_every: u64,
    want_c01: bool,
}

impl Ctx<'_> {
    fn fail(&mut self, cls: &str, what: String, w: &Workload, at: Value) {
        if self.out.failures.len() < 40 {
            self.out.failures.push(json!({"class": cls, "what": what, "workload": self.widx, "backend": self.backend.name(), "at": at,
                "init_indexes": ixs_names(&w.init), "bucket_overload_size": w.bucket,
                "ops": w.ops.iter().map(|o| format!("{o:?}")).collect::<Vec<_>>()}));
        } else {
            self.out.failures.push(json!({"class": cls, "what": what.chars().take(200).collect::<String>(), "workload": self.widx, "at": at}));
        }
    }
    fn emit_c02(&mut self, ixs: &IxSet, d: &Dump, force: bool) {
        self.out.model_ctr += 1;
        if force || self.out.model_ctr % self.model_every == 0 {
            self.out.lines.push(json!({"kind": "c02", "case": tup(vec![ixs_term(ixs), dump_term(ixs, d)])}).to_string());
        }
    }
    fn emit_c01(&mut self, p: &Progress, d: &Dump, new_id: Option<u64>, force: bool) {
        if !self.want_c01 { return; }
        self.out.model_ctr += 1;
        if force || self.out.model_ctr % self.model_every == 0 {
            self.out.lines.push(json!({"kind": "c01", "case": tup(vec![spec_term(p, new_id), obs_term(d)])}).to_string());
        }
    }
}

fn ixs_names(ixs: &IxSet) -> Vec<String> {
    (0..NIX).filter(|i| ixs[*i]).map(|i| IXS[i].fields.join("-")).collect()
}

fn classify(path: &str) -> &'static str {
    if !path.starts_with("crashdb/docs/") { return "Db"; }
    let p = &path["crashdb/docs/".len()..];
    if p.starts_with("data/") { "Doc" }
    else if p == "meta.cbor" { "Meta" }
    else if p == "ids.cbor" { "Ids" }
    else if p == "storage_meta.cbor" { "Ckpt" }
    else if p.starts_with("mutation_intents/") { "Intent" }
    else if p == "alloc_watermark.cbor" { "Wm" }
    else if p.starts_with("btree_indexes/") || p.starts_with("bm25_indexes/") || p.starts_with("hnsw_indexes/") { "Idx" }
    else { "Other" }
}

/// Runs the workload (optionally with a crash point / an unknown-outcome fault armed).
/// Returns the progress and whether the run was cut short.
async fn run_workload(env: &Env, w: &Workload, ctx: &mut Ctx<'_>, quiescent_checks: bool, record_logs: bool) -> (Progress, Option<String>, Option<Session>) {
    let mut p = Progress::default();
    let faulty = !quiescent_checks;
    let mut sess = match open_session(env.stack(), env.db_config(), w.init).await {
        Ok(s) => { p.created = true; p.ixs = w.init; p.ack_flush(); Some(s) }
        Err(e) => return (p, Some(format!("create: {e:?}")), None),
    };
    for (i, op) in w.ops.iter().enumerate() {
        let log0 = if record_logs { env.fault.mutation_log().len() } else { 0 };
        let r = exec_op(env, &mut sess, op, &mut p, faulty).await;
        match r {
            Exec::Done | Exec::Rejected(_) => {
                p.ops_done = i + 1;
                if let Exec::Done = r { *p.acked_ops.entry(op.kind()).or_default() += 1; }
                if record_logs && env.backend == Backend::Mem {
                    let log = env.fault.mutation_log();
                    let shape: Vec<Value> = log[log0..].iter().map(|(o, path)| tup(vec![ctor(match o { FaultOp::Put => "LPut", FaultOp::Delete => "LDel", FaultOp::Copy => "LCopy", FaultOp::Rename => "LRename", _ => "LOther" }, vec![]), ctor(&format!("C{}", classify(path)), vec![])])).collect();
                    let kind = if let Exec::Rejected(_) = r { format!("{}_rejected", op.kind()) } else { op.kind().to_string() };
                    // an update/remove generated for an empty collection is skipped by exec_op (no call is made): it has
                    // no backend log and is not an instance of that operation's protocol
                    let skipped = shape.is_empty() && matches!(op, Op::Remove(_) | Op::RemoveLast | Op::Update(..));
                    if !skipped { ctx.out.log_shapes.insert(json!({"kind": "log", "case": tup(vec![json!(kind), Value::Array(shape)])}).to_string()); }
                }
                if quiescent_checks && let Some(s) = &sess {
                    let d = dump(&s.coll, &p.ixs, &p).await;
                    ctx.out.quiescent += 1;
                    ctx.out.evals += 1;
                    let mut f = oracle_c02(&p.ixs, &d);
                    // at a quiescent point of a live handle the documents are exactly the acknowledged ones
                    if d.docs != p.cur { f.push(format!("live handle: stored documents {:?} differ from the acknowledged ones {:?}", d.docs.keys().collect::<Vec<_>>(), p.cur.keys().collect::<Vec<_>>())); }
                    let bad = !f.is_empty();
                    for m in f { ctx.fail("index-inconsistent-live", m, w, json!({"after_op": i, "op": format!("{op:?}"), "rejected": matches!(r, Exec::Rejected(_))})); }
                    ctx.emit_c02(&p.ixs, &d, bad);
                    if d.docs.len() >= 2 { ctx.out.nontrivial.insert(format!("q{}:{}:{}", ctx.widx, i, d.docs.len())); }
                    if d.raw.values().any(|m| m.len() > 3) && w.bucket < 1000 { ctx.out.multi_bucket += 1; }
                }
            }
            Exec::Failed(e) => {
                if !faulty { ctx.fail("unexpected-error", format!("op {i} {op:?} failed on a fault-free run: {e}"), w, json!({"op": i})); }
                return (p, Some(format!("op {i} {}: {e}", op.kind())), sess);
            }
        }
    }
    (p, None, sess)
}

/// Reopen after a crash / fault, dump, judge C01 + C02, optionally write a sentinel.  Returns the dump.
async fn recover_and_judge(env: &Env, p0: &Progress, rixs: IxSet, w: &Workload, ctx: &mut Ctx<'_>, at: Value, sentinel: bool) -> Option<Dump> {
    ctx.out.recoveries += 1;
    // the application decides the index configuration it reopens with (the acknowledged one, or the one of the reopen in flight)
    let mut pp = p0.clone();
    pp.ixs = rixs;
    let p = &pp;
    let mut sess = match open_session(env.stack(), env.db_config(), p.ixs).await {
        Ok(s) => s,
        Err(DBError::AlreadyExists { .. }) if !p.created => {
            // documented remedy for a crash inside collection creation
            ctx.out.creation_recreate += 1;
            let db = match AndaDB::connect(env.stack(), env.db_config()).await { Ok(db) => db, Err(e) => { ctx.fail("reopen-failed", format!("database does not reopen: {e:?}"), w, at); return None; } };
            if let Err(e) = db.delete_collection("docs").await { ctx.fail("reopen-failed", format!("delete_collection after a crashed creation failed: {e:?}"), w, at); return None; }
            match open_coll(&db, p.ixs).await { Ok(c) => Session { db, coll: c }, Err(e) => { ctx.fail("reopen-failed", format!("re-creation after delete_collection failed: {e:?}"), w, at); return None; } }
        }
        Err(e) => { ctx.fail("reopen-failed", format!("collection does not reopen after the crash: {e:?}"), w, at); return None; }
    };
    let d = dump(&sess.coll, &p.ixs, p).await;
    ctx.out.evals += 1;
    if std::env::var("H_DUMP").is_ok() { eprintln!("at {at} ids {:?} acked {:?} max_id {} inflight {:?}", d.ids, p.cur.keys().collect::<Vec<_>>(), d.max_id, p.inflight.as_ref().map(|i| (i.id, i.what.clone()))); }
    let f1 = oracle_c01(p, &d);
    let f2 = oracle_c02(&p.ixs, &d);
    let bad1 = !f1.is_empty();
    let bad2 = !f2.is_empty();
    for m in f1 { ctx.fail(if m.contains("in-flight") { "inflight-mixed" } else if m.contains("flushed") { "flushed-lost" } else if m.contains("resurrected") { "resurrected" } else { "acked-lost" }, m, w, at.clone()); }
    for m in f2 { ctx.fail("index-inconsistent-after-recovery", m, w, at.clone()); }
    ctx.emit_c02(&p.ixs, &d, bad2);
    if d.docs.len() >= 2 && p.inflight.is_some() { ctx.out.nontrivial.insert(format!("r{}:{}", ctx.widx, at)); }
    let mut new_id = None;
    if sentinel {
        ctx.out.sentinels += 1;
        let sd = DocVals { uid: format!("sentinel{}", ctx.out.sentinels), age: 99, score: -9, nick: None, tags: vec!["red".into()], attrs: BTreeMap::new(), body: vec!["omega".into()], emb: Some([9, 9, 9, 9]) };
        match sess.coll.add(to_document(&sess.coll, &sd)).await {
            Ok(id) => {
                new_id = Some(id);
                if id <= p.flushed_max_id { ctx.fail("id-reused", format!("new document got id {id} but ids up to {} were acknowledged by a flush", p.flushed_max_id), w, at.clone()); }
                if d.docs.contains_key(&id) || d.ids.contains(&id) { ctx.fail("id-reused", format!("new document got id {id} which is owned by a live document"), w, at.clone()); }
                let mut ok = sess.coll.flush(unix_ms()).await.map(|_| ()).map_err(|e| format!("flush: {e:?}"));
                if ok.is_ok() { ok = sess.db.close().await.map_err(|e| format!("close: {e:?}")); }
                if let Err(e) = ok { ctx.fail("not-writable", format!("recovered database does not persist a new write: {e}"), w, at.clone()); }
                else {
                    match open_session(env.stack(), env.db_config(), p.ixs).await {
                        Ok(s2) => {
                            sess = s2;
                            let mut p2 = p.clone();
                            p2.see(&sd);
                            let d2 = dump(&sess.coll, &p.ixs, &p2).await;
                            ctx.out.evals += 1;
                            if d2.docs.get(&id) != Some(&sd) { ctx.fail("not-writable", format!("post-recovery write {id} not returned after close+reopen: {:?}", d2.docs.get(&id)), w, at.clone()); }
                            let mut exp = d.docs.clone(); exp.insert(id, sd.clone());
                            if d2.docs != exp { ctx.fail("acked-lost", format!("documents changed across a clean close+reopen after recovery: {:?} -> {:?}", exp.keys().collect::<Vec<_>>(), d2.docs.keys().collect::<Vec<_>>()), w, at.clone()); }
                            let f = oracle_c02(&p.ixs, &d2);
                            let bad = !f.is_empty();
                            for m in f { ctx.fail("index-inconsistent-after-recovery", format!("after post-recovery write + clean reopen: {m}"), w, at.clone()); }
                            ctx.emit_c02(&p.ixs, &d2, bad);
                        }
                        Err(e) => ctx.fail("reopen-failed", format!("clean reopen after the post-recovery write failed: {e:?}"), w, at.clone()),
                    }
                }
            }
            Err(e) => ctx.fail("not-writable", format!("recovered collection rejects a new document: {e:?}"), w, at.clone()),
        }
    }
    ctx.emit_c01(p, &d, new_id, bad1);
    let _ = sess.db.close().await;
    Some(d)
}

fn dbg_num(name: &str) -> Option<u64> { std::env::var(name).ok().and_then(|s| s.parse().ok()) }

struct Plan {
    every_k: u64,      // explore crash point k when k % every_k == phase
    nested_every: u64, // nested exploration for every n-th crashed k (0 = never)
    nested_all_j: bool,
    nested2: bool,
    flaky_every: u64,  // unknown-outcome fault at call n when n % flaky_every == phase (0 = never)
    sentinel_every: u64,
}

async fn explore(w: &Workload, backend: Backend, plan: &Plan, ctx: &mut Ctx<'_>, rng: &mut Rng) {
    // reference run (fault-free): quiescent C02 checks, mutation count, per-op mutation shapes
    let env = Env::new(backend, w.bucket);
    let (pref, err, sess) = run_workload(&env, w, ctx, true, true).await;
    if let Some(e) = err { ctx.fail("unexpected-error", format!("reference run stopped: {e}"), w, json!("reference")); return; }
    let total = env.fault.mutation_count();
    let calls = env.flaky.calls.load(std::sync::atomic::Ordering::Acquire);
    ctx.out.max_mutations = ctx.out.max_mutations.max(total);
    for (k, v) in &pref.acked_ops { *ctx.out.ops.entry(k.to_string()).or_default() += *v as u64; }
    ctx.out.rejected += pref.rejected as u64;
    if let Some(s) = sess {
        // clean close + reopen: a quiescent point after a clean reopen
        if s.db.close().await.is_ok() {
            let mut p = pref.clone(); p.ack_flush();
            recover_and_judge(&env, &p, p.ixs, w, ctx, json!("clean-close"), true).await;
        } else { ctx.fail("unexpected-error", "final close failed on a fault-free run".into(), w, json!("reference")); }
    }
    let phase = rng.below(plan.every_k.max(1));
    let mut crashed_seen = 0u64;
    // k = total never fires: the process is killed after the last operation returned, without close
    for k in 0..=total {
        if plan.every_k > 1 && k % plan.every_k != phase && k != total { continue; }
        if let Some(hk) = dbg_num("H_K") && hk != k { continue; }
        let env = Env::new(backend, w.bucket);
        env.fault.crash_after_mutations(k);
        let (p, err, sess) = run_workload(&env, w, ctx, false, false).await;
        drop(sess);
        ctx.out.crash_points += 1;
        if err.is_some() { ctx.out.crashes_fired += 1; }
        if let Some(i) = &p.inflight { *ctx.out.inflight_kinds.entry(i.what.clone()).or_default() += 1; }
        let snap = env.snapshot().await;
        env.fault.reset();
        let sentinel = plan.sentinel_every > 0 && k % plan.sentinel_every == 0;
        // the restarted application asks for the index set of the reopen that was in flight (even k) or the acknowledged one (odd k)
        let rixs = if k % 2 == 0 { p.ixs_inflight.unwrap_or(p.ixs) } else { p.ixs };
        recover_and_judge(&env, &p, rixs, w, ctx, json!({"crash_after_mutation": k, "stopped": err, "reopen_with": ixs_names(&rixs)}), sentinel).await;
        if err.is_none() { continue; }
        crashed_seen += 1;
        if plan.nested_every == 0 || crashed_seen % plan.nested_every != 0 { continue; }
        // nested: crash the recovery itself after every mutation j
        let e0 = env.restored(&snap).await;
        let _ = open_session(e0.stack(), e0.db_config(), rixs).await.map(|s| s);
        let m = e0.fault.mutation_count();
        // long unflushed tails (hole workloads) have hundreds of crash points: sample their nested crashes
        let long = w.ops.len() > 40;
        if long && crashed_seen % (plan.nested_every * 4) != 0 { continue; }
        let js: Vec<u64> = if plan.nested_all_j && !long { (0..m).collect() } else { let mut v: Vec<u64> = (0..m).collect(); rng.shuffle(&mut v); v.truncate(3); v };
        for j in js {
            if let Some(hj) = dbg_num("H_J") && hj != j { continue; }
            let e1 = env.restored(&snap).await;
            e1.fault.crash_after_mutations(j);
            let r = open_session(e1.stack(), e1.db_config(), rixs).await;
            let recovered_clean = r.is_ok();
            if dbg_num("H_J").is_some() {
                eprintln!("first crash left: {:?}", snap.iter().map(|(p, b)| format!("{p}:{}", b.len())).collect::<Vec<_>>());
                eprintln!("acked ixs {:?} inflight {:?}", ixs_names(&p.ixs), p.inflight);
                eprintln!("recovery crashed after {j}: result {:?}", r.as_ref().err());
                for (o, path) in e1.fault.mutation_log() { eprintln!("   {o:?} {path}"); }
            }
            drop(r);
            ctx.out.nested_points += 1;
            let snap2 = if plan.nested2 { Some(e1.snapshot().await) } else { None };
            e1.fault.reset();
            recover_and_judge(&e1, &p, rixs, w, ctx, json!({"crash_after_mutation": k, "then_crash_recovery_after": j}), false).await;
            if let Some(s2) = snap2 && !recovered_clean && rng.chance(1, 3) {
                let e2 = e1.restored(&s2).await;
                let _ = open_session(e2.stack(), e2.db_config(), rixs).await.map(|s| s);
                let m2 = e2.fault.mutation_count();
                if m2 > 0 {
                    let j2 = rng.below(m2);
                    let e3 = e1.restored(&s2).await;
                    e3.fault.crash_after_mutations(j2);
                    let r = open_session(e3.stack(), e3.db_config(), rixs).await;
                    drop(r);
                    e3.fault.reset();
                    ctx.out.nested2_points += 1;
                    recover_and_judge(&e3, &p, rixs, w, ctx, json!({"crash_after_mutation": k, "then_crash_recovery_after": j, "then_again_after": j2}), false).await;
                }
            }
        }
    }
    // unknown-outcome faults: the n-th mutating call lands and reports failure
    if plan.flaky_every > 0 {
        let phase = rng.below(plan.flaky_every);
        for n in 0..calls {
            if n % plan.flaky_every != phase { continue; }
            if w.ops.len() > 40 && (n / plan.flaky_every) % 4 != 0 { continue; }
            let env = Env::new(backend, w.bucket);
            env.flaky.arm(n);
            let (p, err, sess) = run_workload(&env, w, ctx, false, false).await;
            env.flaky.disarm();
            ctx.out.flaky_points += 1;
            let on = env.flaky.fired_on.lock().unwrap().clone();
            // the live database object is kept: a poisoned handle must be replaced by open, a healthy one must be consistent
            let rixs = if n % 2 == 0 { p.ixs_inflight.unwrap_or(p.ixs) } else { p.ixs };
            let at = json!({"unknown_outcome_call": n, "on": on, "stopped": err, "reopen_with": ixs_names(&rixs)});
            let mut p = p; p.ixs = rixs;
            if let Some(s) = sess {
                match open_coll(&s.db, p.ixs).await {
                    Ok(c) => {
                        let d = dump(&c, &p.ixs, &p).await;
                        ctx.out.evals += 1;
                        let f1 = oracle_c01(&p, &d);
                        let f2 = oracle_c02(&p.ixs, &d);
                        let (b1, b2) = (!f1.is_empty(), !f2.is_empty());
                        for m in f1 { ctx.fail("unknown-outcome-durability", m, w, at.clone()); }
                        for m in f2 { ctx.fail("unknown-outcome-index-inconsistent", m, w, at.clone()); }
                        ctx.emit_c02(&p.ixs, &d, b2);
                        ctx.emit_c01(&p, &d, None, b1);
                        let _ = s.db.close().await;
                    }
                    Err(e) => {
                        // a failed open/close in the same process: fall back to a fresh process
                        drop(s);
                        let _ = e;
                        recover_and_judge(&env, &p, rixs, w, ctx, at.clone(), false).await;
                        continue;
                    }
                }
            }
            // and a fresh process over the same backend must agree as well
            recover_and_judge(&env, &p, rixs, w, ctx, at, false).await;
        }
    }
}

// ------------------------------------------------------------------------------------------ main
fn main() {
    let args: Vec<String> = std::env::args().collect();
    let mode = args.get(1).map(|s| s.as_str()).unwrap_or("");
    if mode != "c01" && mode != "c02" {
        eprintln!("usage: h_collcrash <c01|c02> --out FILE [--workloads N] [--ops N] [--every-k N] [--nested-every N] [--nested-all] [--flaky-every N] [--backends mem,meta,enc] [--model-every N] [--threads N] [--only W]");
        std::process::exit(2);
    }
    let a = &args[2..];
    let out_path = arg_value(a, "--out").expect("--out");
    let num = |f: &str, d: u64| arg_value(a, f).and_then(|s| s.parse::<u64>().ok()).unwrap_or(d);
    let workloads = num("--workloads", 20) as usize;
    let nops = num("--ops", 18) as usize;
    let threads = num("--threads", 16) as usize;
    let model_every = num("--model-every", 8);
    let only = arg_value(a, "--only").and_then(|s| s.parse::<usize>().ok());
    let backends: Vec<Backend> = arg_value(a, "--backends").unwrap_or("mem".into()).split(',').map(|s| match s { "mem" => Backend::Mem, "meta" => Backend::Meta, "enc" => Backend::Enc, o => panic!("backend {o}") }).collect();
    let plan = Arc::new(Plan {
        every_k: num("--every-k", 1),
        nested_every: num("--nested-every", 0),
        nested_all_j: a.iter().any(|s| s == "--nested-all"),
        nested2: a.iter().any(|s| s == "--nested2"),
        flaky_every: num("--flaky-every", 0),
        sentinel_every: num("--sentinel-every", 4),
    });
    let hole_every = match num("--hole-every", 8) as usize { 0 => 0, n => n.max(3) };
    let quiescent_only = mode == "c02" && a.iter().any(|s| s == "--quiescent-only");
    let mut master = Rng::from_env();
    let mut jobs: Vec<(usize, Workload, Backend, Rng)> = vec![];
    for i in 0..workloads {
        let mut g = Gen { rng: master.fork(), uid_ctr: 0 };
        let with_reopen = i % 4 != 3;
        // every 8th workload is a long unflushed tail with a run of holes (lengths below, at and above the
        // allocation-watermark stride) before an acknowledged add
        const RUNS: [usize; 8] = [8, 17, 66, 3, 33, 12, 130, 64];
        let w = if hole_every > 0 && i % hole_every == hole_every - 3 { g.hole_workload(RUNS[(i / hole_every) % RUNS.len()], (i / hole_every) % 2 == 1) } else { g.workload(nops.max(6) - (i % 5), with_reopen) };
        let b = backends[i % backends.len()];
        jobs.push((i, w, b, g.rng.fork()));
    }
    if let Some(o) = only { jobs.retain(|j| j.0 == o); }
    let jobs = Arc::new(std::sync::Mutex::new(jobs.into_iter().rev().collect::<Vec<_>>()));
    let (tx, rx) = std::sync::mpsc::channel::<(usize, Out)>();
    let want_c01 = mode == "c01";
    let mut handles = vec![];
    for _ in 0..threads.max(1) {
        let jobs = jobs.clone();
        let tx = tx.clone();
        let plan = plan.clone();
        handles.push(std::thread::Builder::new().stack_size(16 << 20).spawn(move || {
            let rt = tokio::runtime::Builder::new_current_thread().enable_all().build().unwrap();
            loop {
                let job = { jobs.lock().unwrap().pop() };
                let Some((i, w, b, mut rng)) = job else { break };
                let mut out = Out::default();
                let res = rt.block_on(async {
                    let mut ctx = Ctx { out: &mut out, widx: i, backend: b, model_every, want_c01 };
                    let fut = async {
                        if quiescent_only {
                            let env = Env::new(b, w.bucket);
                            let (p, err, sess) = run_workload(&env, &w, &mut ctx, true, true).await;
                            if let Some(e) = err { ctx.fail("unexpected-error", format!("reference run stopped: {e}"), &w, json!("reference")); }
                            for (k, v) in &p.acked_ops { *ctx.out.ops.entry(k.to_string()).or_default() += *v as u64; }
                            ctx.out.rejected += p.rejected as u64;
                            if let Some(s) = sess { let _ = s.db.close().await; }
                        } else {
                            explore(&w, b, &plan, &mut ctx, &mut rng).await;
                        }
                    };
                    AssertUnwindSafe(fut).catch_unwind().await
                });
                if let Err(pn) = res {
                    let msg = pn.downcast_ref::<String>().cloned().or_else(|| pn.downcast_ref::<&str>().map(|s| s.to_string())).unwrap_or("panic".into());
                    out.failures.push(json!({"class": "panic", "what": format!("panic while exploring workload {i}: {msg}"), "workload": i, "ops": w.ops.iter().map(|o| format!("{o:?}")).collect::<Vec<_>>()}));
                }
                tx.send((i, out)).unwrap();
            }
        }).unwrap());
    }
    drop(tx);
    let mut results: Vec<(usize, Out)> = rx.iter().collect();
    for h in handles { let _ = h.join(); }
    results.sort_by_key(|r| r.0);
    let mut f = std::io::BufWriter::new(std::fs::File::create(&out_path).expect("out"));
    let mut tot = Out::default();
    let mut shapes = BTreeSet::new();
    for (_, o) in results {
        for l in &o.lines { writeln!(f, "{l}").unwrap(); }
        shapes.extend(o.log_shapes);
        tot.failures.extend(o.failures);
        tot.evals += o.evals; tot.crash_points += o.crash_points; tot.crashes_fired += o.crashes_fired;
        tot.nested_points += o.nested_points; tot.nested2_points += o.nested2_points; tot.flaky_points += o.flaky_points;
        tot.recoveries += o.recoveries; tot.quiescent += o.quiescent; tot.creation_recreate += o.creation_recreate;
        tot.sentinels += o.sentinels; tot.rejected += o.rejected; tot.multi_bucket += o.multi_bucket;
        tot.max_mutations = tot.max_mutations.max(o.max_mutations);
        for (k, v) in o.ops { *tot.ops.entry(k).or_default() += v; }
        for (k, v) in o.inflight_kinds { *tot.inflight_kinds.entry(k).or_default() += v; }
        tot.nontrivial.extend(o.nontrivial);
    }
    for s in &shapes { writeln!(f, "{s}").unwrap(); }
    let nfail = tot.failures.len();
    tot.failures.truncate(60);
    let summary = json!({
        "kind": "summary", "mode": mode, "workloads": workloads, "backends": backends.iter().map(|b| b.name()).collect::<Vec<_>>(),
        "evaluations": tot.evals, "quiescent_points": tot.quiescent, "crash_points": tot.crash_points, "crashes_fired": tot.crashes_fired,
        "nested_points": tot.nested_points, "nested2_points": tot.nested2_points, "unknown_outcome_points": tot.flaky_points,
        "recoveries": tot.recoveries, "creation_recreate": tot.creation_recreate, "post_recovery_writes": tot.sentinels,
        "acked_ops": tot.ops, "rejected_ops": tot.rejected, "inflight_kinds": tot.inflight_kinds, "max_mutations_per_workload": tot.max_mutations,
        "multi_bucket_points": tot.multi_bucket, "log_shapes": shapes.len(),
        "distinct_nontrivial": tot.nontrivial.len(), "oracle_failures": nfail, "failures": tot.failures,
    });
    writeln!(f, "{summary}").unwrap();
    f.flush().unwrap();
    eprintln!("h_collcrash {mode}: {} evaluations, {} crash points ({} fired), {} nested, {} unknown-outcome, {} failures", tot.evals, tot.crash_points, tot.crashes_fired, tot.nested_points, tot.flaky_points, nfail);
}
