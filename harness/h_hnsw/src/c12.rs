//! C12 — vector search is sound, distance-ordered, and keeps its recall floor.
//!
//! Runs the real `anda_db_hnsw::HnswIndex` on generated insert/remove/re-insert histories,
//! persistence round trips and every crash prefix of the node/ids/metadata(/purge-delete)
//! write sequence of a flush.  Three outputs:
//!  * `model` lines: the observed graph, per-(query,node) distance keys and the observed
//!    results / loaded state / removal, for the Coq model to recompute;
//!  * direct-oracle failures (an independent reading of the property on the implementation);
//!  * `recall` lines: recall@10 on the documented workloads (a measurement).
use anda_db_hnsw::{
    DistanceMetric, HnswConfig, HnswError, HnswIndex, HnswNode, SelectNeighborsStrategy,
    half::bf16,
};
use futures::executor::block_on;
use h_common::{Rng, arg_value, some, tup};
use serde::Deserialize;
use serde_json::{Value, json};
use std::cell::RefCell;
use std::collections::{BTreeMap, BTreeSet};
use std::io::Write as _;
use std::panic::{AssertUnwindSafe, catch_unwind};

const NANKEY: i64 = 1 << 32;

/// Order key of a distance in the order of `OrderedFloat<f32>` (−0 = +0, NaN greatest).
pub(crate) fn key(d: f32) -> i64 {
    if d.is_nan() {
        return NANKEY;
    }
    let b = (d + 0.0).to_bits() as i32;
    (if b < 0 { b ^ 0x7fff_ffff } else { b }) as i64
}

pub(crate) fn round_bf16(v: &[f32]) -> Vec<f32> {
    v.iter().map(|x| bf16::from_f32(*x).to_f32()).collect()
}

/// Independent reading of "the configured metric" in f64.
pub(crate) fn ref_metric(m: DistanceMetric, a: &[f32], b: &[f32]) -> f64 {
    let z = a.iter().zip(b).map(|(x, y)| (*x as f64, *y as f64));
    match m {
        DistanceMetric::Euclidean => z.map(|(x, y)| (x - y) * (x - y)).sum::<f64>().sqrt(),
        DistanceMetric::Manhattan => z.map(|(x, y)| (x - y).abs()).sum::<f64>(),
        DistanceMetric::InnerProduct => -z.map(|(x, y)| x * y).sum::<f64>(),
        DistanceMetric::Cosine => {
            let (mut dot, mut na, mut nb) = (0.0, 0.0, 0.0);
            for (x, y) in z {
                dot += x * y;
                na += x * x;
                nb += y * y;
            }
            let (na, nb) = (na.sqrt(), nb.sqrt());
            if na < f32::EPSILON as f64 || nb < f32::EPSILON as f64 {
                1.0
            } else {
                1.0 - (dot / (na * nb)).clamp(-1.0, 1.0)
            }
        }
    }
}

pub(crate) fn metric_name(m: DistanceMetric) -> &'static str {
    match m {
        DistanceMetric::Euclidean => "euclidean",
        DistanceMetric::Cosine => "cosine",
        DistanceMetric::InnerProduct => "inner_product",
        DistanceMetric::Manhattan => "manhattan",
    }
}

#[derive(Deserialize)]
pub(crate) struct MetaPeek {
    pub(crate) entry_point: (u64, u8),
    #[serde(default)]
    pub(crate) removed_nodes: Vec<u64>,
}

pub(crate) fn decode_meta(bytes: &[u8]) -> Option<MetaPeek> {
    cbor2::from_reader(bytes).ok()
}

#[derive(Clone)]
pub(crate) enum W {
    Node(u64, Vec<u8>),
    Ids(Vec<u8>, Vec<u64>),
    Meta(Vec<u8>),
    Del(u64),
}

#[derive(Clone, Default)]
pub(crate) struct Disk {
    pub(crate) nodes: BTreeMap<u64, Vec<u8>>,
    pub(crate) ids: Vec<u8>,
    pub(crate) ids_list: Vec<u64>,
    pub(crate) meta: Vec<u8>,
}

impl Disk {
    pub(crate) fn apply(&mut self, w: &W) {
        match w {
            W::Node(id, b) => {
                self.nodes.insert(*id, b.clone());
            }
            W::Ids(b, l) => {
                self.ids = b.clone();
                self.ids_list = l.clone();
            }
            W::Meta(b) => self.meta = b.clone(),
            W::Del(id) => {
                self.nodes.remove(id);
            }
        }
    }
}

/// The writes one `Hnsw::flush` of the collection layer performs: flush_with (nodes, ids,
/// metadata) and then the deletes of purge_removed_nodes.  The index is committed.
fn flush_writes(index: &HnswIndex, now: u64) -> Vec<W> {
    let ws: RefCell<Vec<W>> = RefCell::new(Vec::new());
    let ids_now = index.node_ids();
    let r = block_on(index.flush_with(
        now,
        |id, data| {
            ws.borrow_mut().push(W::Node(id, data));
            async { Ok(true) }
        },
        |data| {
            ws.borrow_mut().push(W::Ids(data, ids_now.clone()));
            async { Ok(()) }
        },
        |data| {
            ws.borrow_mut().push(W::Meta(data));
            async { Ok(()) }
        },
    ));
    r.expect("flush_with failed");
    block_on(index.purge_removed_nodes(async |id| {
        ws.borrow_mut().push(W::Del(id));
        Ok(true)
    }))
    .expect("purge failed");
    ws.into_inner()
}

/// Entry point and tombstones as the next metadata blob would record them, without
/// committing anything (the metadata callback fails, so the flush is abandoned).
pub(crate) fn peek_meta(index: &HnswIndex, fallback: &[u8]) -> Option<MetaPeek> {
    let cap: RefCell<Option<Vec<u8>>> = RefCell::new(None);
    let _ = block_on(index.flush_with(
        0,
        |_, _| async { Ok(true) },
        |_| async { Ok(()) },
        |data| {
            *cap.borrow_mut() = Some(data);
            async { Err("peek".into()) }
        },
    ));
    let bytes = cap.into_inner();
    match bytes {
        Some(b) => decode_meta(&b),
        None => decode_meta(fallback),
    }
}

pub(crate) fn load(disk: &Disk) -> Result<HnswIndex, HnswError> {
    let nodes = &disk.nodes;
    block_on(HnswIndex::load_all(
        disk.meta.as_slice(),
        disk.ids.as_slice(),
        async |id| Ok(nodes.get(&id).cloned()),
    ))
}

pub(crate) type JNode = (u64, u8, Vec<Vec<u64>>);

pub(crate) struct Dump {
    pub(crate) nodes: Vec<JNode>,
    pub(crate) vectors: BTreeMap<u64, Vec<bf16>>,
    pub(crate) missing: Vec<u64>,
}

pub(crate) fn dump(index: &HnswIndex) -> Dump {
    let mut d = Dump { nodes: vec![], vectors: BTreeMap::new(), missing: vec![] };
    for id in index.node_ids() {
        match index.get_node_with(id, |n| n.clone()) {
            Ok(n) => {
                d.nodes.push((
                    id,
                    n.layer,
                    n.neighbors.iter().map(|l| l.iter().map(|(i, _)| *i).collect()).collect(),
                ));
                d.vectors.insert(id, n.vector.clone());
            }
            Err(_) => d.missing.push(id),
        }
    }
    d
}

pub(crate) fn jnodes(ns: &[JNode]) -> Value {
    Value::Array(
        ns.iter()
            .map(|(id, l, nb)| tup(vec![json!(id), json!(l), json!(nb)]))
            .collect(),
    )
}

pub(crate) struct Out {
    pub(crate) file: std::io::BufWriter<std::fs::File>,
    pub(crate) failures: Vec<Value>,
    pub(crate) counts: BTreeMap<String, u64>,
    pub(crate) evaluations: u64,
}

impl Out {
    pub(crate) fn line(&mut self, v: &Value) {
        writeln!(self.file, "{}", v).unwrap();
    }
    pub(crate) fn fail(&mut self, class: &str, what: String, detail: Value) {
        *self.counts.entry(format!("fail:{class}")).or_default() += 1;
        if self.failures.len() < 40 {
            self.failures.push(json!({"class": class, "what": what, "detail": detail}));
        }
    }
    pub(crate) fn count(&mut self, k: &str) {
        *self.counts.entry(k.to_string()).or_default() += 1;
    }
}

#[derive(Clone)]
pub(crate) struct Cfg {
    pub(crate) dim: usize,
    pub(crate) metric: DistanceMetric,
    pub(crate) strategy: SelectNeighborsStrategy,
    pub(crate) reconnect: bool,
    pub(crate) m: u8,
    pub(crate) ef_c: usize,
    pub(crate) ef_s: usize,
    pub(crate) max_layers: u8,
}

impl Cfg {
    pub(crate) fn hnsw(&self) -> HnswConfig {
        HnswConfig {
            dimension: self.dim,
            max_layers: self.max_layers,
            max_connections: self.m,
            ef_construction: self.ef_c,
            ef_search: self.ef_s,
            distance_metric: self.metric,
            scale_factor: None,
            select_neighbors_strategy: self.strategy,
            reconnect_on_delete: self.reconnect,
        }
    }
    pub(crate) fn json(&self) -> Value {
        json!({"dim": self.dim, "metric": metric_name(self.metric),
               "strategy": format!("{:?}", self.strategy), "reconnect": self.reconnect,
               "m": self.m, "ef_construction": self.ef_c, "ef_search": self.ef_s,
               "max_layers": self.max_layers})
    }
}

/// One query against `index`, judged against `live` (the harness's own bf16-rounded copy of
/// the vectors that should be in the index).  Returns the observation for the model.
#[allow(clippy::too_many_arguments)]
pub(crate) fn check_query(
    out: &mut Out,
    index: &HnswIndex,
    cfg: &Cfg,
    live: &BTreeMap<u64, Vec<f32>>,
    q: &[f32],
    k: usize,
    ctx: &Value,
) -> (i64, Vec<(u64, f32)>) {
    let res = index.search_f32(q, k).map_err(|e| (if matches!(e, HnswError::NotFound { .. }) { 1 } else { 2 }, e.to_string()));
    check_results(out, cfg, live, q, k, res, ctx)
}

/// Judge one result list (from the index or from the collection-level wrapper).
#[allow(clippy::too_many_arguments)]
pub(crate) fn check_results(
    out: &mut Out,
    cfg: &Cfg,
    live: &BTreeMap<u64, Vec<f32>>,
    q: &[f32],
    k: usize,
    res: Result<Vec<(u64, f32)>, (i64, String)>,
    ctx: &Value,
) -> (i64, Vec<(u64, f32)>) {
    out.evaluations += 1;
    let valid = q.len() == cfg.dim && q.iter().all(|x| x.is_finite());
    let replay = |rs: &Value| json!({"context": ctx, "config": cfg.json(), "query": q, "k": k, "observed": rs,
        "live_ids": live.keys().collect::<Vec<_>>()});
    match res {
        Err((code, e)) => {
            if valid || k == 0 {
                out.fail("search-error", format!("search_f32 failed on a valid query: {e}"), replay(&json!(null)));
            }
            (code, vec![])
        }
        Ok(rs) => {
            let obs = json!(rs.iter().map(|(i, d)| (i, d.to_bits())).collect::<Vec<_>>());
            if !valid && k > 0 {
                out.fail("invalid-query-accepted", "search_f32 accepted a malformed query".into(), replay(&obs));
            }
            if rs.len() > k {
                out.fail("more-than-k", format!("{} results for k={}", rs.len(), k), replay(&obs));
            }
            let ids: BTreeSet<u64> = rs.iter().map(|r| r.0).collect();
            if ids.len() != rs.len() {
                out.fail("duplicate-id", "an id is returned twice".into(), replay(&obs));
            }
            for (id, d) in &rs {
                match live.get(id) {
                    None => out.fail("dead-id", format!("id {id} is not a vector currently in the index"), replay(&obs)),
                    Some(v) => {
                        if valid {
                            let stored: Vec<bf16> = v.iter().map(|x| bf16::from_f32(*x)).collect();
                            let own = cfg.metric.compute_mixed(q, &stored).unwrap_or(f32::NAN);
                            if own.to_bits() != d.to_bits() && !(own.is_nan() && d.is_nan()) {
                                out.fail("wrong-distance", format!("id {id}: reported {d}, metric(query, stored vector) = {own}"), replay(&obs));
                            }
                            let r = ref_metric(cfg.metric, q, v);
                            if r.is_finite() && ((*d as f64) - r).abs() > 1e-3 * r.abs().max(1.0) {
                                out.fail("metric-mismatch", format!("id {id}: reported {d}, {} distance in f64 = {r}", metric_name(cfg.metric)), replay(&obs));
                            }
                        }
                    }
                }
            }
            for w in rs.windows(2) {
                if !(w[0].1 <= w[1].1) && !(w[1].1.is_nan()) {
                    out.fail("not-ordered", format!("distance {} before {}", w[0].1, w[1].1), replay(&obs));
                    break;
                }
            }
            if k > 0 && valid && !live.is_empty() && rs.is_empty() {
                out.fail("empty-result", "no result from a non-empty index".into(), replay(&obs));
            }
            (0, rs)
        }
    }
}

pub(crate) fn gen_vector(rng: &mut Rng, dim: usize, style: u64, centers: &[Vec<f32>]) -> Vec<f32> {
    let v: Vec<f32> = match style {
        0 => (0..dim).map(|_| (rng.below(1 << 24) as f32) / (1u64 << 24) as f32).collect(),
        1 => {
            let c = rng.pick(centers).clone();
            c.iter().map(|x| x + ((rng.below(2001) as f32) - 1000.0) / 20000.0).collect()
        }
        2 => (0..dim).map(|_| rng.range(-2, 2) as f32).collect(), // lattice: many exact ties
        _ => (0..dim).map(|_| ((rng.below(2001) as f32) - 1000.0) / 10.0).collect(),
    };
    round_bf16(&v)
}

pub(crate) fn gen_query(rng: &mut Rng, cfg: &Cfg, style: u64, centers: &[Vec<f32>], live: &BTreeMap<u64, Vec<f32>>) -> (Vec<f32>, &'static str) {
    let dim = cfg.dim;
    match rng.below(10) {
        0 | 1 if !live.is_empty() => {
            let ids: Vec<&u64> = live.keys().collect();
            (live[*rng.pick(&ids)].clone(), "stored")
        }
        2 => (vec![0.0; dim], "zero"),
        3 => {
            let mut v = gen_vector(rng, dim, style, centers);
            for x in v.iter_mut() {
                *x *= 1.0e6;
            }
            (v, "scaled-1e6")
        }
        4 => {
            let mut v = vec![0.0f32; dim];
            v[rng.below(dim as u64) as usize] = if rng.chance(1, 2) { 3.0e15 } else { -3.0e15 };
            (v, "one-huge-coordinate")
        }
        5 => {
            let v = gen_vector(rng, dim, style, centers);
            (v.iter().map(|x| -x * 7.0 - 3.0).collect(), "reflected")
        }
        _ => {
            // not bf16-rounded: the query stays f32
            let v = gen_vector(rng, dim, style, centers);
            (v.iter().map(|x| x + 1.0e-4).collect(), "in-distribution")
        }
    }
}

pub(crate) fn search_case(
    out: &mut Out,
    index: &HnswIndex,
    cfg: &Cfg,
    entry: (u64, u8),
    queries: &[(Vec<f32>, usize, (i64, Vec<(u64, f32)>))],
    tag: &str,
) {
    let d = dump(index);
    let mut jq = vec![];
    for (q, k, (code, rs)) in queries {
        let valid = q.len() == cfg.dim && q.iter().all(|x| x.is_finite());
        let keys: Vec<i64> = d
            .nodes
            .iter()
            .map(|(id, _, _)| {
                if valid {
                    cfg.metric.compute_mixed(q, &d.vectors[id]).map(key).unwrap_or(NANKEY)
                } else {
                    0
                }
            })
            .collect();
        let obs: Vec<Value> = rs.iter().map(|(i, dd)| tup(vec![json!(i), json!(key(*dd))])).collect();
        jq.push(tup(vec![json!(valid), json!(keys), json!(k), tup(vec![json!(code), Value::Array(obs)])]));
    }
    let case = tup(vec![jnodes(&d.nodes), tup(vec![json!(entry.0), json!(entry.1)]), json!(cfg.ef_s), Value::Array(jq)]);
    let nontrivial = d.nodes.len() >= 3 && queries.iter().any(|(_, _, (_, rs))| !rs.is_empty());
    out.line(&json!({"kind": "model", "part": "search", "tag": tag, "nodes": d.nodes.len(),
        "queries": queries.len(), "nontrivial": nontrivial, "case": case}));
    out.count("model:search");
}

/// Independent reading of a disk image: which ids a load must end up with, and their vectors.
pub(crate) fn expected_after_load(disk: &Disk) -> BTreeMap<u64, Vec<f32>> {
    let mut m = BTreeMap::new();
    for id in &disk.ids_list {
        if let Some(b) = disk.nodes.get(id)
            && let Ok(n) = cbor2::from_reader::<HnswNode, _>(&b[..])
        {
            m.insert(*id, n.vector.iter().map(|x| x.to_f32()).collect());
        }
    }
    m
}

pub(crate) fn jblob(bytes: &[u8]) -> Value {
    match cbor2::from_reader::<HnswNode, _>(bytes) {
        Err(_) => Value::Null,
        Ok(n) => some(tup(vec![
            json!(n.id),
            json!(n.layer),
            json!(n.vector.len()),
            json!(n.vector.iter().all(|x| x.is_finite())),
            json!(n.neighbors.iter().map(|l| l.iter().map(|(i, _)| *i).collect::<Vec<_>>()).collect::<Vec<_>>()),
            json!(n.neighbors.iter().flatten().all(|(_, d)| d.is_finite())),
        ])),
    }
}

/// Load one disk image; judge the loaded state (direct oracle), emit the model case, return it.
pub(crate) fn check_load(out: &mut Out, cfg: &Cfg, disk: &Disk, ctx: &Value, emit_model: bool, expect_ok: bool) -> Option<(HnswIndex, (u64, u8))> {
    out.evaluations += 1;
    let rec = decode_meta(&disk.meta).map(|m| m.entry_point).unwrap_or((0, 0));
    let lcase = tup(vec![
        json!(cfg.dim),
        json!(cfg.max_layers),
        tup(vec![json!(rec.0), json!(rec.1)]),
        json!(disk.ids_list),
        // newest-first association list is what the model's disk uses; one blob per id here
        Value::Array(disk.nodes.iter().map(|(id, b)| tup(vec![json!(id), jblob(b)])).collect()),
    ]);
    let loaded = catch_unwind(AssertUnwindSafe(|| load(disk)));
    let loaded = match loaded {
        Err(_) => {
            out.fail("panic", "load_all panicked".into(), json!({"context": ctx}));
            return None;
        }
        Ok(r) => r,
    };
    match loaded {
        Err(e) => {
            if expect_ok {
                out.fail("load-error", format!("load_all failed on a crash prefix: {e}"), json!({"context": ctx, "config": cfg.json()}));
            }
            if emit_model {
                out.line(&json!({"kind": "model", "part": "load", "nontrivial": false, "case": tup(vec![lcase, Value::Null])}));
                out.count("model:load");
            }
            None
        }
        Ok(index) => {
            let d = dump(&index);
            let fallback = &disk.meta;
            let clamp = |e: (u64, u8)| (e.0, e.1.min(cfg.max_layers.saturating_sub(1)));
            let entry = match peek_meta(&index, fallback) {
                Some(m) => m.entry_point,
                None => (0, 0),
            };
            // when nothing was pending the peek decodes the blob on disk: apply load_metadata's clamp
            let entry = if index.has_pending_metadata_flush() || index.has_dirty_nodes() { entry } else { clamp(entry) };
            let expect = expected_after_load(disk);
            let ids: Vec<u64> = index.node_ids();
            let want: Vec<u64> = expect.keys().copied().collect();
            let replay = json!({"context": ctx, "config": cfg.json(), "disk_ids": disk.ids_list,
                "disk_node_blobs": disk.nodes.keys().collect::<Vec<_>>(), "loaded_ids": ids, "entry": entry});
            if !d.missing.is_empty() {
                out.fail("id-without-node", format!("ids {:?} are in the bitmap but have no node after load", d.missing), replay.clone());
            }
            if index.len() != ids.len() {
                out.fail("node-without-id", format!("{} nodes but {} ids after load", index.len(), ids.len()), replay.clone());
            }
            if ids != want {
                out.fail("loaded-set", "loaded ids differ from {id in bitmap with a blob on disk}".into(), replay.clone());
            }
            if !ids.is_empty() && index.get_node_with(entry.0, |_| ()).is_err() {
                out.fail("dangling-entry", format!("entry point {} is not a node after load", entry.0), replay.clone());
            }
            for (id, v) in &d.vectors {
                let v: Vec<f32> = v.iter().map(|x| x.to_f32()).collect();
                if expect.get(id) != Some(&v) {
                    out.fail("loaded-vector", format!("vector of {id} differs from the blob on disk"), replay.clone());
                }
            }
            if emit_model {
                let obs = some(tup(vec![json!(ids), tup(vec![json!(entry.0), json!(entry.1)]), jnodes(&d.nodes)]));
                let nontrivial = disk.ids_list.len() >= 3 && (ids.len() != disk.ids_list.len() || expect.len() != disk.nodes.len());
                out.line(&json!({"kind": "model", "part": "load", "nontrivial": nontrivial, "case": tup(vec![lcase, obs])}));
                out.count("model:load");
            }
            Some((index, entry))
        }
    }
}

/// Bring a loaded index to the truth (what the collection's recovery does for the
/// documents whose index update was not flushed).
fn reindex(out: &mut Out, index: &HnswIndex, truth: &BTreeMap<u64, Vec<f32>>, ctx: &Value) -> usize {
    let mut changed = 0;
    for id in index.node_ids() {
        let v: Option<Vec<f32>> = index.get_node_with(id, |n| n.vector.iter().map(|x| x.to_f32()).collect()).ok();
        if v.as_ref() != truth.get(&id) {
            index.remove(id, 9);
            changed += 1;
        }
    }
    for (id, v) in truth {
        if index.get_node_with(*id, |_| ()).is_err() {
            if let Err(e) = index.insert_f32(*id, v.clone(), 9) {
                out.fail("reindex-insert", format!("re-indexing {id} failed: {e}"), json!({"context": ctx}));
            }
            changed += 1;
        }
    }
    let ids: Vec<u64> = index.node_ids();
    if ids != truth.keys().copied().collect::<Vec<_>>() {
        out.fail("reindex-set", "ids after re-indexing differ from the documents".into(), json!({"context": ctx}));
    }
    changed
}

fn history(out: &mut Out, rng: &mut Rng, hno: usize, model_every: usize) {
    let metrics = [DistanceMetric::Euclidean, DistanceMetric::Cosine, DistanceMetric::InnerProduct, DistanceMetric::Manhattan];
    // systematic: metric x strategy x reconnect cycle with the history number; the dimension walks
    // through all of 2..=64 (11 is coprime to 63), offset by the seed
    let seed_off = std::env::var("VERIF_SEED").ok().and_then(|s| s.parse::<usize>().ok()).unwrap_or(1);
    let cfg = Cfg {
        dim: 2 + ((hno + seed_off) * 11) % 63,
        metric: metrics[hno % 4],
        strategy: if (hno / 4) % 2 == 0 { SelectNeighborsStrategy::Simple } else { SelectNeighborsStrategy::Heuristic },
        reconnect: (hno / 8) % 2 == 1,
        m: rng.range(2, 6) as u8,
        ef_c: rng.range(2, 24) as usize,
        ef_s: rng.range(1, 16) as usize,
        max_layers: rng.range(1, 5) as u8,
    };
    let style = rng.below(4);
    let centers: Vec<Vec<f32>> = (0..3).map(|_| (0..cfg.dim).map(|_| rng.range(-3, 3) as f32).collect()).collect();
    let index = HnswIndex::new(format!("h{hno}"), Some(cfg.hnsw()));
    let mut live: BTreeMap<u64, Vec<f32>> = BTreeMap::new();
    let mut dead: Vec<u64> = vec![];
    let mut disk = Disk::default();
    let mut flushed_once = false;
    let nops = rng.range(12, 70) as usize;
    let id_space = rng.range(4, 60) as u64;
    let mut ops: Vec<Value> = vec![];
    *out.counts.entry(format!("metric:{}", metric_name(cfg.metric))).or_default() += 1;
    *out.counts.entry(format!("strategy:{:?}", cfg.strategy)).or_default() += 1;
    *out.counts.entry(format!("dim:{}", cfg.dim)).or_default() += 1;
    *out.counts.entry(format!("dim-multiple-of-8:{}", cfg.dim % 8 == 0)).or_default() += 1;
    *out.counts.entry(format!("cfg:{}/{:?}/reconnect={}", metric_name(cfg.metric), cfg.strategy, cfg.reconnect)).or_default() += 1;

    let do_queries = |out: &mut Out, rng: &mut Rng, index: &HnswIndex, live: &BTreeMap<u64, Vec<f32>>, entry_fallback: &[u8], nq: usize, ctx: &Value, emit: bool, tag: &str| {
        let mut qs = vec![];
        for _ in 0..nq {
            let (mut q, qkind) = gen_query(rng, &cfg, style, &centers, live);
            let n = live.len();
            let (k, kkind) = match rng.below(8) {
                0 => (1, "1"),
                1 => (n + 1, "n+1"),
                2 => (n.max(1), "n"),
                3 => (0, "0"),
                _ => (rng.range(1, n as i64 + 1) as usize, "1..n+1"),
            };
            out.count(&format!("k:{kkind}"));
            out.count(&format!("query:{}:{}", metric_name(cfg.metric), if qkind == "stored" { "stored" } else if qkind == "in-distribution" { "in-distribution" } else { "out-of-distribution" }));
            match rng.below(40) {
                0 => q[0] = f32::NAN,
                1 => q[0] = f32::INFINITY,
                2 => q.push(1.0),
                _ => {}
            }
            out.count(&format!("query:{qkind}"));
            let ctxq = json!({"history": ctx, "query_kind": qkind});
            let obs = check_query(out, index, &cfg, live, &q, k, &ctxq);
            qs.push((q, k, obs));
        }
        if emit {
            let entry = peek_meta(index, entry_fallback).map(|m| m.entry_point).unwrap_or((0, 0));
            search_case(out, index, &cfg, entry, &qs, tag);
        }
    };

    for opno in 0..nops {
        let ctx = json!({"history": hno, "op": opno, "ops": ops});
        match rng.below(10) {
            0..=4 => {
                // insert (sometimes an id that is live, sometimes one that was removed)
                let id = if !dead.is_empty() && rng.chance(1, 3) { *rng.pick(&dead) } else { rng.below(id_space) };
                let v = if !live.is_empty() && rng.chance(1, 8) {
                    let ids: Vec<&u64> = live.keys().collect();
                    live[*rng.pick(&ids)].clone()
                } else {
                    gen_vector(rng, cfg.dim, style, &centers)
                };
                ops.push(json!({"insert": id, "vector": v}));
                let r = index.insert_f32(id, v.clone(), opno as u64);
                out.evaluations += 1;
                match (r, live.contains_key(&id)) {
                    (Ok(()), false) => {
                        live.insert(id, v);
                        dead.retain(|x| *x != id);
                    }
                    (Err(HnswError::AlreadyExists { .. }), true) => {}
                    (r, was) => out.fail("insert-result", format!("insert({id}) -> {:?} while id live = {was}", r.map_err(|e| e.to_string())), ctx.clone()),
                }
            }
            5..=6 => {
                let id = if !live.is_empty() && rng.chance(4, 5) {
                    let ids: Vec<&u64> = live.keys().collect();
                    **rng.pick(&ids)
                } else {
                    rng.below(id_space)
                };
                ops.push(json!({"remove": id}));
                // correspondence of remove itself (no re-link): state before / after
                let before = if rng.chance(1, 2) {
                    let d = dump(&index);
                    let e = peek_meta(&index, &disk.meta).map(|m| m.entry_point).unwrap_or((0, 0));
                    Some((d, e, index.node_ids()))
                } else {
                    None
                };
                let r = index.remove(id, opno as u64);
                out.evaluations += 1;
                if r != live.contains_key(&id) {
                    out.fail("remove-result", format!("remove({id}) -> {r} while id live = {}", live.contains_key(&id)), ctx.clone());
                }
                if live.remove(&id).is_some() {
                    dead.push(id);
                }
                if index.get_node_with(id, |_| ()).is_ok() || index.node_ids().contains(&id) {
                    out.fail("removed-still-present", format!("{id} still a node or in ids after remove"), ctx.clone());
                }
                if let Some((d, e, ids)) = before {
                    let after = dump(&index);
                    let e2 = peek_meta(&index, &disk.meta).map(|m| m.entry_point).unwrap_or((0, 0));
                    let case = tup(vec![jnodes(&d.nodes), json!(ids), tup(vec![json!(e.0), json!(e.1)]), json!(id)]);
                    let obs = tup(vec![json!(r), json!(index.node_ids()), tup(vec![json!(e2.0), json!(e2.1)]), jnodes(&after.nodes)]);
                    let part = if cfg.reconnect { "remove_relink" } else { "remove" };
                    out.line(&json!({"kind": "model", "part": part, "nontrivial": r && d.nodes.len() >= 3, "case": tup(vec![case, obs])}));
                    out.count(&format!("model:{part}"));
                }
            }
            7 => {
                ops.push(json!("flush"));
                for w in flush_writes(&index, opno as u64) {
                    disk.apply(&w);
                }
                flushed_once = true;
            }
            _ => {
                ops.push(json!("query"));
                let emit = model_every > 0 && rng.below(model_every as u64) == 0;
                do_queries(out, rng, &index, &live, &disk.meta, 3, &ctx, emit, "history");
            }
        }
    }
    let ctx = json!({"history": hno, "op": "end", "ops": ops});
    do_queries(out, rng, &index, &live, &disk.meta, 4, &ctx, true, "history-end");
    if !index.node_ids().iter().copied().eq(live.keys().copied()) || index.len() != live.len() {
        out.fail("live-set", "ids of the index differ from the documents".into(), ctx.clone());
    }

    // ---- persistence: every crash prefix of the last flush ----
    if !flushed_once {
        for w in flush_writes(&HnswIndex::new(format!("h{hno}"), Some(cfg.hnsw())), 0) {
            disk.apply(&w); // the state Hnsw::new leaves: empty ids + metadata
        }
    }
    let ws = flush_writes(&index, 1000);
    out.count(&format!("flush-writes:{}", (ws.len() / 8) * 8));
    let mut d = disk.clone();
    for k in 0..=ws.len() {
        if k > 0 {
            d.apply(&ws[k - 1]);
        }
        let ctxp = json!({"history": hno, "crash_after_writes": k, "of": ws.len(), "ops": ops});
        let emit = model_every > 0 && (k == ws.len() || rng.below(model_every as u64) == 0);
        if let Some((loaded, _)) = check_load(out, &cfg, &d, &ctxp, emit, true) {
            out.count("crash-prefix-loaded");
            let loaded_live = expected_after_load(&d);
            do_queries(out, rng, &loaded, &loaded_live, &d.meta, 2, &ctxp, emit, "crash-prefix");
            let ch = reindex(out, &loaded, &live, &ctxp);
            if ch > 0 {
                out.count("crash-prefix-reindexed");
            }
            do_queries(out, rng, &loaded, &live, &d.meta, 2, &ctxp, false, "reindexed");
            if k == ws.len() && ch != 0 {
                out.fail("round-trip", "a completed flush did not reload to the live documents".into(), ctxp.clone());
            }
        }
    }
    // ---- corrupted disk images: the loader must reject or repair, never surface them ----
    if !d.nodes.is_empty() {
        let mut c = d.clone();
        let ids: Vec<u64> = c.nodes.keys().copied().collect();
        let a = *rng.pick(&ids);
        let b = *rng.pick(&ids);
        let kind = rng.below(4);
        match kind {
            0 => {
                let t = c.nodes[&a].len() / 2;
                c.nodes.get_mut(&a).unwrap().truncate(t);
            }
            1 if a != b => {
                let bb = c.nodes[&b].clone();
                c.nodes.insert(a, bb);
            }
            2 => {
                c.nodes.remove(&a);
            }
            _ => {
                // metadata of another generation: entry point naming an id that does not exist
                let mut e = HnswIndex::new(format!("h{hno}"), Some(cfg.hnsw()));
                let _ = &mut e;
                e.insert_f32(1_000_003, vec![0.5; cfg.dim], 1).unwrap();
                for w in flush_writes(&e, 1) {
                    if let W::Meta(m) = w {
                        c.meta = m;
                    }
                }
            }
        }
        let ctxc = json!({"history": hno, "corruption": kind, "node": a, "other": b});
        out.count(&format!("corruption:{kind}"));
        if let Some((loaded, _)) = check_load(out, &cfg, &c, &ctxc, true, false) {
            let ll = expected_after_load(&c);
            do_queries(out, rng, &loaded, &ll, &c.meta, 2, &ctxc, true, "corrupted");
        }
    }
}

// ------------------------------------------------------------------ recall (measurement)

pub(crate) struct SplitMix64(pub(crate) u64);
impl SplitMix64 {
    pub(crate) fn next_u64(&mut self) -> u64 {
        self.0 = self.0.wrapping_add(0x9E3779B97F4A7C15);
        let mut z = self.0;
        z = (z ^ (z >> 30)).wrapping_mul(0xBF58476D1CE4E5B9);
        z = (z ^ (z >> 27)).wrapping_mul(0x94D049BB133111EB);
        z ^ (z >> 31)
    }
    pub(crate) fn next_f32(&mut self) -> f32 {
        (self.next_u64() >> 40) as f32 / (1u64 << 24) as f32
    }
    pub(crate) fn next_vector(&mut self, dim: usize) -> Vec<f32> {
        (0..dim).map(|_| bf16::from_f32(self.next_f32()).to_f32()).collect()
    }
}

struct Bench {
    index: HnswIndex,
    cfg: HnswConfig,
    data: BTreeMap<u64, Vec<f32>>,
    queries: Vec<Vec<f32>>,
    rng: SplitMix64,
}

impl Bench {
    fn build(cfg: HnswConfig, n: usize, nq: usize, seed: u64) -> Self {
        let index = HnswIndex::new("recall".into(), Some(cfg.clone()));
        let mut rng = SplitMix64(seed);
        let mut data = BTreeMap::new();
        for id in 1..=(n as u64) {
            let v = rng.next_vector(cfg.dimension);
            index.insert_f32(id, v.clone(), id).expect("insert");
            data.insert(id, v);
        }
        let queries = (0..nq).map(|_| rng.next_vector(cfg.dimension)).collect();
        Bench { index, cfg, data, queries, rng }
    }

    /// (average, minimum) recall@10 with the epsilon tolerance of tests/recall.rs, plus a
    /// soundness judgement of every result list.
    fn measure(&self, out: &mut Out, index: &HnswIndex, what: &str) -> (f64, f64) {
        let k = 10;
        let m = self.cfg.distance_metric;
        let (mut total, mut min) = (0.0, 1.0f64);
        let cfg = Cfg { dim: self.cfg.dimension, metric: m, strategy: self.cfg.select_neighbors_strategy, reconnect: self.cfg.reconnect_on_delete,
            m: self.cfg.max_connections, ef_c: self.cfg.ef_construction, ef_s: self.cfg.ef_search, max_layers: self.cfg.max_layers };
        for q in &self.queries {
            let (_, rs) = check_query(out, index, &cfg, &self.data, q, k, &json!({"recall_workload": what}));
            let mut scored: Vec<(u64, f64)> = self.data.iter().map(|(id, v)| (*id, ref_metric(m, q, v))).collect();
            scored.sort_by(|a, b| a.1.partial_cmp(&b.1).unwrap().then(a.0.cmp(&b.0)));
            scored.truncate(k);
            let kth = scored.last().map(|x| x.1).unwrap_or(0.0);
            let thr = kth * 1.001 + 1e-6;
            let hits = rs.iter().take(k).filter(|(id, _)| {
                scored.iter().any(|s| s.0 == *id) || self.data.get(id).is_some_and(|v| ref_metric(m, q, v) <= thr)
            }).count();
            let r = hits as f64 / k as f64;
            total += r;
            min = min.min(r);
        }
        (total / self.queries.len() as f64, min)
    }
}

#[allow(clippy::too_many_arguments)]
pub(crate) fn record(out: &mut Out, scenario: &str, stage: &str, seed: u64, avg: f64, min: f64, floor_avg: f64, floor_min: f64, margin_avg: f64, margin_min: f64) {
    let ok = avg >= floor_avg - margin_avg && min >= floor_min - margin_min;
    out.line(&json!({"kind": "recall", "scenario": scenario, "stage": stage, "seed": seed, "avg": avg, "min": min,
        "floor_avg": floor_avg, "floor_min": floor_min, "margin_avg": margin_avg, "margin_min": margin_min,
        "at_or_above_floor": avg >= floor_avg && min >= floor_min, "ok": ok}));
    out.count("recall-measurements");
    if !ok {
        out.fail("recall-drop", format!("{scenario}/{stage} seed {seed}: avg {avg:.4} min {min:.4} below floor {floor_avg}/{floor_min} minus margin {margin_avg}/{margin_min}"),
            json!({"scenario": scenario, "stage": stage, "seed": seed, "avg": avg, "min": min}));
    }
}

pub(crate) const MARGIN_AVG: f64 = 0.03;
pub(crate) const MARGIN_MIN: f64 = 0.20;
pub(crate) const CRASH_MARGIN_AVG: f64 = 0.05;

fn recall_scenarios(out: &mut Out, seeds: &[(u64, bool)], crash_prefixes: usize, rng: &mut Rng) {
    let base = |dim: usize, metric: DistanceMetric| HnswConfig { dimension: dim, distance_metric: metric, ..Default::default() };
    for &(s, documented) in seeds {
        let sd = |doc: u64| if documented { doc } else { doc ^ s.wrapping_mul(0x9E37_79B9) };
        // 1. euclidean 1000 x 32
        let b = Bench::build(base(32, DistanceMetric::Euclidean), 1000, 50, sd(42));
        let (a, m) = b.measure(out, &b.index, "euclidean");
        record(out, "euclidean_1000x32", "fresh", sd(42), a, m, 0.95, 0.60, MARGIN_AVG, MARGIN_MIN);
        // 2. cosine 800 x 24
        let b = Bench::build(base(24, DistanceMetric::Cosine), 800, 40, sd(7));
        let (a, m) = b.measure(out, &b.index, "cosine");
        record(out, "cosine_800x24", "fresh", sd(7), a, m, 0.95, 0.60, MARGIN_AVG, MARGIN_MIN);
        // 3. deletions of a fifth
        let mut b = Bench::build(base(32, DistanceMetric::Euclidean), 1000, 50, sd(99));
        for id in (1..=1000u64).filter(|i| i % 5 == 0) {
            b.index.remove(id, 2000);
            b.data.remove(&id);
        }
        let (a, m) = b.measure(out, &b.index, "deletions");
        record(out, "deletions_1000x32", "after-20%-deleted", sd(99), a, m, 0.90, 0.50, MARGIN_AVG, MARGIN_MIN);
        // 4. heavy deletions, sparse graph, reconnect on
        let mut b = Bench::build(HnswConfig { dimension: 32, max_connections: 6, ef_construction: 40, ef_search: 40,
            reconnect_on_delete: true, ..Default::default() }, 2000, 50, sd(4242));
        let (before, _) = b.measure(out, &b.index, "heavy-before");
        for id in (1..=2000u64).filter(|i| i % 2 == 0) {
            b.index.remove(id, 2000);
            b.data.remove(&id);
        }
        let (a, m) = b.measure(out, &b.index, "heavy-50");
        record(out, "heavy_deletions_2000x32", "after-50%-deleted", sd(4242), a, m, before - 0.06, 0.50, MARGIN_AVG, MARGIN_MIN);
        for id in (1..=2000u64).filter(|i| i % 2 == 1 && i % 5 != 0) {
            b.index.remove(id, 3000);
            b.data.remove(&id);
        }
        let (a, m) = b.measure(out, &b.index, "heavy-80");
        record(out, "heavy_deletions_2000x32", "after-80%-deleted", sd(4242), a, m, before - 0.08, 0.50, MARGIN_AVG, MARGIN_MIN);
        // 5. delete / re-insert churn
        let mut b = Bench::build(base(16, DistanceMetric::Euclidean), 600, 30, sd(777));
        let mut r2 = SplitMix64(if documented { 0xC0FFEE } else { 0xC0FFEE ^ s });
        for round in 0..5u64 {
            let victims: Vec<u64> = (1..=600u64).filter(|id| (id + round) % 3 == 0).collect();
            for id in &victims {
                b.index.remove(*id, round);
                b.data.remove(id);
            }
            for id in &victims {
                let v = r2.next_vector(16);
                b.index.insert_f32(*id, v.clone(), round).expect("re-insert");
                b.data.insert(*id, v);
            }
        }
        let (a, m) = b.measure(out, &b.index, "churn");
        record(out, "churn_600x16", "after-5-rounds", sd(777), a, m, 0.93, 0.60, MARGIN_AVG, MARGIN_MIN);
        // 6. persistence round trip, then a second generation whose flush is interrupted
        let mut b = Bench::build(base(16, DistanceMetric::Euclidean), 600, 30, sd(1234));
        let (before, _) = b.measure(out, &b.index, "persist-before");
        let mut disk = Disk::default();
        for w in flush_writes(&b.index, 5000) {
            disk.apply(&w);
        }
        let re = load(&disk).expect("load_all");
        let (a, m) = b.measure(out, &re, "persist-after");
        record(out, "persistence_600x16", "round-trip", sd(1234), a, m, 0.95f64.max(before - 0.02), 0.0, MARGIN_AVG, 1.0);
        // second generation: 60 removed, 30 of them re-inserted with new vectors, 120 new documents
        for id in (1..=600u64).filter(|i| i % 10 == 3) {
            b.index.remove(id, 6000);
            b.data.remove(&id);
        }
        for id in (1..=600u64).filter(|i| i % 20 == 3) {
            let v = b.rng.next_vector(16);
            b.index.insert_f32(id, v.clone(), 6001).expect("re-insert");
            b.data.insert(id, v);
        }
        for id in 601..=720u64 {
            let v = b.rng.next_vector(16);
            b.index.insert_f32(id, v.clone(), 6002).expect("insert");
            b.data.insert(id, v);
        }
        let ws = flush_writes(&b.index, 7000);
        let picks: BTreeSet<usize> = if crash_prefixes >= ws.len() { (0..=ws.len()).collect() } else {
            let mut p: BTreeSet<usize> = [0, 1, ws.len() / 2, ws.len() - 2, ws.len() - 1, ws.len()].into_iter().collect();
            while p.len() < crash_prefixes { p.insert(rng.below(ws.len() as u64 + 1) as usize); }
            p
        };
        let cfg = Cfg { dim: 16, metric: DistanceMetric::Euclidean, strategy: b.cfg.select_neighbors_strategy, reconnect: false,
            m: b.cfg.max_connections, ef_c: b.cfg.ef_construction, ef_s: b.cfg.ef_search, max_layers: b.cfg.max_layers };
        let mut d = disk.clone();
        for k in 0..=ws.len() {
            if k > 0 { d.apply(&ws[k - 1]); }
            if !picks.contains(&k) { continue; }
            let ctx = json!({"recall_workload": "persistence_600x16", "seed": sd(1234), "crash_after_writes": k, "of": ws.len()});
            if let Some((loaded, _)) = check_load(out, &cfg, &d, &ctx, false, true) {
                reindex(out, &loaded, &b.data, &ctx);
                let (a, m) = b.measure(out, &loaded, "crash-reindexed");
                record(out, "persistence_600x16", &format!("crash-after-{k}-of-{}-writes+reindex", ws.len()), sd(1234), a, m, 0.95, 0.0, CRASH_MARGIN_AVG, 1.0);
            }
        }
    }
}

pub fn main(args: &[String]) {
    let path = arg_value(args, "--out").expect("--out");
    let histories: usize = arg_value(args, "--histories").and_then(|s| s.parse().ok()).unwrap_or(40);
    let model_every: usize = arg_value(args, "--model-every").and_then(|s| s.parse().ok()).unwrap_or(4);
    let recall_seeds: usize = arg_value(args, "--recall-seeds").and_then(|s| s.parse().ok()).unwrap_or(1);
    let crash_prefixes: usize = arg_value(args, "--crash-prefixes").and_then(|s| s.parse().ok()).unwrap_or(12);
    let mut out = Out {
        file: std::io::BufWriter::new(std::fs::File::create(&path).expect("create out")),
        failures: vec![],
        counts: BTreeMap::new(),
        evaluations: 0,
    };
    let mut rng = Rng::from_env();
    for h in 0..histories {
        let mut r = rng.fork();
        let res = catch_unwind(AssertUnwindSafe(|| history(&mut out, &mut r, h, model_every)));
        if res.is_err() {
            out.fail("panic", format!("history {h} panicked"), json!({"history": h}));
        }
    }
    let wrapper_histories: usize = arg_value(args, "--wrapper-histories").and_then(|s| s.parse().ok()).unwrap_or(6);
    let mut seeds = vec![];
    if recall_seeds > 0 {
        seeds.push((0u64, true));
        for _ in 1..recall_seeds {
            seeds.push((rng.next() | 1, false));
        }
        let mut r = rng.fork();
        // a broken index can make a documented workload itself fail (e.g. a re-insert refused);
        // that is a finding of its own and must not hide the failing inputs found so far
        let res = catch_unwind(AssertUnwindSafe(|| recall_scenarios(&mut out, &seeds, crash_prefixes, &mut r)));
        if let Err(p) = res {
            let msg = p.downcast_ref::<String>().cloned().or_else(|| p.downcast_ref::<&str>().map(|s| s.to_string())).unwrap_or_default();
            out.fail("recall-workload-panic", format!("a documented recall workload could not be executed: {msg}"), json!({"seeds": seeds}));
        }
    }
    let mut r = rng.fork();
    crate::wrapper::run(&mut out, &mut r, wrapper_histories, &seeds, crash_prefixes);
    let summary = json!({"kind": "summary", "histories": histories, "evaluations": out.evaluations,
        "counts": out.counts, "oracle_failures": out.failures.len(), "failures": out.failures});
    out.line(&summary);
    out.file.flush().unwrap();
}
