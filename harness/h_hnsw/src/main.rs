mod c12;
mod wrapper;

fn main() {
    let args: Vec<String> = std::env::args().collect();
    match args.get(1).map(|s| s.as_str()) {
        Some("c12") => c12::main(&args[2..]),
        _ => {
            eprintln!("usage: h_hnsw <c12> ...");
            std::process::exit(2);
        }
    }
}
