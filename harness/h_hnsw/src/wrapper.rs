//! C12 at the collection level: `anda_db::index::Hnsw` over `Storage` over an object store.
//!
//! The object store is a snapshotting wrapper around `InMemory`: after every mutation that
//! reached the store (PUT, conditional PUT, DELETE) it keeps a fork of the whole store, so
//! one real `Hnsw::flush` yields every crash prefix of its own write sequence, byte for byte
//! (compression, attributes and versions included).  Each prefix is bootstrapped through the
//! wrapper (which also runs `purge_orphan_node_blobs`), searched, re-indexed to the documents,
//! searched again, flushed and bootstrapped once more.
use crate::c12::*;
use anda_db::index::Hnsw;
use anda_db::schema::{Fe, Ft};
use anda_db::storage::{Storage, StorageConfig};
use anda_db_hnsw::{DistanceMetric, HnswConfig, HnswIndex, SelectNeighborsStrategy, half::bf16};
use async_trait::async_trait;
use futures::StreamExt;
use futures::stream::BoxStream;
use h_common::Rng;
use object_store::{
    CopyOptions, GetOptions, GetResult, ListResult, MultipartUpload, ObjectMeta, ObjectStore, ObjectStoreExt,
    PutMultipartOptions, PutOptions, PutPayload, PutResult, Result as OsResult, memory::InMemory, path::Path,
};
use serde_json::{Value, json};
use std::collections::{BTreeMap, BTreeSet};
use std::sync::{Arc, Mutex};

const BASE: &str = "c12";
const FIELD: &str = "emb";

#[derive(Debug)]
pub(crate) struct SnapStore {
    inner: Arc<InMemory>,
    log: Arc<Mutex<Option<Vec<(String, String, InMemory)>>>>,
}

impl SnapStore {
    fn new(inner: InMemory) -> Self {
        SnapStore { inner: Arc::new(inner), log: Arc::new(Mutex::new(None)) }
    }
    fn start(&self) -> InMemory {
        *self.log.lock().unwrap() = Some(vec![]);
        self.inner.fork()
    }
    fn stop(&self) -> Vec<(String, String, InMemory)> {
        self.log.lock().unwrap().take().unwrap_or_default()
    }
    fn note(log: &Mutex<Option<Vec<(String, String, InMemory)>>>, inner: &InMemory, op: &str, path: &Path) {
        if let Some(l) = log.lock().unwrap().as_mut() {
            l.push((op.to_string(), path.to_string(), inner.fork()));
        }
    }
}

impl std::fmt::Display for SnapStore {
    fn fmt(&self, f: &mut std::fmt::Formatter<'_>) -> std::fmt::Result {
        f.write_str("SnapStore")
    }
}

#[async_trait]
impl ObjectStore for SnapStore {
    async fn put_opts(&self, location: &Path, payload: PutPayload, opts: PutOptions) -> OsResult<PutResult> {
        let conditional = !matches!(opts.mode, object_store::PutMode::Overwrite);
        let r = self.inner.put_opts(location, payload, opts).await?;
        Self::note(&self.log, &self.inner, if conditional { "cas-put" } else { "put" }, location);
        Ok(r)
    }
    async fn put_multipart_opts(&self, location: &Path, opts: PutMultipartOptions) -> OsResult<Box<dyn MultipartUpload>> {
        self.inner.put_multipart_opts(location, opts).await
    }
    async fn get_opts(&self, location: &Path, options: GetOptions) -> OsResult<GetResult> {
        self.inner.get_opts(location, options).await
    }
    fn delete_stream(&self, locations: BoxStream<'static, OsResult<Path>>) -> BoxStream<'static, OsResult<Path>> {
        let inner = self.inner.clone();
        let log = self.log.clone();
        locations
            .then(move |loc| {
                let inner = inner.clone();
                let log = log.clone();
                async move {
                    let loc = loc?;
                    inner.delete(&loc).await?;
                    SnapStore::note(&log, &inner, "delete", &loc);
                    Ok(loc)
                }
            })
            .boxed()
    }
    fn list(&self, prefix: Option<&Path>) -> BoxStream<'static, OsResult<ObjectMeta>> {
        self.inner.list(prefix)
    }
    fn list_with_offset(&self, prefix: Option<&Path>, offset: &Path) -> BoxStream<'static, OsResult<ObjectMeta>> {
        self.inner.list_with_offset(prefix, offset)
    }
    async fn list_with_delimiter(&self, prefix: Option<&Path>) -> OsResult<ListResult> {
        self.inner.list_with_delimiter(prefix).await
    }
    async fn copy_opts(&self, from: &Path, to: &Path, options: CopyOptions) -> OsResult<()> {
        self.inner.copy_opts(from, to, options).await?;
        Self::note(&self.log, &self.inner, "copy", to);
        Ok(())
    }
}

async fn connect(store: Arc<dyn ObjectStore>) -> Storage {
    Storage::connect(BASE.to_string(), store, StorageConfig::default()).await.expect("Storage::connect")
}

fn node_path(id: u64) -> String {
    format!("hnsw_indexes/{FIELD}/n_{id}.cbor")
}

/// ids of the node blobs currently in the index directory
async fn blob_ids(storage: &Storage) -> BTreeSet<u64> {
    let dir = format!("hnsw_indexes/{FIELD}/");
    let mut s = storage.list_meta(Some(&dir), None);
    let mut ids = BTreeSet::new();
    while let Some(m) = s.next().await {
        if let Ok(m) = m
            && let Some(id) = m.location.filename().and_then(|f| f.strip_prefix("n_")).and_then(|f| f.strip_suffix(".cbor")).and_then(|x| x.parse::<u64>().ok())
        {
            ids.insert(id);
        }
    }
    ids
}

/// Independent view of what is durable: the three artifacts read back through `Storage`.
async fn read_disk(storage: &Storage) -> Option<Disk> {
    let (meta, _) = storage.fetch_bytes(&format!("hnsw_indexes/{FIELD}/meta.cbor")).await.ok()?;
    let (ids, _) = storage.fetch_bytes(&format!("hnsw_indexes/{FIELD}/ids.cbor")).await.ok()?;
    let mut probe = HnswIndex::load_metadata(&meta[..]).ok()?;
    probe.load_ids(&ids[..]).ok()?;
    let mut d = Disk { nodes: BTreeMap::new(), ids: ids.to_vec(), ids_list: probe.node_ids(), meta: meta.to_vec() };
    for id in blob_ids(storage).await {
        if let Ok((b, _)) = storage.fetch_bytes(&node_path(id)).await {
            d.nodes.insert(id, b.to_vec());
        }
    }
    Some(d)
}

fn to_bf16(v: &[f32]) -> Vec<bf16> {
    v.iter().map(|x| bf16::from_f32(*x)).collect()
}

fn wsearch(w: &Hnsw, q: &[f32], k: usize) -> Result<Vec<(u64, f32)>, (i64, String)> {
    w.try_search(q, k).map_err(|e| (2, e.to_string()))
}

/// the write sequence of one flush must be: node PUTs, ids (conditional PUT), metadata
/// (conditional PUT), then deletes of node blobs
fn order_ok(log: &[(String, String, InMemory)]) -> bool {
    let mut stage = 0;
    for (op, path, _) in log {
        let is_node = path.contains("/n_");
        let s = if op == "put" && is_node {
            0
        } else if op == "cas-put" && path.ends_with("ids.cbor") {
            1
        } else if op == "cas-put" && path.ends_with("meta.cbor") {
            2
        } else if op == "delete" && is_node {
            3
        } else {
            return false;
        };
        if s < stage || (s == stage && (s == 1 || s == 2)) {
            return false;
        }
        stage = s;
    }
    true
}

#[allow(clippy::too_many_arguments)]
async fn explore_prefixes(
    out: &mut Out,
    rng: &mut Rng,
    cfg: &Cfg,
    base: InMemory,
    log: &[(String, String, InMemory)],
    truth: &BTreeMap<u64, Vec<f32>>,
    picks: Option<&BTreeSet<usize>>,
    ctx0: &Value,
    style: u64,
    centers: &[Vec<f32>],
    bench: Option<&WBench>,
    emit_model: bool,
) {
    for k in 0..=log.len() {
        if let Some(p) = picks
            && !p.contains(&k)
        {
            continue;
        }
        let store = if k == 0 { base.fork() } else { log[k - 1].2.fork() };
        let store: Arc<dyn ObjectStore> = Arc::new(store);
        let storage = connect(store.clone()).await;
        let ctx = json!({"wrapper": ctx0, "crash_after_writes": k, "of": log.len(),
            "writes": log.iter().map(|(o, p, _)| format!("{o} {p}")).collect::<Vec<_>>()});
        let Some(disk) = read_disk(&storage).await else {
            out.fail("wrapper-unreadable", "metadata or ids object unreadable in a crash prefix".into(), ctx.clone());
            continue;
        };
        let tomb: BTreeSet<u64> = decode_meta(&disk.meta).map(|m| m.removed_nodes.into_iter().collect()).unwrap_or_default();
        let blobs_before: BTreeSet<u64> = disk.nodes.keys().copied().collect();
        // crate-level view of the same bytes: direct oracle on the loaded state + model case
        let emit = emit_model && (k == log.len() || rng.below(4) == 0);
        let loaded = check_load(out, cfg, &disk, &ctx, emit, true);
        let loaded_live = expected_after_load(&disk);
        // the wrapper's own bootstrap (a fresh Storage: no shared cache)
        let storage_w = connect(store.clone()).await;
        let w = match Hnsw::bootstrap(FIELD.to_string(), storage_w.clone()).await {
            Ok(w) => w,
            Err(e) => {
                out.fail("wrapper-bootstrap-error", format!("Hnsw::bootstrap failed on a crash prefix: {e}"), ctx.clone());
                continue;
            }
        };
        out.count("wrapper:crash-prefix-bootstrapped");
        out.evaluations += 1;
        if w.stats().num_elements as usize != loaded_live.len() {
            out.fail("wrapper-loaded-count", format!("bootstrap holds {} vectors, {} are listed and present on disk", w.stats().num_elements, loaded_live.len()), ctx.clone());
        }
        // purge_orphan_node_blobs: keeps every referenced blob, deletes every unreferenced one
        let blobs_after = blob_ids(&storage_w).await;
        let listed: BTreeSet<u64> = disk.ids_list.iter().copied().collect();
        for id in &blobs_before {
            let referenced = listed.contains(id) || tomb.contains(id);
            if referenced && !blobs_after.contains(id) {
                out.fail("orphan-sweep-deleted-referenced", format!("bootstrap deleted the blob of {id}, which the ids bitmap or the tombstones reference"), ctx.clone());
            }
            if !referenced && blobs_after.contains(id) {
                out.fail("orphan-left", format!("blob of {id} is referenced by nothing and survived bootstrap"), ctx.clone());
            }
            if !referenced {
                out.count("wrapper:orphan-swept");
            }
        }
        // search through the wrapper: sound against what is on disk, and equal to the index's own answer
        let nq = if bench.is_some() { 0 } else { 3 };
        for _ in 0..nq {
            let (q, qkind) = gen_query(rng, cfg, style, centers, &loaded_live);
            let n = loaded_live.len();
            let kk = match rng.below(4) { 0 => 1, 1 => n + 1, _ => rng.range(1, n as i64 + 1) as usize };
            let ctxq = json!({"history": ctx, "query_kind": qkind, "stage": "bootstrapped"});
            let (_, rw) = check_results(out, cfg, &loaded_live, &q, kk, wsearch(&w, &q, kk), &ctxq);
            if let Some((l, _)) = &loaded
                && let Ok(rl) = l.search_f32(&q, kk)
                && rl.iter().map(|(i, d)| (*i, d.to_bits())).ne(rw.iter().map(|(i, d)| (*i, d.to_bits())))
            {
                out.fail("wrapper-vs-index", "the wrapper and the index loaded from the same bytes answer differently".into(), ctxq);
            }
        }
        // re-index the documents whose index update was not flushed
        let mut changed = 0;
        for (id, v) in &loaded_live {
            if truth.get(id) != Some(v) {
                w.remove(*id, 9);
                changed += 1;
            }
        }
        for (id, v) in truth {
            if loaded_live.get(id) != Some(v) {
                if let Err(e) = w.insert(*id, to_bf16(v), 9) {
                    out.fail("reindex-insert", format!("re-indexing {id} through the wrapper failed: {e}"), ctx.clone());
                }
                changed += 1;
            }
        }
        if changed > 0 {
            out.count("wrapper:crash-prefix-reindexed");
        }
        if k == log.len() && changed != 0 {
            out.fail("round-trip", "a completed wrapper flush did not bootstrap to the live documents".into(), ctx.clone());
        }
        if w.stats().num_elements as usize != truth.len() {
            out.fail("reindex-set", format!("{} vectors after re-indexing, {} documents", w.stats().num_elements, truth.len()), ctx.clone());
        }
        if let Some(b) = bench {
            let (a, m) = b.measure(out, cfg, truth, &|q, kk| wsearch(&w, q, kk), "wrapper-crash-reindexed");
            record(out, "wrapper_persistence_600x16", &format!("crash-after-{k}-of-{}-writes+reindex", log.len()), b.seed, a, m, 0.95, 0.0, CRASH_MARGIN_AVG, 1.0);
        } else {
            for _ in 0..3 {
                let (q, qkind) = gen_query(rng, cfg, style, centers, truth);
                let n = truth.len();
                let kk = match rng.below(4) { 0 => 1, 1 => n + 1, _ => rng.range(1, n as i64 + 1) as usize };
                let ctxq = json!({"history": ctx, "query_kind": qkind, "stage": "re-indexed"});
                check_results(out, cfg, truth, &q, kk, wsearch(&w, &q, kk), &ctxq);
            }
        }
        // recovery flush, then one more bootstrap: the documents, nothing else
        match w.flush(10).await {
            Err(e) => out.fail("recovery-flush", format!("flush after recovery failed: {e}"), ctx.clone()),
            Ok(_) => {
                let storage2 = connect(store.clone()).await;
                match Hnsw::bootstrap(FIELD.to_string(), storage2.clone()).await {
                    Err(e) => out.fail("recovery-bootstrap", format!("bootstrap after the recovery flush failed: {e}"), ctx.clone()),
                    Ok(w2) => {
                        out.evaluations += 1;
                        let d2 = read_disk(&storage2).await;
                        let live2 = d2.as_ref().map(expected_after_load).unwrap_or_default();
                        if &live2 != truth || w2.stats().num_elements as usize != truth.len() {
                            out.fail("recovery-state", "state after recovery flush + bootstrap differs from the documents".into(), ctx.clone());
                        }
                        if bench.is_none() {
                            let (q, qkind) = gen_query(rng, cfg, style, centers, truth);
                            let kk = rng.range(1, truth.len() as i64 + 1) as usize;
                            let ctxq = json!({"history": ctx, "query_kind": qkind, "stage": "recovered"});
                            check_results(out, cfg, truth, &q, kk, wsearch(&w2, &q, kk), &ctxq);
                        }
                    }
                }
            }
        }
    }
}

async fn wrapper_history(out: &mut Out, rng: &mut Rng, hno: usize) {
    let metrics = [DistanceMetric::Euclidean, DistanceMetric::Cosine, DistanceMetric::InnerProduct, DistanceMetric::Manhattan];
    let cfg = Cfg {
        dim: 2 + (hno * 13 + 5) % 63,
        metric: metrics[hno % 4],
        strategy: if (hno / 4) % 2 == 0 { SelectNeighborsStrategy::Heuristic } else { SelectNeighborsStrategy::Simple },
        reconnect: (hno / 2) % 2 == 1,
        m: rng.range(2, 6) as u8,
        ef_c: rng.range(2, 24) as usize,
        ef_s: rng.range(1, 16) as usize,
        max_layers: rng.range(1, 5) as u8,
    };
    out.count(&format!("wrapper:cfg:{}/{:?}/dim{}", metric_name(cfg.metric), cfg.strategy, cfg.dim));
    let style = rng.below(4);
    let centers: Vec<Vec<f32>> = (0..3).map(|_| (0..cfg.dim).map(|_| rng.range(-3, 3) as f32).collect()).collect();
    let snap = Arc::new(SnapStore::new(InMemory::new()));
    let store: Arc<dyn ObjectStore> = snap.clone();
    let storage = connect(store.clone()).await;
    let field = Fe::new(FIELD.to_string(), Ft::Vector).expect("field");
    let w = Hnsw::new(&field, cfg.hnsw(), storage.clone(), 1).await.expect("Hnsw::new");
    let mut live: BTreeMap<u64, Vec<f32>> = BTreeMap::new();
    let id_space = rng.range(6, 40) as u64;
    let mut ops: Vec<Value> = vec![];
    let generation = |out: &mut Out, rng: &mut Rng, live: &mut BTreeMap<u64, Vec<f32>>, ops: &mut Vec<Value>, n: usize| {
        for t in 0..n {
            if live.is_empty() || rng.chance(2, 3) {
                let id = rng.below(id_space);
                let v = gen_vector(rng, cfg.dim, style, &centers);
                ops.push(json!({"insert": id}));
                let r = w.insert(id, to_bf16(&v), t as u64);
                if r.is_ok() != !live.contains_key(&id) {
                    out.fail("insert-result", format!("wrapper insert({id}) ok={} while live={}", r.is_ok(), live.contains_key(&id)), json!({"ops": ops}));
                }
                if r.is_ok() {
                    live.insert(id, v);
                }
            } else {
                let ids: Vec<u64> = live.keys().copied().collect();
                let id = *rng.pick(&ids);
                ops.push(json!({"remove": id}));
                if !w.remove(id, t as u64) {
                    out.fail("remove-result", format!("wrapper remove({id}) returned false for a live id"), json!({"ops": ops}));
                }
                live.remove(&id);
            }
        }
    };
    let n1 = rng.range(4, 30) as usize;
    generation(out, rng, &mut live, &mut ops, n1);
    w.flush(100).await.expect("first flush");
    ops.push(json!("flush"));
    let n2 = rng.range(3, 25) as usize;
    generation(out, rng, &mut live, &mut ops, n2);
    let base = snap.start();
    let r = w.flush(200).await;
    let log = snap.stop();
    if let Err(e) = r {
        out.fail("wrapper-flush", format!("Hnsw::flush failed: {e}"), json!({"ops": ops}));
        return;
    }
    out.count(&format!("wrapper:flush-writes:{}", (log.len() / 8) * 8));
    if !order_ok(&log) {
        out.fail("flush-order", "write sequence is not node PUTs, ids CAS, metadata CAS, deletes".into(),
            json!({"writes": log.iter().map(|(o, p, _)| format!("{o} {p}")).collect::<Vec<_>>()}));
    }
    let ctx0 = json!({"history": hno, "config": cfg.json(), "ops": ops});
    explore_prefixes(out, rng, &cfg, base, &log, &live, None, &ctx0, style, &centers, None, true).await;

    // ---- a second writer with stale CAS tokens must not overwrite ids / metadata
    let a = Hnsw::bootstrap(FIELD.to_string(), connect(store.clone()).await).await.expect("bootstrap A");
    let b = Hnsw::bootstrap(FIELD.to_string(), connect(store.clone()).await).await.expect("bootstrap B");
    let (ida, idb) = (1_000_001u64, 1_000_002u64);
    let va = gen_vector(rng, cfg.dim, style, &centers);
    let vb = gen_vector(rng, cfg.dim, style, &centers);
    a.insert(ida, to_bf16(&va), 300).expect("insert A");
    b.insert(idb, to_bf16(&vb), 300).expect("insert B");
    a.flush(301).await.expect("flush A");
    let rb = b.flush(302).await;
    out.evaluations += 1;
    out.count("wrapper:second-writer");
    let ctxc = json!({"wrapper": ctx0, "scenario": "second writer with stale versions"});
    if rb.is_ok() {
        out.fail("cas-lost-update", "a flush with stale ids/metadata versions succeeded over a newer commit".into(), ctxc.clone());
    }
    let mut expect = live.clone();
    expect.insert(ida, va);
    let sc = connect(store.clone()).await;
    match Hnsw::bootstrap(FIELD.to_string(), sc.clone()).await {
        Err(e) => out.fail("wrapper-bootstrap-error", format!("bootstrap after a refused flush failed: {e}"), ctxc.clone()),
        Ok(c) => {
            if c.stats().num_elements as usize != expect.len() {
                out.fail("cas-state", format!("{} vectors after the refused flush, expected {}", c.stats().num_elements, expect.len()), ctxc.clone());
            }
            if blob_ids(&sc).await.contains(&idb) {
                out.fail("orphan-left", "the refused writer's node blob survived bootstrap".into(), ctxc.clone());
            } else {
                out.count("wrapper:orphan-swept");
            }
            for _ in 0..3 {
                let (q, qkind) = gen_query(rng, &cfg, style, &centers, &expect);
                let kk = rng.range(1, expect.len() as i64 + 1) as usize;
                let ctxq = json!({"history": ctxc, "query_kind": qkind});
                check_results(out, &cfg, &expect, &q, kk, wsearch(&c, &q, kk), &ctxq);
            }
        }
    }
}

/// recall workload measured through any search function
pub(crate) struct WBench {
    pub(crate) queries: Vec<Vec<f32>>,
    pub(crate) seed: u64,
}

impl WBench {
    pub(crate) fn measure(&self, out: &mut Out, cfg: &Cfg, data: &BTreeMap<u64, Vec<f32>>,
        search: &dyn Fn(&[f32], usize) -> Result<Vec<(u64, f32)>, (i64, String)>, what: &str) -> (f64, f64) {
        let k = 10;
        let (mut total, mut min) = (0.0, 1.0f64);
        for q in &self.queries {
            let (_, rs) = check_results(out, cfg, data, q, k, search(q, k), &json!({"recall_workload": what}));
            let mut scored: Vec<(u64, f64)> = data.iter().map(|(id, v)| (*id, ref_metric(cfg.metric, q, v))).collect();
            scored.sort_by(|a, b| a.1.partial_cmp(&b.1).unwrap().then(a.0.cmp(&b.0)));
            scored.truncate(k);
            let thr = scored.last().map(|x| x.1).unwrap_or(0.0) * 1.001 + 1e-6;
            let hits = rs.iter().take(k).filter(|(id, _)| {
                scored.iter().any(|s| s.0 == *id) || data.get(id).is_some_and(|v| ref_metric(cfg.metric, q, v) <= thr)
            }).count();
            let r = hits as f64 / k as f64;
            total += r;
            min = min.min(r);
        }
        (total / self.queries.len() as f64, min)
    }
}

/// The documented persistence workload (600 x 16, Euclidean) through the wrapper: round
/// trip, then a second generation whose flush is interrupted at sampled (or all) points.
async fn wrapper_recall(out: &mut Out, rng: &mut Rng, seed: u64, crash_prefixes: usize) {
    let hc = HnswConfig { dimension: 16, distance_metric: DistanceMetric::Euclidean, ..Default::default() };
    let cfg = Cfg { dim: 16, metric: DistanceMetric::Euclidean, strategy: hc.select_neighbors_strategy, reconnect: false,
        m: hc.max_connections, ef_c: hc.ef_construction, ef_s: hc.ef_search, max_layers: hc.max_layers };
    let snap = Arc::new(SnapStore::new(InMemory::new()));
    let store: Arc<dyn ObjectStore> = snap.clone();
    let storage = connect(store.clone()).await;
    let field = Fe::new(FIELD.to_string(), Ft::Vector).expect("field");
    let w = Hnsw::new(&field, hc.clone(), storage.clone(), 1).await.expect("Hnsw::new");
    let mut sm = SplitMix64(seed);
    let mut data: BTreeMap<u64, Vec<f32>> = BTreeMap::new();
    for id in 1..=600u64 {
        let v = sm.next_vector(16);
        w.insert(id, to_bf16(&v), id).expect("insert");
        data.insert(id, v);
    }
    let bench = WBench { queries: (0..30).map(|_| sm.next_vector(16)).collect(), seed };
    let (before, _) = bench.measure(out, &cfg, &data, &|q, k| wsearch(&w, q, k), "wrapper-persist-before");
    w.flush(5000).await.expect("flush");
    let re = Hnsw::bootstrap(FIELD.to_string(), connect(store.clone()).await).await.expect("bootstrap");
    let (a, m) = bench.measure(out, &cfg, &data, &|q, k| wsearch(&re, q, k), "wrapper-persist-after");
    record(out, "wrapper_persistence_600x16", "round-trip", seed, a, m, 0.95f64.max(before - 0.02), 0.0, MARGIN_AVG, 1.0);
    for id in (1..=600u64).filter(|i| i % 10 == 3) {
        w.remove(id, 6000);
        data.remove(&id);
    }
    for id in (1..=600u64).filter(|i| i % 20 == 3) {
        let v = sm.next_vector(16);
        w.insert(id, to_bf16(&v), 6001).expect("re-insert");
        data.insert(id, v);
    }
    for id in 601..=720u64 {
        let v = sm.next_vector(16);
        w.insert(id, to_bf16(&v), 6002).expect("insert");
        data.insert(id, v);
    }
    let base = snap.start();
    w.flush(7000).await.expect("second flush");
    let log = snap.stop();
    if !order_ok(&log) {
        out.fail("flush-order", "write sequence is not node PUTs, ids CAS, metadata CAS, deletes".into(), json!({"recall_workload": "wrapper"}));
    }
    let n = log.len();
    let picks: BTreeSet<usize> = if crash_prefixes >= n { (0..=n).collect() } else {
        let first_cas = log.iter().position(|(o, _, _)| o == "cas-put").unwrap_or(n);
        let mut p: BTreeSet<usize> = [0, 1, first_cas.saturating_sub(1), first_cas, first_cas + 1, (first_cas + 2).min(n), n.saturating_sub(1), n].into_iter().collect();
        while p.len() < crash_prefixes.max(8) { p.insert(rng.below(n as u64 + 1) as usize); }
        p
    };
    let ctx0 = json!({"recall_workload": "wrapper_persistence_600x16", "seed": seed});
    explore_prefixes(out, rng, &cfg, base, &log, &data, Some(&picks), &ctx0, 0, &[], Some(&bench), false).await;
}

pub(crate) fn run(out: &mut Out, rng: &mut Rng, histories: usize, recall_seeds: &[(u64, bool)], crash_prefixes: usize) {
    let rt = tokio::runtime::Builder::new_current_thread().enable_all().build().expect("tokio runtime");
    for h in 0..histories {
        let mut r = rng.fork();
        let res = std::panic::catch_unwind(std::panic::AssertUnwindSafe(|| rt.block_on(wrapper_history(out, &mut r, h))));
        if res.is_err() {
            out.fail("panic", format!("wrapper history {h} panicked"), json!({"wrapper_history": h}));
        }
    }
    for &(s, documented) in recall_seeds {
        let seed = if documented { 1234 } else { 1234 ^ s.wrapping_mul(0x9E37_79B9) };
        let mut r = rng.fork();
        let res = std::panic::catch_unwind(std::panic::AssertUnwindSafe(|| rt.block_on(wrapper_recall(out, &mut r, seed, crash_prefixes))));
        if res.is_err() {
            out.fail("panic", "wrapper recall workload panicked".into(), json!({"seed": seed}));
        }
    }
}
