//! Shared helpers for the verification harness: one PRNG, JSON term builders.
use serde_json::{Value, json};

/// xorshift64* — every random choice of a run derives from one state seeded by VERIF_SEED.
#[derive(Clone)]
pub struct Rng(pub u64);
impl Rng {
    pub fn new(seed: u64) -> Self {
        let mut s = seed ^ 0x9E37_79B9_7F4A_7C15;
        if s == 0 { s = 0x2545_F491_4F6C_DD1D; }
        let mut r = Rng(s);
        for _ in 0..8 { r.next(); }
        r
    }
    pub fn from_env() -> Self {
        let seed = std::env::var("VERIF_SEED").ok().and_then(|s| s.parse::<u64>().ok()).unwrap_or(1);
        Rng::new(seed)
    }
    pub fn next(&mut self) -> u64 {
        let mut x = self.0;
        x ^= x >> 12; x ^= x << 25; x ^= x >> 27;
        self.0 = x;
        x.wrapping_mul(0x2545_F491_4F6C_DD1D)
    }
    pub fn below(&mut self, n: u64) -> u64 { if n == 0 { 0 } else { self.next() % n } }
    pub fn range(&mut self, lo: i64, hi: i64) -> i64 { lo + self.below((hi - lo + 1) as u64) as i64 }
    pub fn chance(&mut self, num: u64, den: u64) -> bool { self.below(den) < num }
    pub fn pick<'a, T>(&mut self, xs: &'a [T]) -> &'a T { &xs[self.below(xs.len() as u64) as usize] }
    pub fn shuffle<T>(&mut self, xs: &mut [T]) {
        for i in (1..xs.len()).rev() { let j = self.below(i as u64 + 1) as usize; xs.swap(i, j); }
    }
    pub fn fork(&mut self) -> Rng { Rng::new(self.next()) }
}

/// JSON encoding of Coq terms understood by lib/coqterm.py:
/// int -> Z, bool, string, list -> list, {"t":[..]} tuple, {"c":name,"a":[..]} constructor,
/// null -> None, {"some":x} -> Some x, {"fbits":u64} -> binary64 literal.
pub fn tup(xs: Vec<Value>) -> Value { json!({"t": xs}) }
pub fn ctor(name: &str, args: Vec<Value>) -> Value { json!({"c": name, "a": args}) }
pub fn some(x: Value) -> Value { json!({"some": x}) }
pub fn fbits(x: f64) -> Value { json!({"fbits": x.to_bits()}) }
pub fn nat(n: usize) -> Value { json!({"nat": n}) }

pub fn env_usize(name: &str, default: usize) -> usize {
    std::env::var(name).ok().and_then(|s| s.parse().ok()).unwrap_or(default)
}

pub fn arg_value(args: &[String], flag: &str) -> Option<String> {
    args.iter().position(|a| a == flag).and_then(|i| args.get(i + 1).cloned())
}
