//! probe <file>: statements separated by lines containing only `;;`; a statement starting with
//! `DRY ` runs as a dry run; `?? ` prefix prints the answer of a read.
use crate::world::*;

pub async fn main(args: &[String]) {
    let text = std::fs::read_to_string(&args[0]).expect("file");
    let verbose = args.iter().any(|a| a == "-v");
    let w = World::new("probe").await;
    let mut before = w.dump().await;
    println!("initial: seq={} journal={} vlog={} other={:?}", before.seq, before.journal.len(), before.vlog.len(), before.other.keys().collect::<Vec<_>>());
    for stmt in text.split("\n;;\n") {
        let stmt = stmt.trim();
        if stmt.is_empty() { continue; }
        if let Some(q) = stmt.strip_prefix("?? ") {
            println!("ASK {q}\n  -> {}", w.ask(q).await);
            continue;
        }
        let (dry, body) = match stmt.strip_prefix("DRY ") { Some(b) => (true, b), None => (false, stmt) };
        let r = w.run(body, dry).await;
        let after = w.dump().await;
        println!("---- {}{}", if dry { "[dry] " } else { "" }, body.replace('\n', " "));
        println!("  class={} code={} seq={:?} changes={:?} handles={:?}", r.class, r.error_code, r.seq, r.changes, r.handles);
        if verbose { println!("  raw={}", r.raw); }
        println!("  space seq {} -> {}", before.seq, after.seq);
        for e in &after.elems {
            match before.elems.iter().find(|x| x.id == e.id) {
                None => println!("  + {} v{} {} seq{} ident={:?}", e.id, e.version, e.state, e.seq, e.ident),
                Some(x) if x != e => println!("  ~ {} v{}->v{} {}->{}", e.id, x.version, e.version, x.state, e.state),
                _ => {}
            }
        }
        for e in &before.elems {
            if !after.elems.iter().any(|x| x.id == e.id) { println!("  - {} v{} {}", e.id, e.version, e.state); }
        }
        println!("  journal {} -> {} ; vlog {} -> {}", before.journal.len(), after.journal.len(), before.vlog.len(), after.vlog.len());
        if let Some(j) = after.journal.last() { if after.journal.len() != before.journal.len() { println!("  journal+ seq={} status={} changed={:?} at={}", j.seq, j.status, j.changed, j.committed_at); } }
        for v in after.vlog.iter().skip(before.vlog.len()) { println!("  vlog+ {} v{} seq{} op={} state={}", v.element, v.version, v.seq, v.op, v.state); }
        for (k, v) in &after.other { if before.other.get(k) != Some(v) { println!("  other~ {k}"); } }
        for (k, v) in &after.answers {
            if before.answers.get(k) != Some(v) {
                println!("  answer~ {k}");
                if verbose { println!("     before={}\n     after ={}", before.answers_raw.get(k).unwrap_or(&serde_json::Value::Null), after.answers_raw.get(k).unwrap()); }
            }
        }
        before = after;
    }
}
