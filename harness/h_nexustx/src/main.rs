mod world;
mod probe;
mod genstmt;
mod c17;
mod c18;

fn main() {
    let args: Vec<String> = std::env::args().collect();
    let rt = tokio::runtime::Builder::new_multi_thread().worker_threads(4).enable_all().build().unwrap();
    match args.get(1).map(|s| s.as_str()) {
        Some("c17") => rt.block_on(c17::main(&args[2..])),
        Some("c18") => rt.block_on(c18::main(&args[2..])),
        Some("probe") => rt.block_on(probe::main(&args[2..])),
        _ => {
            eprintln!("usage: h_nexustx <c17|c18|probe> ...");
            std::process::exit(2);
        }
    }
}
