//! C18 — record a fixed battery of queries live at every committed point of a history and replay them
//! AS OF SEQ / TX / TIME after every later statement; compare Store::element_at / elements_at /
//! seq_at_time / seq_of_transaction with the Coq model of store/history.rs on the real version log.
use crate::c17::*;
use crate::genstmt::*;
use crate::world::*;
use anda_cognitive_nexus::nexus::DEFAULT_SPACE;
use h_common::*;
use serde_json::{Value, json};
use std::collections::BTreeMap;
use std::io::Write;

/// `{A}` is where `AS OF ...` goes (after the WHERE block, before ORDER BY).
pub const BATTERY: [(&str, &str); 27] = [
    ("element", r#"FIND(?c) WHERE { ?c CONCEPT {type: "Person"} } {A} ORDER BY ?c.id"#),
    ("element", r#"FIND(?c.id, ?c.name, ?c._system.version, ?c.attributes.description) WHERE { ?c CONCEPT {} } {A} ORDER BY ?c.id"#),
    ("element-state", r#"FIND(?c.id, ?c._system.version) WHERE { ?c CONCEPT {state: "archived"} } {A} ORDER BY ?c.id"#),
    ("element-state", r#"FIND(?c.id, ?c._system.version) WHERE { ?c CONCEPT {state: "tombstoned"} } {A} ORDER BY ?c.id"#),
    ("element-state", r#"FIND(?c.id, ?c.merged_into) WHERE { ?c CONCEPT {state: "merged"} } {A} ORDER BY ?c.id"#),
    ("element", r#"FIND(?c.id, ?c.facets) WHERE { ?c CONCEPT {type: "Person"} } {A} ORDER BY ?c.id"#),
    ("element", r#"FIND(?c.id, ?c.retention) WHERE { ?c CONCEPT {key: "k1"} } {A}"#),
    ("tuple", r#"FIND(?p) WHERE { ?p PROPOSITION (?s, "prefers", ?o) } {A} ORDER BY ?p.id"#),
    ("tuple", r#"FIND(?s.name, ?o.name) WHERE { (?s, "prefers", ?o) } {A} ORDER BY ?s.name, ?o.name"#),
    ("tuple", r#"FIND(?p.id, ?p.attributes) WHERE { ?p PROPOSITION (?s, ?pred, ?o) } {A} ORDER BY ?p.id"#),
    ("path", r#"FIND(?a.id, ?b.id) WHERE { (?a, "same_as"{1,2}, ?b) } {A} ORDER BY ?a.id, ?b.id"#),
    ("path", r#"FIND(?a.id, ?b.id) WHERE { (?a, "prefers" | "same_as", ?b) } {A} ORDER BY ?a.id, ?b.id"#),
    ("element", r#"FIND(?a) WHERE { ?a ASSERTION {} } {A} ORDER BY ?a.id"#),
    ("element", r#"FIND(?a.id, ?a.lifecycle.status, ?a.confidence, ?a.lifecycle.superseded_by) WHERE { ?a ASSERTION {stance: "reject"} } {A} ORDER BY ?a.id"#),
    ("filter", r#"FIND(?a.id) WHERE { ?a ASSERTION {} FILTER(?a.confidence > 0.5) } {A} ORDER BY ?a.id"#),
    ("filter", r#"FIND(?c.name) WHERE { ?c CONCEPT {type: "Person"} FILTER(CONTAINS(?c.name, "a")) } {A} ORDER BY ?c.name"#),
    ("not", r#"FIND(?c.id) WHERE { ?c CONCEPT {type: "Person"} NOT { (?c, "prefers", ?o) } } {A} ORDER BY ?c.id"#),
    ("aggregate", r#"FIND(COUNT(?c)) WHERE { ?c CONCEPT {} } {A}"#),
    ("aggregate", r#"FIND(COUNT(?a), AVG(?a.confidence)) WHERE { ?a ASSERTION {} } {A}"#),
    ("aggregate", r#"FIND(COUNT(DISTINCT ?a.stance)) WHERE { ?a ASSERTION {} } {A}"#),
    ("belief", r#"FIND(?p.id, ?b.status, ?b.support.score, ?b.opposition.score) WHERE { ?p PROPOSITION (?s, "prefers", ?o) ?b BELIEF (?p) } {A} ORDER BY ?p.id"#),
    ("slot", r#"FIND(?c.id, ?slot) WHERE { ?c CONCEPT {type: "Person"} ?slot BELIEF SLOT (?c, "prefers") } {A} ORDER BY ?c.id"#),
    ("element", r#"FIND(?e.id, ?e.lifecycle, ?e.payload) WHERE { ?e EVIDENCE {} } {A} ORDER BY ?e.id"#),
    ("element", r#"FIND(?v.id, ?v.status, ?v.ended_at) WHERE { ?v ACTIVITY {} } {A} ORDER BY ?v.id"#),
    ("structural", r#"FIND(?a.id, ?e.id) WHERE { ?edge STRUCTURAL (?a, "evidence", ?e) } {A} ORDER BY ?a.id, ?e.id"#),
    ("structural", r#"FIND(?v.id, ?e.id) WHERE { ?edge STRUCTURAL (?v, "outputs", ?e) } {A} ORDER BY ?v.id, ?e.id"#),
    ("optional", r#"FIND(?c.id, ?o.id) WHERE { ?c CONCEPT {type: "Person"} OPTIONAL { (?c, "prefers", ?o) } } {A} ORDER BY ?c.id, ?o.id"#),
];

fn q(template: &str, as_of: &str) -> String {
    template.replace("{A}", as_of).replace("  ", " ")
}

struct Coord {
    seq: u64,
    tx: String,
    time: String,
    answers: Vec<Value>,
    schema_env: Value,
}

fn rowdig(e: &anda_cognitive_nexus::Element) -> (u64, i64) {
    use anda_cognitive_nexus::Element::*;
    let v = match e {
        Concept(r) => serde_json::to_value(r),
        Proposition(r) => serde_json::to_value(r),
        Assertion(r) => serde_json::to_value(r),
        Evidence(r) => serde_json::to_value(r),
        Activity(r) => serde_json::to_value(r),
    }
    .unwrap_or(Value::Null);
    (e.version(), hjson(&v))
}

pub async fn main(args: &[String]) {
    let out_path = arg_value(args, "--out").unwrap_or_else(|| "/dev/stdout".into());
    let histories = arg_value(args, "--histories").and_then(|s| s.parse().ok()).unwrap_or(4usize);
    let steps = arg_value(args, "--steps").and_then(|s| s.parse().ok()).unwrap_or(14usize);
    let all_forms = args.iter().any(|a| a == "--all-forms");
    let mut out = std::io::BufWriter::new(std::fs::File::create(&out_path).expect("out"));
    let mut rng = Rng::from_env();
    let mut failures: Vec<Value> = vec![];
    let mut replays = 0usize;
    let mut by_family: BTreeMap<String, usize> = BTreeMap::new();
    let mut by_form: BTreeMap<String, usize> = BTreeMap::new();
    let mut nontrivial: Vec<String> = vec![];
    let mut later_kinds: BTreeMap<String, usize> = BTreeMap::new();
    let mut commits = 0usize;
    let mut samples: Vec<Value> = vec![];
    for h in 0..histories {
        let w = World::new(&format!("c18_{h}")).await;
        let mut g = Gen::new(rng.fork(), 12, 5);
        let mut coords: Vec<Coord> = vec![];
        let mut stmts: Vec<Value> = vec![];
        let mut d = w.dump_store().await;
        for i in 0..steps {
            let stmt = g.next(&Mirror::from_dump(&d));
            let r = w.run_with(&stmt.text, stmt.dry, stmt.params.as_ref()).await;
            stmts.push(json!({"text": stmt.text, "params": stmt.params, "dry": stmt.dry, "class": r.class, "error": r.error_code, "seq": r.seq}));
            d = w.dump_store().await;
            for c in &r.changes {
                *later_kinds.entry(c.2.clone()).or_default() += 1;
            }
            if r.class == "committed" || r.class == "no_effect" {
                commits += 1;
                let mut answers = vec![];
                for (_, template) in BATTERY.iter() {
                    answers.push(w.ask(&q(template, "")).await);
                }
                let schema_env = w.ask("DESCRIBE SCHEMA ENVIRONMENT").await;
                if samples.len() < 2 && !r.changes.is_empty() {
                    samples.push(json!({"seq": r.seq, "query": q(BATTERY[1].1, ""), "answer": answers[1]}));
                }
                coords.push(Coord {
                    seq: r.seq.unwrap_or(0),
                    tx: r.tx_id.clone().unwrap_or_default(),
                    time: r.committed_at.clone().unwrap_or_default(),
                    answers,
                    schema_env,
                });
            }
            // replay every recorded coordinate after this statement, whatever it did
            for (ci, c) in coords.iter().enumerate() {
                let mut forms = vec![("SEQ", format!("AS OF SEQ {}", c.seq), c.seq)];
                // a burnt or later coordinate below the next commit reads the same state
                let next = coords.get(ci + 1).map(|n| n.seq).unwrap_or(d.seq + 1);
                if next > c.seq + 1 {
                    forms.push(("SEQ-gap", format!("AS OF SEQ {}", next - 1), c.seq));
                }
                if all_forms || (ci + i) % 3 == 0 {
                    forms.push(("TX", format!(r#"AS OF TX "{}""#, c.tx), c.seq));
                }
                if all_forms || (ci + i) % 3 == 1 {
                    // AS OF TIME resolves to the last commit at or before the instant
                    let want = coords.iter().filter(|x| x.time <= c.time).map(|x| x.seq).max().unwrap_or(0);
                    forms.push(("TIME", format!(r#"AS OF TIME "{}""#, c.time), want));
                }
                for (form, clause, want_seq) in forms {
                    let Some(expected) = coords.iter().find(|x| x.seq == want_seq) else { continue };
                    for (qi, (family, template)) in BATTERY.iter().enumerate() {
                        let text = q(template, &clause);
                        let got = w.ask(&text).await;
                        replays += 1;
                        *by_family.entry(family.to_string()).or_default() += 1;
                        *by_form.entry(form.to_string()).or_default() += 1;
                        let live_now = coords.last().map(|l| &l.answers[qi]);
                        if Some(&expected.answers[qi]) != live_now {
                            nontrivial.push(format!("{h}/{}/{qi}", c.seq));
                        }
                        if got != expected.answers[qi] {
                            // a pattern constraining `state` is a family of its own (known_findings.json)
                            let class = if template.contains("{state: \"") { "asof-state-constraint" } else { "asof-differs" };
                            failures.push(json!({"class": class, "what": format!("{family} query answers differently {clause} than when seq {} was current", want_seq),
                                "history": h, "after_statement": i, "query": text, "form": form,
                                "recorded": expected.answers[qi], "replayed": got, "statements": stmts.clone()}));
                        }
                    }
                    let env = w.ask(&format!("DESCRIBE SCHEMA ENVIRONMENT {clause}")).await;
                    replays += 1;
                    if env != expected.schema_env {
                        failures.push(json!({"class": "asof-schema-differs", "what": format!("schema environment {clause} differs from the one in force at seq {want_seq}"),
                            "history": h, "after_statement": i, "recorded": expected.schema_env, "replayed": env, "statements": stmts.clone()}));
                    }
                }
            }
        }
        // ---- the model of history.rs against the implementation, on the final log
        let store = &w.nexus.store;
        let mut aq = vec![];
        for e in &d.elems {
            let id: anda_cognitive_nexus::id::ElementId = e.id.parse().expect("id");
            for s in 0..=d.seq + 1 {
                let got = store.element_at(DEFAULT_SPACE, id, s).await.ok().flatten().map(|x| rowdig(&x));
                // direct oracle: the greatest (seq, version) among this element's rows at or before s
                let want = d.vlog.iter().filter(|v| v.element == e.id && v.seq <= s).max_by_key(|v| (v.seq, v.version)).map(|v| (v.version, v.digest));
                if got != want {
                    failures.push(json!({"class": "element-at", "what": format!("element_at({}, {s}) = {:?}, the log says {:?}", e.id, got, want), "history": h, "statements": stmts.clone()}));
                }
                aq.push(tup(vec![json!(eid(&e.id)), json!(s), match got { Some((v, dg)) => some(tup(vec![json!(v), json!(dg)])), None => Value::Null }]));
            }
        }
        let mut kq = vec![];
        for (kind, _, _) in KINDS {
            for s in 0..=d.seq {
                let got = store.elements_at(DEFAULT_SPACE, kind_of(kind), s).await.unwrap_or_default();
                let obs: Vec<Value> = got.iter().map(|x| { let (v, dg) = rowdig(x); tup(vec![json!(eid(&x.id().to_string())), json!(v), json!(dg)]) }).collect();
                kq.push(tup(vec![json!(kind_code(kind)), json!(s), json!(obs)]));
            }
        }
        let mut ts = vec![];
        let mut txs = vec![];
        for j in &d.journal {
            let got = store.seq_at_time(DEFAULT_SPACE, &j.committed_at).await.unwrap_or(u64::MAX);
            ts.push(tup(vec![json!(time_rank(&j.committed_at)), json!(got)]));
            let got = store.seq_of_transaction(DEFAULT_SPACE, &j.tx_id).await.ok();
            txs.push(tup(vec![json!(j.seq), match got { Some(x) => some(json!(x)), None => Value::Null }]));
        }
        let got = store.seq_at_time(DEFAULT_SPACE, "2000-01-01T00:00:00.000Z").await.unwrap_or(u64::MAX);
        ts.push(tup(vec![json!(time_rank("2000-01-01T00:00:00.000Z")), json!(got)]));
        let got = store.seq_of_transaction(DEFAULT_SPACE, &format!("{DEFAULT_SPACE}#{}", d.seq + 7)).await.ok();
        txs.push(tup(vec![json!(d.seq + 7), match got { Some(x) => some(json!(x)), None => Value::Null }]));
        let vl: Vec<Value> = d.vlog.iter().map(vrow_term).collect();
        let jl = space_term(&d)["a"][1].clone();
        writeln!(out, "{}", json!({"kind": "element_at", "case": tup(vec![json!(vl), json!(aq)]), "history": h, "queries": aq.len()})).unwrap();
        writeln!(out, "{}", json!({"kind": "elements_at", "case": tup(vec![json!(vl), json!(kq)]), "history": h, "queries": kq.len()})).unwrap();
        writeln!(out, "{}", json!({"kind": "coordinates", "case": tup(vec![jl, json!(ts), json!(txs)]), "history": h})).unwrap();
    }
    nontrivial.sort();
    nontrivial.dedup();
    let nfail = failures.len();
    let mut failure_classes: BTreeMap<String, usize> = BTreeMap::new();
    for f in &failures {
        *failure_classes.entry(f["class"].as_str().unwrap_or("").to_string()).or_default() += 1;
    }
    // keep a few of every class
    let mut kept: BTreeMap<String, usize> = BTreeMap::new();
    failures.retain(|f| {
        let n = kept.entry(f["class"].as_str().unwrap_or("").to_string()).or_default();
        *n += 1;
        *n <= 4
    });
    let summary = json!({"kind": "summary", "histories": histories, "commits": commits, "replays": replays, "by_family": by_family,
                         "by_form": by_form, "later_change_ops": later_kinds, "distinct_nontrivial": nontrivial.len(),
                         "battery": BATTERY.iter().map(|b| b.1).collect::<Vec<_>>(), "samples": samples,
                         "oracle_failures": nfail, "failure_classes": failure_classes, "failures": failures});
    writeln!(out, "{summary}").unwrap();
    out.flush().unwrap();
}
