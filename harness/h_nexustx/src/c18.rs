//! C18 — record a fixed battery of queries live at every committed point of a history and replay them
//! AS OF SEQ / TX / TIME after every later statement; compare Store::element_at / elements_at /
//! seq_at_time / seq_of_transaction with the Coq model of store/history.rs on the real version log.
use crate::c17::*;
use crate::genstmt::*;
use crate::world::*;
use anda_cognitive_nexus::nexus::DEFAULT_SPACE;
use anda_cognitive_nexus::schema::{PackageState, SchemaLock, SchemaPackage};
use h_common::*;
use serde_json::{Value, json};
use std::collections::BTreeMap;
use std::io::Write;

/// `{A}` is where `AS OF ...` goes (after the WHERE block, before ORDER BY).
/// Every pattern family the property lists, and for every element kind the lifecycle states a later
/// statement can move it to (archived / tombstoned / merged / purged, retracted / superseded / corrected).
pub fn battery() -> Vec<(&'static str, String)> {
    let mut b: Vec<(&'static str, String)> = vec![
        ("element", r#"FIND(?c) WHERE { ?c CONCEPT {type: "Person"} } {A} ORDER BY ?c.id"#.into()),
        ("element", r#"FIND(?c.id, ?c.name, ?c._system.version, ?c.attributes.description) WHERE { ?c CONCEPT {} } {A} ORDER BY ?c.id"#.into()),
        ("element", r#"FIND(?c.id, ?c.facets) WHERE { ?c CONCEPT {type: "Person"} } {A} ORDER BY ?c.id"#.into()),
        ("element", r#"FIND(?c.id, ?c.retention) WHERE { ?c CONCEPT {key: "k1"} } {A}"#.into()),
        ("element-by-id", r#"FIND(?c.name, ?c._system.state, ?c._system.version) WHERE { ?c CONCEPT {id: "C-1"} } {A}"#.into()),
        ("element-by-id", r#"FIND(?c.name, ?c._system.version) WHERE { ?c CONCEPT {id: "C-2", state: "archived"} } {A}"#.into()),
        ("element-state-bind", r#"FIND(?c.id, ?s) WHERE { ?c CONCEPT {state: ?s} } {A} ORDER BY ?c.id"#.into()),
        ("tuple", r#"FIND(?p) WHERE { ?p PROPOSITION (?s, "prefers", ?o) } {A} ORDER BY ?p.id"#.into()),
        ("tuple", r#"FIND(?s.name, ?o.name) WHERE { (?s, "prefers", ?o) } {A} ORDER BY ?s.name, ?o.name"#.into()),
        ("tuple", r#"FIND(?p.id, ?p.attributes) WHERE { ?p PROPOSITION (?s, ?pred, ?o) } {A} ORDER BY ?p.id"#.into()),
        ("tuple", r#"FIND(?p.id, ?s.id, ?o.id) WHERE { ?p PROPOSITION (?s, "same_as", ?o) } {A} ORDER BY ?p.id"#.into()),
        ("tuple-anchored", r#"FIND(?s.id, ?o.id) WHERE { ?s CONCEPT {type: "Person"} (?s, "prefers", ?o) } {A} ORDER BY ?s.id, ?o.id"#.into()),
        ("tuple-anchored", r#"FIND(?p.id, ?s.id) WHERE { ?o CONCEPT {type: "Preference"} ?p PROPOSITION (?s, "prefers", ?o) } {A} ORDER BY ?p.id"#.into()),
        ("tuple-count", r#"FIND(COUNT(?p)) WHERE { ?p PROPOSITION (?s, ?pred, ?o) } {A}"#.into()),
        ("tuple-count", r#"FIND(COUNT(?o)) WHERE { (?s, "prefers", ?o) } {A}"#.into()),
        ("tuple-by-id", r#"FIND(?p.id, ?p._system.state, ?p._system.version) WHERE { ?p PROPOSITION (id: "P-1") } {A}"#.into()),
        ("tuple-by-id", r#"FIND(?p.id, ?p._system.state, ?p._system.version) WHERE { ?p PROPOSITION (id: "P-2") } {A}"#.into()),
        ("tuple-join", r#"FIND(?a.id, ?p.id) WHERE { ?p PROPOSITION (?s, ?pred, ?o) ?a ASSERTION {proposition: ?p} } {A} ORDER BY ?a.id"#.into()),
        ("path", r#"FIND(?a.id, ?b.id) WHERE { (?a, "same_as"{1,2}, ?b) } {A} ORDER BY ?a.id, ?b.id"#.into()),
        ("path", r#"FIND(?a.id, ?b.id) WHERE { (?a, "prefers"{1,3}, ?b) } {A} ORDER BY ?a.id, ?b.id"#.into()),
        ("path", r#"FIND(?a.id, ?b.id) WHERE { (?a, "prefers" | "same_as", ?b) } {A} ORDER BY ?a.id, ?b.id"#.into()),
        ("path-count", r#"FIND(COUNT(?b)) WHERE { (?a, "prefers"{1,2} | "same_as", ?b) } {A}"#.into()),
        ("element", r#"FIND(?a) WHERE { ?a ASSERTION {} } {A} ORDER BY ?a.id"#.into()),
        ("element", r#"FIND(?a.id, ?a.lifecycle.status, ?a.confidence, ?a.lifecycle.superseded_by) WHERE { ?a ASSERTION {stance: "reject"} } {A} ORDER BY ?a.id"#.into()),
        ("filter", r#"FIND(?a.id) WHERE { ?a ASSERTION {} FILTER(?a.confidence > 0.5) } {A} ORDER BY ?a.id"#.into()),
        // a matcher value that is not a string (no index takes it: it is compared with the view on both paths)
        ("matcher-nonstring", r#"FIND(?a.id) WHERE { ?a ASSERTION {confidence: 0.5} } {A} ORDER BY ?a.id"#.into()),
        ("matcher-nonstring", r#"FIND(?a.id, ?a.mode) WHERE { ?a ASSERTION {stance: "reject", confidence: 0.7} } {A} ORDER BY ?a.id"#.into()),
        ("matcher-nonstring", r#"FIND(?c.id) WHERE { ?c CONCEPT {type: "Person", aliases: []} } {A} ORDER BY ?c.id"#.into()),
        ("filter", r#"FIND(?c.name) WHERE { ?c CONCEPT {type: "Person"} FILTER(CONTAINS(?c.name, "a")) } {A} ORDER BY ?c.name"#.into()),
        ("not", r#"FIND(?c.id) WHERE { ?c CONCEPT {type: "Person"} NOT { (?c, "prefers", ?o) } } {A} ORDER BY ?c.id"#.into()),
        ("optional", r#"FIND(?c.id, ?o.id) WHERE { ?c CONCEPT {type: "Person"} OPTIONAL { (?c, "prefers", ?o) } } {A} ORDER BY ?c.id, ?o.id"#.into()),
        ("union", r#"FIND(?x.id) WHERE { ?x CONCEPT {type: "Preference"} UNION { ?x CONCEPT {key: "k2"} } } {A} ORDER BY ?x.id"#.into()),
        ("aggregate", r#"FIND(COUNT(?c)) WHERE { ?c CONCEPT {} } {A}"#.into()),
        ("aggregate", r#"FIND(COUNT(?a), AVG(?a.confidence)) WHERE { ?a ASSERTION {} } {A}"#.into()),
        ("aggregate", r#"FIND(COUNT(DISTINCT ?a.stance)) WHERE { ?a ASSERTION {} } {A}"#.into()),
        ("belief", r#"FIND(?p.id, ?b.status, ?b.support.score, ?b.opposition.score) WHERE { ?p PROPOSITION (?s, "prefers", ?o) ?b BELIEF (?p) } {A} ORDER BY ?p.id"#.into()),
        ("slot", r#"FIND(?c.id, ?slot) WHERE { ?c CONCEPT {type: "Person"} ?slot BELIEF SLOT (?c, "prefers") } {A} ORDER BY ?c.id"#.into()),
        ("element", r#"FIND(?e.id, ?e.lifecycle, ?e.payload) WHERE { ?e EVIDENCE {} } {A} ORDER BY ?e.id"#.into()),
        ("element", r#"FIND(?v.id, ?v.status, ?v.ended_at) WHERE { ?v ACTIVITY {} } {A} ORDER BY ?v.id"#.into()),
        ("structural", r#"FIND(?a.id, ?e.id) WHERE { ?edge STRUCTURAL (?a, "evidence", ?e) } {A} ORDER BY ?a.id, ?e.id"#.into()),
        ("structural", r#"FIND(?v.id, ?e.id) WHERE { ?edge STRUCTURAL (?v, "outputs", ?e) } {A} ORDER BY ?v.id, ?e.id"#.into()),
        ("structural-count", r#"FIND(COUNT(?e)) WHERE { ?edge STRUCTURAL (?a, "evidence", ?e) } {A}"#.into()),
        // resolved under the schema environment of the coordinate: `leads_to` exists only after the second activation
        ("schema-env", r#"FIND(?a.id, ?b.id) WHERE { (?a, "leads_to", ?b) } {A} ORDER BY ?a.id, ?b.id"#.into()),
        ("lifecycle-status", r#"FIND(?a.id, ?a._system.version) WHERE { ?a ASSERTION {status: "retracted"} } {A} ORDER BY ?a.id"#.into()),
        ("lifecycle-status", r#"FIND(?a.id, ?a.lifecycle.superseded_by) WHERE { ?a ASSERTION {status: "superseded"} } {A} ORDER BY ?a.id"#.into()),
        ("lifecycle-status", r#"FIND(?e.id, ?e.lifecycle) WHERE { ?e EVIDENCE {status: "corrected"} } {A} ORDER BY ?e.id"#.into()),
        ("lifecycle-status", r#"FIND(?v.id) WHERE { ?v ACTIVITY {status: "completed"} } {A} ORDER BY ?v.id"#.into()),
    ];
    for (kw, states) in [
        ("CONCEPT", &["archived", "tombstoned", "merged", "purged"][..]),
        ("ASSERTION", &["archived", "tombstoned", "purged"][..]),
        ("EVIDENCE", &["archived", "tombstoned"][..]),
        ("ACTIVITY", &["archived", "tombstoned"][..]),
    ] {
        for st in states {
            b.push(("element-state", format!(r#"FIND(?x.id, ?x._system.version) WHERE {{ ?x {kw} {{state: "{st}"}} }} {{A}} ORDER BY ?x.id"#)));
        }
    }
    b
}

/// A second package, so that a history can activate a second Schema Environment (tests/traversal.rs).
const CHAIN_PROFILE: &str = r#"{
  "format": "KIP-Schema-Package",
  "format_version": "2.0",
  "manifest": {"package_id": "kip://test/chain", "version": "1.0.0", "package_ref": "kip://test/chain@1.0.0", "name": "Chain test package"},
  "definitions": {"predicates": {"leads_to": {"ref": "kip://test/chain@1.0.0/leads_to", "kind": "PredicateType",
     "subject": {"kinds": ["Concept"]}, "object": {"kinds": ["Concept"]}}}}
}"#;

/// DESCRIBE SCHEMA ENVIRONMENT [AS OF ...]: the environment described, without the reply's own context block
/// (which names the environment the META command itself ran under - the present one).
async fn schema_env(w: &World, clause: &str) -> Value {
    let a = w.ask(&format!("DESCRIBE SCHEMA ENVIRONMENT {clause}")).await;
    json!({"status": a["status"], "error": a["error"],
           "result": a["results"].get(0).map(|r| r["result"].clone()).unwrap_or(Value::Null)})
}

/// "2026-09-23T04:51:56.603Z" -> milliseconds since 1970 (the engine's one normalized UTC form)
fn parse_ms(t: &str) -> Option<i64> {
    let n = |a: usize, b: usize| t.get(a..b)?.parse::<i64>().ok();
    let (y, mo, d, h, mi, s, ms) = (n(0, 4)?, n(5, 7)?, n(8, 10)?, n(11, 13)?, n(14, 16)?, n(17, 19)?, n(20, 23)?);
    // days from civil (Howard Hinnant)
    let y2 = if mo <= 2 { y - 1 } else { y };
    let era = y2.div_euclid(400);
    let yoe = y2 - era * 400;
    let doy = (153 * (if mo > 2 { mo - 3 } else { mo + 9 }) + 2) / 5 + d - 1;
    let doe = yoe * 365 + yoe / 4 - yoe / 100 + doy;
    let days = era * 146097 + doe - 719468;
    Some((((days * 24 + h) * 60 + mi) * 60 + s) * 1000 + ms)
}

/// The instant `ms`, written with a UTC offset of `off_min` minutes; `frac` = keep the millisecond fraction.
fn spell(ms: i64, off_min: i64, frac: bool, zulu: bool) -> String {
    let local = ms + off_min * 60_000;
    let (days, rem) = (local.div_euclid(86_400_000), local.rem_euclid(86_400_000));
    let z = days + 719468;
    let era = z.div_euclid(146097);
    let doe = z - era * 146097;
    let yoe = (doe - doe / 1460 + doe / 36524 - doe / 146096) / 365;
    let doy = doe - (365 * yoe + yoe / 4 - yoe / 100);
    let mp = (5 * doy + 2) / 153;
    let d = doy - (153 * mp + 2) / 5 + 1;
    let m = if mp < 10 { mp + 3 } else { mp - 9 };
    let y = yoe + era * 400 + if m <= 2 { 1 } else { 0 };
    let (h, mi, s, f) = (rem / 3_600_000, rem / 60_000 % 60, rem / 1000 % 60, rem % 1000);
    let fraction = if frac { format!(".{f:03}") } else { String::new() };
    let zone = if zulu && off_min == 0 { "Z".to_string() } else { format!("{}{:02}:{:02}", if off_min < 0 { '-' } else { '+' }, off_min.abs() / 60, off_min.abs() % 60) };
    format!("{y:04}-{m:02}-{d:02}T{h:02}:{mi:02}:{s:02}{fraction}{zone}")
}

fn q(template: &str, as_of: &str) -> String {
    template.replace("{A}", as_of).replace("  ", " ")
}

struct Coord {
    seq: u64,
    tx: String,
    time: String,
    answers: Vec<Value>,
    schema_env: Value,
}

fn rowdig(e: &anda_cognitive_nexus::Element) -> (u64, i64) {
    use anda_cognitive_nexus::Element::*;
    let v = match e {
        Concept(r) => serde_json::to_value(r),
        Proposition(r) => serde_json::to_value(r),
        Assertion(r) => serde_json::to_value(r),
        Evidence(r) => serde_json::to_value(r),
        Activity(r) => serde_json::to_value(r),
    }
    .unwrap_or(Value::Null);
    (e.version(), hjson(&v))
}

pub async fn main(args: &[String]) {
    let out_path = arg_value(args, "--out").unwrap_or_else(|| "/dev/stdout".into());
    let histories = arg_value(args, "--histories").and_then(|s| s.parse().ok()).unwrap_or(4usize);
    let steps = arg_value(args, "--steps").and_then(|s| s.parse().ok()).unwrap_or(14usize);
    let all_forms = args.iter().any(|a| a == "--all-forms");
    let no_purge = args.iter().any(|a| a == "--no-purge");
    let (mut purges, mut activations, mut rebaselined) = (0usize, 0usize, 0usize);
    let mut out = std::io::BufWriter::new(std::fs::File::create(&out_path).expect("out"));
    let mut rng = Rng::from_env();
    let bat = battery();
    let mut failures: Vec<Value> = vec![];
    let mut replays = 0usize;
    let mut by_family: BTreeMap<String, usize> = BTreeMap::new();
    let mut by_form: BTreeMap<String, usize> = BTreeMap::new();
    let mut nontrivial: Vec<String> = vec![];
    let mut later_kinds: BTreeMap<String, usize> = BTreeMap::new();
    let mut commits = 0usize;
    let mut samples: Vec<Value> = vec![];
    for h in 0..histories {
        let w = World::new(&format!("c18_{h}")).await;
        let mut g = Gen::new(rng.fork(), 12, 5);
        g.lifecycle_pct = 30;
        g.purge_pct = if no_purge { 0 } else { 5 };
        let mut coords: Vec<Coord> = vec![];
        let mut stmts: Vec<Value> = vec![];
        let mut d = w.dump_store().await;
        // one history in two activates a second schema environment half way (a journalled governance commit)
        let activate_at = if h % 2 == 0 && steps >= 8 { steps / 2 } else { usize::MAX };
        for i in 0..steps {
            let mut r;
            if i == activate_at {
                let pkg = SchemaPackage::parse(CHAIN_PROFILE).expect("chain package");
                w.nexus.install_package(&pkg, "verif").await.expect("install chain");
                let mut lock = SchemaLock::default();
                for (id, v) in [(PROFILE_ID, "2.0.0"), ("kip://test/chain", "1.0.0")] {
                    lock.packages.insert(id.to_string(), v.to_string());
                    lock.states.insert(id.to_string(), PackageState::Active);
                }
                w.nexus.activate_schema(DEFAULT_SPACE, lock).await.expect("activate chain");
                d = w.dump_store().await;
                let j = d.journal.last().expect("the activation is journalled");
                r = Resp { class: "committed".into(), error_code: String::new(), seq: Some(j.seq), tx_id: Some(j.tx_id.clone()),
                           committed_at: Some(j.committed_at.clone()), changes: vec![], handles: Default::default(), raw: Value::Null };
                stmts.push(json!({"text": "(host) install kip://test/chain@1.0.0 and activate_schema", "class": "committed", "seq": j.seq}));
                activations += 1;
                *later_kinds.entry("schema_activation".into()).or_default() += 1;
            } else {
                let m = Mirror::from_dump(&d);
                let stmt = if activate_at != usize::MAX && i == activate_at + 1 && m.all.iter().filter(|e| e.1 == "concept").count() >= 2 {
                    // a tuple that only the new environment can express
                    let cs: Vec<&String> = m.all.iter().filter(|e| e.1 == "concept").map(|e| &e.0).collect();
                    Stmt { text: r#"ENSURE PROPOSITION ?l (:a, "leads_to", :b)"#.into(), params: Some(json!({"a": cs[0], "b": cs[1]})), dry: false, tag: "leads_to".into() }
                } else {
                    g.next(&m)
                };
                // PURGE is the one statement that may remove the past: remember what every element resolved to
                let is_purge = stmt.tag.starts_with("purge");
                let mut before_purge: BTreeMap<(String, u64), Option<(u64, i64)>> = BTreeMap::new();
                if is_purge {
                    for e in &d.elems {
                        let id: anda_cognitive_nexus::id::ElementId = e.id.parse().expect("id");
                        for c in &coords {
                            before_purge.insert((e.id.clone(), c.seq), w.nexus.store.element_at(DEFAULT_SPACE, id, c.seq).await.ok().flatten().map(|x| rowdig(&x)));
                        }
                    }
                }
                r = w.run_with(&stmt.text, stmt.dry, stmt.params.as_ref()).await;
                stmts.push(json!({"text": stmt.text, "params": stmt.params, "dry": stmt.dry, "class": r.class, "error": r.error_code, "seq": r.seq}));
                d = w.dump_store().await;
                for c in &r.changes {
                    *later_kinds.entry(c.2.clone()).or_default() += 1;
                }
                if is_purge && r.class == "committed" {
                    purges += 1;
                    let purged: Vec<String> = r.changes.iter().filter(|c| c.2 == "purge").map(|c| c.0.clone()).collect();
                    for ((id, s), was) in &before_purge {
                        let eid: anda_cognitive_nexus::id::ElementId = id.parse().expect("id");
                        let now = w.nexus.store.element_at(DEFAULT_SPACE, eid, *s).await.ok().flatten().map(|x| rowdig(&x));
                        if purged.contains(id) {
                            if now.is_some() {
                                failures.push(json!({"class": "purge-left-past", "what": format!("{id} was purged, yet element_at({id}, {s}) still answers {:?}", now), "history": h, "statements": stmts.clone()}));
                            }
                        } else if &now != was {
                            failures.push(json!({"class": "purge-touched-other", "what": format!("PURGE of {:?} changed element_at({id}, {s}) from {:?} to {:?}", purged, was, now), "history": h, "statements": stmts.clone()}));
                        }
                    }
                    // the purged elements' past is gone by design: what the earlier coordinates answer from now on is the new baseline
                    for c in coords.iter_mut() {
                        let clause = format!("AS OF SEQ {}", c.seq);
                        let mut changed = 0;
                        for (qi, (_, template)) in bat.iter().enumerate() {
                            let a = w.ask(&q(template, &clause)).await;
                            if a != c.answers[qi] {
                                changed += 1;
                                c.answers[qi] = a;
                            }
                        }
                        rebaselined += changed;
                    }
                }
                if r.class == "parse_error" {
                    r.class = "refused".into();
                }
            }
            if r.class == "committed" || r.class == "no_effect" {
                commits += 1;
                let mut answers = vec![];
                for (_, template) in bat.iter() {
                    answers.push(w.ask(&q(template, "")).await);
                }
                let schema_env = schema_env(&w, "").await;
                if samples.len() < 2 && !r.changes.is_empty() {
                    samples.push(json!({"seq": r.seq, "query": q(&bat[1].1, ""), "answer": answers[1]}));
                }
                coords.push(Coord {
                    seq: r.seq.unwrap_or(0),
                    tx: r.tx_id.clone().unwrap_or_default(),
                    time: r.committed_at.clone().unwrap_or_default(),
                    answers,
                    schema_env,
                });
            }
            // replay every recorded coordinate after this statement, whatever it did
            for (ci, c) in coords.iter().enumerate() {
                let mut forms = vec![("SEQ", format!("AS OF SEQ {}", c.seq), c.seq)];
                // a burnt or later coordinate below the next commit reads the same state
                let next = coords.get(ci + 1).map(|n| n.seq).unwrap_or(d.seq + 1);
                if next > c.seq + 1 {
                    forms.push(("SEQ-gap", format!("AS OF SEQ {}", next - 1), c.seq));
                }
                if all_forms || (ci + i) % 3 == 0 {
                    forms.push(("TX", format!(r#"AS OF TX "{}""#, c.tx), c.seq));
                }
                if all_forms || (ci + i) % 3 == 1 {
                    // AS OF TIME resolves to the last commit at or before the instant
                    let want = coords.iter().filter(|x| x.time <= c.time).map(|x| x.seq).max().unwrap_or(0);
                    forms.push(("TIME", format!(r#"AS OF TIME "{}""#, c.time), want));
                }
                for (form, clause, want_seq) in forms {
                    let Some(expected) = coords.iter().find(|x| x.seq == want_seq) else { continue };
                    for (qi, (family, template)) in bat.iter().enumerate() {
                        let text = q(template, &clause);
                        let got = w.ask(&text).await;
                        replays += 1;
                        *by_family.entry(family.to_string()).or_default() += 1;
                        *by_form.entry(form.to_string()).or_default() += 1;
                        let live_now = coords.last().map(|l| &l.answers[qi]);
                        if Some(&expected.answers[qi]) != live_now {
                            nontrivial.push(format!("{h}/{}/{qi}", c.seq));
                        }
                        if got != expected.answers[qi] {
                            // a pattern constraining `state` is a family of its own (known_findings.json)
                            let class = if template.contains("{id: ") && template.contains("state: ") {
                                // the PRESENT-day by-id path skips the pushed-down constraints (known_findings.json)
                                "live-by-id-ignores-state"
                            } else if template.contains("{state: \"") {
                                "asof-state-constraint"
                            } else {
                                "asof-differs"
                            };
                            failures.push(json!({"class": class, "what": format!("{family} query answers differently {clause} than when seq {} was current", want_seq),
                                "history": h, "after_statement": i, "query": text, "form": form,
                                "recorded": expected.answers[qi], "replayed": got, "statements": stmts.clone()}));
                        }
                    }
                    let env = schema_env(&w, &clause).await;
                    replays += 1;
                    if env != expected.schema_env {
                        failures.push(json!({"class": "asof-schema-differs", "what": format!("schema environment {clause} differs from the one in force at seq {want_seq}"),
                            "history": h, "after_statement": i, "recorded": expected.schema_env, "replayed": env, "statements": stmts.clone()}));
                    }
                }
            }
        }
        // ---- AS OF TIME names an instant, not a string: every RFC 3339 spelling of one instant - canonical, +00:00,
        // positive and negative offsets, without the fraction where that is exact - at a commit, just after it and
        // between two commits must answer like AS OF SEQ of the commit current at that instant
        let times: Vec<(i64, u64)> = coords.iter().filter_map(|c| parse_ms(&c.time).map(|ms| (ms, c.seq))).collect();
        let mut instants: Vec<i64> = vec![];
        for (k, (ms, _)) in times.iter().enumerate() {
            instants.push(*ms);
            instants.push(*ms + 1);
            if let Some((next, _)) = times.get(k + 1) {
                instants.push((*ms + *next) / 2);
            }
            // the whole second the commit fell in, written without a fraction (exact), when no commit lies in (sec, ms)
            instants.push(ms - ms.rem_euclid(1000) + 1000);
        }
        if let Some((first, _)) = times.first() {
            instants.push(first - 5000);
        }
        instants.sort();
        instants.dedup();
        for (ii, inst) in instants.iter().enumerate() {
            let want_seq = times.iter().filter(|(ms, _)| ms <= inst).map(|(_, s)| *s).max().unwrap_or(0);
            let expected = coords.iter().find(|x| x.seq == want_seq);
            let mut spellings = vec![("canonical", spell(*inst, 0, true, true)), ("+00:00", spell(*inst, 0, true, false)),
                                     ("+08:00", spell(*inst, 480, true, false)), ("-05:00", spell(*inst, -300, true, false)),
                                     ("+05:30", spell(*inst, 330, true, false))];
            if inst.rem_euclid(1000) == 0 {
                spellings.push(("no-fraction", spell(*inst, 0, false, true)));
                spellings.push(("no-fraction-08:00", spell(*inst, -480, false, false)));
            }
            for (sname, text) in spellings {
                let clause = format!(r#"AS OF TIME "{text}""#);
                // the coordinate itself, through SNAPSHOT
                let snap = w.run(&format!("SNAPSHOT {clause}"), false).await;
                let got_seq = snap.raw["results"][0]["result"]["snapshot_seq"].as_u64();
                replays += 1;
                *by_form.entry(format!("TIME:{sname}")).or_default() += 1;
                if got_seq != Some(want_seq) {
                    failures.push(json!({"class": "asof-time-spelling", "what": format!("SNAPSHOT {clause} resolves to seq {:?}; the commit current at that instant is seq {want_seq}", got_seq),
                        "history": h, "query": format!("SNAPSHOT {clause}"), "form": sname, "commit_times": coords.iter().map(|c| (c.seq, c.time.clone())).collect::<Vec<_>>(), "statements": stmts.clone()}));
                }
                // and the recorded queries (all of them in the thorough tier, a rotating sixth otherwise)
                let Some(expected) = expected else { continue };
                for (qi, (family, template)) in bat.iter().enumerate() {
                    if !all_forms && (qi + ii) % 6 != 0 {
                        continue;
                    }
                    let text = q(template, &clause);
                    let got = w.ask(&text).await;
                    replays += 1;
                    *by_family.entry(family.to_string()).or_default() += 1;
                    *by_form.entry(format!("TIME:{sname}")).or_default() += 1;
                    if got != expected.answers[qi] {
                        let class = if template.contains("{id: ") && template.contains("state: ") { "live-by-id-ignores-state" } else { "asof-time-spelling" };
                        failures.push(json!({"class": class, "what": format!("{family} query {clause} answers differently from AS OF SEQ {want_seq}, the commit current at that instant"),
                            "history": h, "query": text, "form": sname, "recorded": expected.answers[qi], "replayed": got, "statements": stmts.clone()}));
                    }
                }
            }
        }
        // ---- the model of history.rs against the implementation, on the final log
        let store = &w.nexus.store;
        let mut aq = vec![];
        for e in &d.elems {
            let id: anda_cognitive_nexus::id::ElementId = e.id.parse().expect("id");
            for s in 0..=d.seq + 1 {
                let got = store.element_at(DEFAULT_SPACE, id, s).await.ok().flatten().map(|x| rowdig(&x));
                // direct oracle: the greatest (seq, version) among this element's rows at or before s
                let want = d.vlog.iter().filter(|v| v.element == e.id && v.seq <= s).max_by_key(|v| (v.seq, v.version)).map(|v| (v.version, v.digest));
                if got != want {
                    failures.push(json!({"class": "element-at", "what": format!("element_at({}, {s}) = {:?}, the log says {:?}", e.id, got, want), "history": h, "statements": stmts.clone()}));
                }
                aq.push(tup(vec![json!(eid(&e.id)), json!(s), match got { Some((v, dg)) => some(tup(vec![json!(v), json!(dg)])), None => Value::Null }]));
            }
        }
        let mut kq = vec![];
        for (kind, _, _) in KINDS {
            for s in 0..=d.seq {
                let got = store.elements_at(DEFAULT_SPACE, kind_of(kind), s).await.unwrap_or_default();
                let obs: Vec<Value> = got.iter().map(|x| { let (v, dg) = rowdig(x); tup(vec![json!(eid(&x.id().to_string())), json!(v), json!(dg)]) }).collect();
                kq.push(tup(vec![json!(kind_code(kind)), json!(s), json!(obs)]));
            }
        }
        let mut ts = vec![];
        let mut txs = vec![];
        for j in &d.journal {
            let got = store.seq_at_time(DEFAULT_SPACE, &j.committed_at).await.unwrap_or(u64::MAX);
            ts.push(tup(vec![json!(time_rank(&j.committed_at)), json!(got)]));
            let got = store.seq_of_transaction(DEFAULT_SPACE, &j.tx_id).await.ok();
            txs.push(tup(vec![json!(j.seq), match got { Some(x) => some(json!(x)), None => Value::Null }]));
        }
        let got = store.seq_at_time(DEFAULT_SPACE, "2000-01-01T00:00:00.000Z").await.unwrap_or(u64::MAX);
        ts.push(tup(vec![json!(time_rank("2000-01-01T00:00:00.000Z")), json!(got)]));
        let got = store.seq_of_transaction(DEFAULT_SPACE, &format!("{DEFAULT_SPACE}#{}", d.seq + 7)).await.ok();
        txs.push(tup(vec![json!(d.seq + 7), match got { Some(x) => some(json!(x)), None => Value::Null }]));
        let vl: Vec<Value> = d.vlog.iter().map(vrow_term).collect();
        let jl = space_term(&d)["a"][1].clone();
        writeln!(out, "{}", json!({"kind": "element_at", "case": tup(vec![json!(vl), json!(aq)]), "history": h, "queries": aq.len()})).unwrap();
        writeln!(out, "{}", json!({"kind": "elements_at", "case": tup(vec![json!(vl), json!(kq)]), "history": h, "queries": kq.len()})).unwrap();
        writeln!(out, "{}", json!({"kind": "coordinates", "case": tup(vec![jl, json!(ts), json!(txs)]), "history": h})).unwrap();
    }
    nontrivial.sort();
    nontrivial.dedup();
    let nfail = failures.len();
    let mut failure_classes: BTreeMap<String, usize> = BTreeMap::new();
    for f in &failures {
        *failure_classes.entry(f["class"].as_str().unwrap_or("").to_string()).or_default() += 1;
    }
    // keep a few of every class
    let mut kept: BTreeMap<String, usize> = BTreeMap::new();
    failures.retain(|f| {
        let n = kept.entry(f["class"].as_str().unwrap_or("").to_string()).or_default();
        *n += 1;
        *n <= 4
    });
    let summary = json!({"kind": "summary", "histories": histories, "commits": commits, "purges": purges, "schema_activations": activations, "answers_rebaselined_by_purge": rebaselined, "replays": replays, "by_family": by_family,
                         "by_form": by_form, "later_change_ops": later_kinds, "distinct_nontrivial": nontrivial.len(),
                         "battery": bat.iter().map(|b| b.1.clone()).collect::<Vec<_>>(), "samples": samples,
                         "oracle_failures": nfail, "failure_classes": failure_classes, "failures": failures});
    writeln!(out, "{summary}").unwrap();
    out.flush().unwrap();
}
