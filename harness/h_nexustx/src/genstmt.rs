//! Generator of KML statements over the cognitive-memory profile: multi-clause blocks with forward
//! references, UPSERT / ENSURE hits and misses, failing EXPECT guards, clauses that fail first / middle /
//! last, conflicts only the commit can see, and single mutations of existing elements.
use crate::world::Dump;
use h_common::Rng;
use serde_json::{Map, Value, json};

#[derive(Clone, Debug)]
pub struct Stmt {
    pub text: String,
    pub params: Option<Value>,
    pub dry: bool,
    /// what the generator was aiming at (for the input distribution only)
    pub tag: String,
}

/// What the generator knows about the space: read back from the last dump.
#[derive(Default, Clone)]
pub struct Mirror {
    pub persons: Vec<(String, String, String, u64)>, // id, key, state, version
    pub prefs: Vec<(String, String, u64)>,           // id, state, version
    pub props: Vec<(String, String)>,                // id, subject id
    pub assertions: Vec<(String, String, String)>,   // id, proposition id, status
    pub evidence: Vec<(String, String)>,             // id, status
    pub activities: Vec<(String, String)>,           // id, status
    pub all: Vec<(String, &'static str, String, u64)>, // id, kind, engine state, version
}

impl Mirror {
    pub fn from_dump(d: &Dump) -> Mirror {
        let mut m = Mirror::default();
        for e in &d.elems {
            let s = |k: &str| e.row.get(k).and_then(Value::as_str).unwrap_or("").to_string();
            if e.state == "pending" {
                continue;
            }
            m.all.push((e.id.clone(), e.kind, e.state.clone(), e.version));
            match e.kind {
                "concept" => {
                    if s("schema_ref").ends_with("/Person") {
                        m.persons.push((e.id.clone(), s("key"), e.state.clone(), e.version));
                    } else {
                        m.prefs.push((e.id.clone(), e.state.clone(), e.version));
                    }
                }
                "proposition" => {
                    let subj = e.row.get("subject").and_then(|x| x.get("id")).and_then(Value::as_str).unwrap_or("");
                    m.props.push((e.id.clone(), subj.to_string()));
                }
                "assertion" => m.assertions.push((e.id.clone(), s("proposition_id"), s("status"))),
                "evidence" => m.evidence.push((e.id.clone(), s("status"))),
                "activity" => m.activities.push((e.id.clone(), s("status"))),
                _ => {}
            }
        }
        m
    }
    fn any_concept(&self, rng: &mut Rng) -> Option<String> {
        let mut all: Vec<String> = self.persons.iter().map(|p| p.0.clone()).collect();
        all.extend(self.prefs.iter().map(|p| p.0.clone()));
        if all.is_empty() { None } else { Some(rng.pick(&all).clone()) }
    }
}

const KEYS: [&str; 5] = ["k0", "k1", "k2", "k3", "k4"];
const NAMES: [&str; 8] = ["Ann", "Bob", "Cy", "Dee", "Eve", "Fay", "Gus", "Hal"];
const THINGS: [&str; 6] = ["Dark", "Tea", "Jazz", "Rust", "Rain", "Maps"];

pub struct Gen {
    pub rng: Rng,
    pub n: usize,
    /// probability (percent) that a block gets a fault injected
    pub fault_pct: u64,
    pub dry_pct: u64,
    /// percent of statements that are a lifecycle operation on an existing element of any kind
    pub lifecycle_pct: u64,
    /// percent of statements that are a PURGE (0 for the C17 histories: the monitor's log is append-only)
    pub purge_pct: u64,
    /// percent of statements that name one tuple / one concept key several times in one block
    pub dup_pct: u64,
}

struct Block {
    clauses: Vec<String>,
    params: Map<String, Value>,
    persons: Vec<String>,  // handles bound to Person concepts
    concepts: Vec<String>, // every concept handle
    props: Vec<String>,
    evid: Vec<String>,
    tuples: Vec<(String, String, String)>,
    tag: Vec<&'static str>,
    h: usize,
}

impl Block {
    fn fresh(&mut self, p: &str) -> String {
        self.h += 1;
        format!("{p}{}", self.h)
    }
    fn param(&mut self, v: Value) -> String {
        let name = format!("p{}", self.params.len());
        self.params.insert(name.clone(), v);
        format!(":{name}")
    }
}

impl Gen {
    pub fn new(rng: Rng, fault_pct: u64, dry_pct: u64) -> Gen {
        Gen { rng, n: 0, fault_pct, dry_pct, lifecycle_pct: 12, purge_pct: 0, dup_pct: 12 }
    }

    pub fn next(&mut self, m: &Mirror) -> Stmt {
        self.n += 1;
        let r = self.rng.below(100);
        let empty = m.persons.is_empty();
        let mut s = if self.rng.below(100) < self.dup_pct {
            self.dup_block(m)
        } else if !empty && r < self.purge_pct {
            self.purge(m)
        } else if !empty && r < self.purge_pct + self.lifecycle_pct {
            self.lifecycle(m)
        } else if empty || r < 45 {
            self.block(m, false)
        } else if r < 60 {
            self.block(m, true)
        } else {
            self.single(m)
        };
        s.dry = self.rng.below(100) < self.dry_pct;
        if s.dry {
            s.tag = format!("dry:{}", s.tag);
        }
        s
    }

    fn person_clause(&mut self, b: &mut Block, m: &Mirror) {
        let h = b.fresh("c");
        let name = *self.rng.pick(&NAMES);
        let mut fields = String::new();
        if self.rng.chance(1, 3) {
            // a keyed concept: the key may already be taken (a conflict only the commit sees)
            let key = *self.rng.pick(&KEYS);
            if m.persons.iter().any(|p| p.1 == key) {
                b.tag.push("create-key-taken");
            }
            fields = format!(r#" SET FIELDS {{key: "{key}"}}"#);
        }
        let attrs = if self.rng.chance(1, 2) { format!(r#" SET ATTRIBUTES {{display_name: "{name}"}}"#) } else { String::new() };
        b.clauses.push(format!(r#"CREATE CONCEPT ?{h} {{ TYPE "Person" NAME "{name}{}"{fields}{attrs} }}"#, self.n));
        b.persons.push(h.clone());
        b.concepts.push(h);
    }

    fn pref_clause(&mut self, b: &mut Block) {
        let h = b.fresh("c");
        let name = *self.rng.pick(&THINGS);
        b.clauses.push(format!(r#"CREATE CONCEPT ?{h} {{ TYPE "Preference" NAME "{name}" }}"#));
        b.concepts.push(h);
    }

    fn upsert_clause(&mut self, b: &mut Block, m: &Mirror) {
        let h = b.fresh("u");
        let key = *self.rng.pick(&KEYS);
        let hit = m.persons.iter().find(|p| p.1 == key).cloned();
        let mut expect = String::new();
        match self.rng.below(6) {
            0 => {
                // a guard that holds
                let v = hit.as_ref().map(|p| p.3).unwrap_or(0);
                expect = format!(" EXPECT VERSION {v}");
                b.tag.push("upsert-expect-ok");
            }
            1 => {
                let v = hit.as_ref().map(|p| p.3 + 3).unwrap_or(2);
                expect = format!(" EXPECT VERSION {v}");
                b.tag.push("upsert-expect-fails");
            }
            _ => {}
        }
        b.tag.push(if hit.is_some() { "upsert-hit" } else { "upsert-miss" });
        let name = *self.rng.pick(&NAMES);
        b.clauses.push(format!(
            r#"UPSERT CONCEPT ?{h} {{ MATCH {{type: "Person", key: "{key}"}}{expect} SET FIELDS {{name: "{name}"}} SET ATTRIBUTES {{description: "d{}"}} }}"#,
            self.rng.below(3)
        ));
        b.persons.push(h.clone());
        b.concepts.push(h);
    }

    fn ensure_clause(&mut self, b: &mut Block, m: &Mirror) {
        // subject: a Person handle of this block (possibly declared later) or an existing Person
        let subj = if !b.persons.is_empty() && self.rng.chance(2, 3) {
            format!("?{}", self.rng.pick(&b.persons).clone())
        } else if let Some(p) = m.persons.first().map(|_| self.rng.pick(&m.persons).0.clone()) {
            b.param(json!(p))
        } else {
            return;
        };
        let obj = if !b.concepts.is_empty() && self.rng.chance(2, 3) {
            format!("?{}", self.rng.pick(&b.concepts).clone())
        } else if let Some(c) = m.any_concept(&mut self.rng) {
            b.param(json!(c))
        } else {
            return;
        };
        let pred = if self.rng.chance(3, 4) { "prefers" } else { "same_as" };
        let h = b.fresh("q");
        let mut expect = String::new();
        match self.rng.below(8) {
            0 => {
                expect = " EXPECT VERSION 0".into();
                b.tag.push("ensure-create-only");
            }
            1 => {
                expect = " EXPECT VERSION 7".into();
                b.tag.push("ensure-expect-fails");
            }
            _ => {}
        }
        let t = (subj.clone(), pred.to_string(), obj.clone());
        if b.tuples.contains(&t) {
            b.tag.push("ensure-duplicate-in-block");
        }
        b.tuples.push(t);
        b.clauses.push(format!(r#"ENSURE PROPOSITION ?{h} ({subj}, "{pred}", {obj}){expect}"#));
        b.props.push(h);
    }

    fn evidence_clause(&mut self, b: &mut Block) {
        let h = b.fresh("e");
        b.clauses.push(format!(
            r#"CREATE EVIDENCE ?{h} {{ SET FIELDS {{evidence_class: "user_statement", payload: "said {}", observed_at: "2026-08-1{}T09:00:00Z"}} }}"#,
            self.n,
            self.rng.below(9)
        ));
        b.evid.push(h);
    }

    fn assertion_clause(&mut self, b: &mut Block, m: &Mirror, break_it: bool) {
        let prop = if !b.props.is_empty() && self.rng.chance(3, 4) {
            format!("?{}", self.rng.pick(&b.props).clone())
        } else if !m.props.is_empty() {
            format!("\"{}\"", self.rng.pick(&m.props).0)
        } else {
            return;
        };
        let by = if !b.persons.is_empty() {
            format!("?{}", self.rng.pick(&b.persons).clone())
        } else if !m.persons.is_empty() {
            format!("\"{}\"", self.rng.pick(&m.persons).0)
        } else {
            return;
        };
        let h = b.fresh("a");
        let stance = *self.rng.pick(&["support", "reject", "uncertain"]);
        let conf = if break_it { "1.5".to_string() } else { format!("0.{}", 1 + self.rng.below(9)) };
        let ev = if !b.evid.is_empty() && self.rng.chance(2, 3) {
            format!(r#" SET STRUCTURAL {{ ("evidence", ?{}) {{role: "support"}} }}"#, self.rng.pick(&b.evid).clone())
        } else {
            String::new()
        };
        b.clauses.push(format!(
            r#"CREATE ASSERTION ?{h} {{ SET FIELDS {{proposition: {prop}, asserted_by: {by}, stance: "{stance}", mode: "stated", confidence: {conf}}}{ev} }}"#
        ));
    }

    fn activity_clause(&mut self, b: &mut Block) {
        let h = b.fresh("v");
        let out = if !b.evid.is_empty() {
            format!(r#" SET STRUCTURAL {{ ("outputs", ?{}) }}"#, self.rng.pick(&b.evid).clone())
        } else {
            String::new()
        };
        b.clauses.push(format!(r#"CREATE ACTIVITY ?{h} {{ SET FIELDS {{activity_class: "formation"}}{out} }}"#));
    }

    /// A mutation of an existing element, as a clause.
    fn existing_clause(&mut self, b: &mut Block, m: &Mirror, fail: bool) -> bool {
        if self.rng.chance(1, 3) {
            return self.lifecycle_clause(b, m, fail);
        }
        match self.rng.below(6) {
            0 if !m.persons.is_empty() => {
                let p = self.rng.pick(&m.persons).clone();
                let ev = if fail { p.3 + 5 } else { p.3 };
                let guard = if fail || self.rng.chance(1, 2) { format!(" EXPECT VERSION {ev}") } else { String::new() };
                b.clauses.push(format!(r#"UPDATE "{}"{guard} SET FIELDS {{name: "{}{}"}}"#, p.0, self.rng.pick(&NAMES), self.rng.below(4)));
                b.tag.push(if fail { "update-expect-fails" } else { "update" });
                true
            }
            1 if !m.prefs.is_empty() => {
                let p = self.rng.pick(&m.prefs).clone();
                let st = if fail { if p.1 == "active" { "archived" } else { "active" } } else { p.1.as_str() };
                let guard = if fail || self.rng.chance(1, 2) { format!(r#" EXPECT STATE "{st}""#) } else { String::new() };
                let verb = if self.rng.chance(2, 3) { "ARCHIVE" } else { "TOMBSTONE" };
                b.clauses.push(format!(r#"{verb} "{}"{guard}"#, p.0));
                b.tag.push(if fail { "remove-expect-fails" } else { "remove" });
                true
            }
            2 if !m.assertions.is_empty() => {
                let a = self.rng.pick(&m.assertions).clone();
                let st = if fail { if a.2 == "active" { "retracted" } else { "active" } } else { a.2.as_str() };
                let guard = if fail || self.rng.chance(1, 2) { format!(r#" EXPECT STATE "{st}""#) } else { String::new() };
                b.clauses.push(format!(r#"RETRACT ASSERTION "{}"{guard}"#, a.0));
                b.tag.push(if fail { "retract-expect-fails" } else { "retract" });
                true
            }
            3 if !m.persons.is_empty() => {
                let p = self.rng.pick(&m.persons).clone();
                if fail {
                    b.clauses.push(format!(r#"UPDATE "{}" SET FIELDS {{key: "moved"}}"#, p.0));
                    b.tag.push("update-immutable");
                } else {
                    b.clauses.push(format!(
                        r#"UPDATE "{}" SET FACET "MnemonicState" {{salience: 0.{}}}"#,
                        p.0,
                        1 + self.rng.below(9)
                    ));
                    b.tag.push("update-facet");
                }
                true
            }
            4 if !m.persons.is_empty() => {
                let p = self.rng.pick(&m.persons).clone();
                let days = if fail { "not-a-date".to_string() } else { format!("2030-01-0{}T00:00:00Z", 1 + self.rng.below(8)) };
                b.clauses.push(format!(r#"SET RETENTION "{}" {{retention_class: "standard", expires_at: "{days}"}}"#, p.0));
                b.tag.push(if fail { "retention-bad" } else { "retention" });
                true
            }
            5 if !m.activities.is_empty() => {
                let a = self.rng.pick(&m.activities).clone();
                let to = if fail { "completed" } else { *self.rng.pick(&["running", "completed", "failed"]) };
                let guard = if fail { r#" EXPECT STATE "no-such-status""# } else { "" };
                b.clauses.push(format!(r#"TRANSITION ACTIVITY "{}" TO "{to}"{guard}"#, a.0));
                b.tag.push(if fail { "transition-expect-fails" } else { "transition" });
                true
            }
            _ => false,
        }
    }

    fn block(&mut self, m: &Mirror, with_existing: bool) -> Stmt {
        let mut b = Block {
            clauses: vec![],
            params: Map::new(),
            persons: vec![],
            concepts: vec![],
            props: vec![],
            evid: vec![],
            tuples: vec![],
            tag: vec![],
            h: 0,
        };
        let n = 2 + self.rng.below(6) as usize;
        // declare first, so that later clauses can pick handles; the final order is shuffled
        self.person_clause(&mut b, m);
        if self.rng.chance(2, 3) {
            self.pref_clause(&mut b);
        }
        for _ in 0..n {
            match self.rng.below(10) {
                0 => self.person_clause(&mut b, m),
                1 => self.pref_clause(&mut b),
                2 | 3 => self.upsert_clause(&mut b, m),
                4 | 5 | 6 => self.ensure_clause(&mut b, m),
                7 => self.evidence_clause(&mut b),
                8 => self.assertion_clause(&mut b, m, false),
                _ => self.activity_clause(&mut b),
            }
        }
        if with_existing {
            for _ in 0..1 + self.rng.below(2) {
                self.existing_clause(&mut b, m, false);
            }
        }
        // forward references: clause order carries no meaning
        let mut clauses = std::mem::take(&mut b.clauses);
        self.rng.shuffle(&mut clauses);
        b.clauses = clauses;
        let mut tag = String::from(if with_existing { "block+existing" } else { "block" });
        if self.rng.below(100) < self.fault_pct {
            // one failing clause at the first / a middle / the last position
            let before = b.clauses.len();
            let fault = self.rng.below(9);
            let mut extra = Block {
                clauses: vec![],
                params: std::mem::take(&mut b.params),
                persons: b.persons.clone(),
                concepts: b.concepts.clone(),
                props: b.props.clone(),
                evid: b.evid.clone(),
                tuples: b.tuples.clone(),
                tag: vec![],
                h: 100,
            };
            let name = match fault {
                0 => {
                    extra.clauses.push(r#"CREATE CONCEPT ?bad { TYPE "Spaceship" NAME "X" }"#.to_string());
                    "fault-unknown-type"
                }
                1 => {
                    extra.clauses.push(format!(r#"CREATE CONCEPT ?{} {{ TYPE "Person" NAME "Twin" }}"#, b.persons[0]));
                    "fault-duplicate-handle"
                }
                2 => {
                    // two concepts of one type claiming one key: only the commit can see it
                    extra.clauses.push(r#"CREATE CONCEPT ?t1 { TYPE "Preference" NAME "T1" SET FIELDS {key: "twin"} }"#.to_string());
                    extra.clauses.push(r#"CREATE CONCEPT ?t2 { TYPE "Preference" NAME "T2" SET FIELDS {key: "twin"} }"#.to_string());
                    "fault-key-twice-in-block"
                }
                3 => {
                    extra.clauses.push(r#"UPSERT CONCEPT ?t1 { MATCH {type: "Preference", key: "up-twin"} SET FIELDS {name: "A"} }"#.to_string());
                    extra.clauses.push(r#"UPSERT CONCEPT ?t2 { MATCH {type: "Preference", key: "up-twin"} SET FIELDS {name: "B"} }"#.to_string());
                    "fault-upsert-twice-in-block"
                }
                4 => {
                    self.assertion_clause(&mut extra, m, true);
                    "fault-confidence-range"
                }
                5 => {
                    // prefers needs a Person subject
                    if let Some(pref) = b.concepts.iter().find(|c| !b.persons.contains(c)).cloned() {
                        extra.clauses.push(format!(r#"ENSURE PROPOSITION ?badq (?{pref}, "prefers", ?{})"#, b.persons[0]));
                    } else {
                        extra.clauses.push(r#"CREATE CONCEPT ?bad { TYPE "Event" NAME "no summary" }"#.to_string());
                    }
                    "fault-schema-validation"
                }
                6 => {
                    extra.clauses.push(r#"CREATE EVIDENCE ?bade { SET FIELDS {payload: "no class"} }"#.to_string());
                    "fault-missing-required"
                }
                7 => {
                    if !self.existing_clause(&mut extra, m, true) {
                        extra.clauses.push(r#"ARCHIVE "C-999999""#.to_string());
                    }
                    "fault-guard-on-existing"
                }
                _ => {
                    extra.clauses.push(r#"CREATE CONCEPT ?bad { TYPE "Person" NAME "R" SET FIELDS {retention: {expires_at: "soon"}} }"#.to_string());
                    "fault-bad-timestamp"
                }
            };
            b.params = std::mem::take(&mut extra.params);
            let pos = match self.rng.below(3) {
                0 => 0,
                1 => before / 2,
                _ => before,
            };
            for (i, c) in extra.clauses.into_iter().enumerate() {
                b.clauses.insert((pos + i).min(b.clauses.len()), c);
            }
            tag = format!("{tag}:{name}@{}", ["first", "middle", "last"][if pos == 0 { 0 } else if pos == before { 2 } else { 1 }]);
            for t in extra.tag {
                b.tag.push(t);
            }
        }
        for t in &b.tag {
            tag.push(':');
            tag.push_str(t);
        }
        let text = format!("MUTATE {{\n  {}\n}}", b.clauses.join("\n  "));
        Stmt { text, params: if b.params.is_empty() { None } else { Some(Value::Object(b.params)) }, dry: false, tag }
    }

    /// ARCHIVE / TOMBSTONE / RETRACT of an existing element of ANY kind, propositions first.
    fn lifecycle_clause(&mut self, b: &mut Block, m: &Mirror, fail: bool) -> bool {
        if m.all.is_empty() {
            return false;
        }
        let want = *self.rng.pick(&["proposition", "proposition", "proposition", "assertion", "assertion", "evidence", "activity", "concept", "concept"]);
        let pool: Vec<&(String, &'static str, String, u64)> = m.all.iter().filter(|e| e.1 == want).collect();
        let e = if pool.is_empty() { self.rng.pick(&m.all).clone() } else { (*self.rng.pick(&pool)).clone() };
        let st = if fail { if e.2 == "active" { "archived".to_string() } else { "active".to_string() } } else { e.2.clone() };
        let guard = if fail || self.rng.chance(1, 3) { format!(r#" EXPECT STATE "{st}""#) } else { String::new() };
        if e.1 == "assertion" && !fail && self.rng.chance(1, 3) {
            b.clauses.push(format!(r#"RETRACT ASSERTION "{}""#, e.0));
            b.tag.push("retract");
            return true;
        }
        let verb = if self.rng.chance(3, 5) { "ARCHIVE" } else { "TOMBSTONE" };
        b.clauses.push(format!(r#"{verb} "{}"{guard}"#, e.0));
        b.tag.push(match (verb, e.1) {
            ("ARCHIVE", "proposition") => "archive-proposition",
            ("TOMBSTONE", "proposition") => "tombstone-proposition",
            ("ARCHIVE", "assertion") => "archive-assertion",
            ("TOMBSTONE", "assertion") => "tombstone-assertion",
            ("ARCHIVE", "evidence") => "archive-evidence",
            ("TOMBSTONE", "evidence") => "tombstone-evidence",
            ("ARCHIVE", "activity") => "archive-activity",
            ("TOMBSTONE", "activity") => "tombstone-activity",
            ("ARCHIVE", _) => "archive-concept",
            _ => "tombstone-concept",
        });
        true
    }

    fn empty_block() -> Block {
        Block { clauses: vec![], params: Map::new(), persons: vec![], concepts: vec![], props: vec![], evid: vec![], tuples: vec![], tag: vec![], h: 0 }
    }

    fn lifecycle(&mut self, m: &Mirror) -> Stmt {
        let mut b = Self::empty_block();
        let fail = self.rng.below(100) < self.fault_pct;
        let n = 1 + self.rng.below(2);
        for _ in 0..n {
            self.lifecycle_clause(&mut b, m, false);
        }
        if fail {
            self.lifecycle_clause(&mut b, m, true);
        }
        if b.clauses.is_empty() {
            return self.block(m, false);
        }
        let text = if b.clauses.len() == 1 { b.clauses[0].clone() } else { format!("MUTATE {{\n  {}\n}}", b.clauses.join("\n  ")) };
        Stmt { text, params: None, dry: false, tag: format!("lifecycle:{}{}", b.tag.join(":"), if fail { ":guard-fails" } else { "" }) }
    }

    fn purge(&mut self, m: &Mirror) -> Stmt {
        let e = self.rng.pick(&m.all).clone();
        let policy = match self.rng.below(3) {
            0 => r#" REFERENCE POLICY "deny_if_referenced""#,
            _ => "",
        };
        Stmt { text: format!(r#"PURGE "{}"{policy} CONFIRM "PURGE""#, e.0), params: None, dry: false, tag: format!("purge:{}", e.1) }
    }

    /// One not-yet-committed (or committed) tuple named two or three times in one block, in every spelling:
    /// anonymous / handled ENSURE, ASSERT sugar with and without a handle, endpoints written as handles of
    /// this block, as handles bound by UPSERT-by-id, as id parameters (string or {id: ..} object); clause
    /// order shuffled, other clauses in between. And one Concept key claimed twice via CREATE / UPSERT.
    fn dup_block(&mut self, m: &Mirror) -> Stmt {
        let mut b = Self::empty_block();
        let mut tag = String::from("dup");
        if self.rng.chance(1, 4) {
            // the same (type, key) claimed twice
            let key = format!("dk{}", self.rng.below(3));
            let ty = *self.rng.pick(&["Person", "Preference"]);
            for i in 0..2 {
                let h = b.fresh("k");
                if self.rng.chance(1, 2) {
                    b.clauses.push(format!(r#"CREATE CONCEPT ?{h} {{ TYPE "{ty}" NAME "K{i}" SET FIELDS {{key: "{key}"}} }}"#));
                    tag.push_str(":key-create");
                } else {
                    b.clauses.push(format!(r#"UPSERT CONCEPT ?{h} {{ MATCH {{type: "{ty}", key: "{key}"}} SET FIELDS {{name: "U{i}"}} }}"#));
                    tag.push_str(":key-upsert");
                }
            }
            if self.rng.chance(1, 2) {
                self.evidence_clause(&mut b);
            }
        } else {
            let fresh = m.persons.is_empty() || self.rng.chance(1, 2);
            let existing_s = if fresh { None } else { Some(self.rng.pick(&m.persons).0.clone()) };
            let existing_o = if fresh { None } else { m.any_concept(&mut self.rng) };
            let (mut hs, mut ho) = (String::new(), String::new());
            if fresh {
                hs = b.fresh("s");
                ho = b.fresh("o");
                b.clauses.push(format!(r#"CREATE CONCEPT ?{hs} {{ TYPE "Person" NAME "S{}" }}"#, self.n));
                b.clauses.push(format!(r#"CREATE CONCEPT ?{ho} {{ TYPE "Preference" NAME "O{}" }}"#, self.n));
                tag.push_str(":fresh-endpoints");
            } else {
                tag.push_str(":existing-endpoints");
            }
            let pred = if self.rng.chance(2, 3) { "prefers" } else { "same_as" };
            let namings = 2 + self.rng.below(2);
            let mut upsert_handles: Vec<(String, String)> = vec![]; // (id, handle) bound once per block
            for _ in 0..namings {
                let mut endpoint = |this: &mut Gen, b: &mut Block, fresh_h: &str, id: &Option<String>, tag: &mut String| -> String {
                    match id {
                        None => format!("?{fresh_h}"),
                        Some(id) => match this.rng.below(3) {
                            0 => {
                                tag.push_str(":ep-param");
                                b.param(json!(id))
                            }
                            1 => {
                                tag.push_str(":ep-param-object");
                                b.param(json!({"id": id}))
                            }
                            _ => {
                                tag.push_str(":ep-upsert-handle");
                                if let Some((_, h)) = upsert_handles.iter().find(|(i, _)| i == id) {
                                    format!("?{h}")
                                } else {
                                    let h = b.fresh("x");
                                    b.clauses.push(format!(r#"UPSERT CONCEPT ?{h} {{ MATCH {{id: "{id}"}} SET ATTRIBUTES {{description: "seen{}"}} }}"#, this.rng.below(2)));
                                    upsert_handles.push((id.clone(), h.clone()));
                                    format!("?{h}")
                                }
                            }
                        },
                    }
                };
                let s = endpoint(self, &mut b, &hs, &existing_s, &mut tag);
                let o = endpoint(self, &mut b, &ho, &existing_o, &mut tag);
                match self.rng.below(4) {
                    0 => {
                        b.clauses.push(format!(r#"ENSURE PROPOSITION ({s}, "{pred}", {o})"#));
                        tag.push_str(":anon-ensure");
                    }
                    1 => {
                        let h = b.fresh("q");
                        b.clauses.push(format!(r#"ENSURE PROPOSITION ?{h} ({s}, "{pred}", {o})"#));
                        tag.push_str(":handled-ensure");
                    }
                    2 => {
                        b.clauses.push(format!(r#"ASSERT ({s}, "{pred}", {o}) {{ by: {s}, mode: "stated", confidence: 0.{} }}"#, 1 + self.rng.below(9)));
                        tag.push_str(":anon-assert");
                    }
                    _ => {
                        let h = b.fresh("a");
                        b.clauses.push(format!(r#"ASSERT ?{h} ({s}, "{pred}", {o}) {{ by: {s}, mode: "observed", stance: "reject" }}"#));
                        tag.push_str(":handled-assert");
                    }
                }
            }
            for _ in 0..self.rng.below(3) {
                match self.rng.below(3) {
                    0 => self.evidence_clause(&mut b),
                    1 => self.pref_clause(&mut b),
                    _ => self.activity_clause(&mut b),
                }
            }
        }
        let mut clauses = std::mem::take(&mut b.clauses);
        self.rng.shuffle(&mut clauses);
        let text = format!("MUTATE {{\n  {}\n}}", clauses.join("\n  "));
        Stmt { text, params: if b.params.is_empty() { None } else { Some(Value::Object(b.params)) }, dry: false, tag }
    }

    fn single(&mut self, m: &Mirror) -> Stmt {
        let mut b = Block {
            clauses: vec![],
            params: Map::new(),
            persons: vec![],
            concepts: vec![],
            props: vec![],
            evid: vec![],
            tuples: vec![],
            tag: vec![],
            h: 0,
        };
        let r = self.rng.below(12);
        let fail = self.rng.below(100) < self.fault_pct;
        let mut tag = String::from("single");
        match r {
            0 | 1 if m.assertions.iter().any(|a| a.2 == "active") => {
                // supersede: a new assertion about the same (or, to fail, another) proposition
                let old = m.assertions.iter().filter(|a| a.2 == "active").nth(0).cloned().unwrap();
                let prop = if fail {
                    m.props.iter().find(|p| p.0 != old.1).map(|p| p.0.clone()).unwrap_or(old.1.clone())
                } else {
                    old.1.clone()
                };
                let by = m.persons.first().map(|p| p.0.clone()).unwrap_or_default();
                b.clauses.push(format!(
                    r#"CREATE ASSERTION ?n {{ SET FIELDS {{proposition: "{prop}", asserted_by: "{by}", stance: "reject", mode: "stated", confidence: 0.{}}} }}"#,
                    1 + self.rng.below(9)
                ));
                b.clauses.push(format!(r#"SUPERSEDE ASSERTION "{}" BY ?n"#, old.0));
                tag = format!("supersede{}", if fail && prop != old.1 { "-mismatch" } else { "" });
            }
            2 if m.evidence.len() >= 1 => {
                let old = self.rng.pick(&m.evidence).clone();
                b.clauses.push(r#"CREATE EVIDENCE ?fix { SET FIELDS {evidence_class: "user_statement", payload: "corrected"} }"#.to_string());
                if fail {
                    b.clauses.push(r#"CORRECT EVIDENCE ?fix BY ?fix"#.to_string());
                    tag = "correct-self".into();
                } else {
                    b.clauses.push(format!(r#"CORRECT EVIDENCE "{}" BY ?fix"#, old.0));
                    tag = "correct".into();
                }
            }
            3 | 4 if m.persons.len() >= 2 => {
                let a = self.rng.pick(&m.persons).clone();
                let c = if fail { a.clone() } else { self.rng.pick(&m.persons).clone() };
                b.clauses.push(format!(r#"MERGE CONCEPT "{}" INTO "{}""#, a.0, c.0));
                tag = if a.0 == c.0 { "merge-self".into() } else { "merge".into() };
            }
            5 if !m.assertions.is_empty() => {
                let a = self.rng.pick(&m.assertions).clone();
                b.clauses.push(format!(r#"UPDATE "{}" SET FIELDS {{stance: "reject"}}"#, a.0));
                tag = "update-epistemic".into();
            }
            6 if !m.props.is_empty() => {
                let p = self.rng.pick(&m.props).clone();
                b.clauses.push(format!(r#"UPDATE "{}" SET ATTRIBUTES {{note: "n{}"}}"#, p.0, self.rng.below(3)));
                tag = "update-proposition".into();
            }
            7 => {
                b.clauses.push(format!(
                    r#"UPDATE ?c SET ATTRIBUTES {{description: "bulk{}"}} WHERE {{ ?c CONCEPT {{type: "Person"}} }} LIMIT {}"#,
                    self.rng.below(3),
                    1 + self.rng.below(3)
                ));
                tag = "update-where".into();
            }
            _ => {
                if !self.existing_clause(&mut b, m, fail) {
                    return self.block(m, false);
                }
                tag = format!("single:{}", b.tag.join(":"));
            }
        }
        if b.clauses.is_empty() {
            return self.block(m, false);
        }
        let text = if b.clauses.len() == 1 { b.clauses[0].clone() } else { format!("MUTATE {{\n  {}\n}}", b.clauses.join("\n  ")) };
        Stmt { text, params: if b.params.is_empty() { None } else { Some(Value::Object(b.params)) }, dry: false, tag }
    }
}
