//! One CognitiveNexus over an in-memory object store, the KIP text runner, and the
//! full observable dump used by the C17 monitor and the C18 replay.
use anda_cognitive_nexus::{
    CognitiveNexus,
    nexus::DEFAULT_SPACE,
    profiles::COGNITIVE_MEMORY,
    rows::*,
    schema::{PackageState, SchemaLock, SchemaPackage},
};
use anda_db::database::{AndaDB, DBConfig};
use anda_kip::{Executor, Request, RequestOptions, TopLevelStatus};
use object_store::memory::InMemory;
use serde::de::DeserializeOwned;
use serde_json::{Value, json};
use std::collections::BTreeMap;
use std::sync::Arc;

pub const PROFILE_ID: &str = "kip://profiles/cognitive-memory";

/// 62-bit content hash (FNV-1a 64 + splitmix finaliser), printed as a non-negative integer.
pub fn h62(bytes: &[u8]) -> i64 {
    let mut h: u64 = 0xcbf29ce484222325;
    for b in bytes {
        h ^= *b as u64;
        h = h.wrapping_mul(0x100000001b3);
    }
    h ^= h >> 30;
    h = h.wrapping_mul(0xbf58476d1ce4e5b9);
    h ^= h >> 27;
    h = h.wrapping_mul(0x94d049bb133111eb);
    h ^= h >> 31;
    // never 0: 0 is the "no value" code of the Coq model
    ((h >> 2) as i64).max(1)
}

pub fn hjson(v: &Value) -> i64 {
    // serde_json maps are BTreeMaps here (no preserve_order feature): the text is canonical
    h62(serde_json::to_string(v).unwrap().as_bytes())
}

pub struct World {
    pub nexus: CognitiveNexus,
}

/// What one statement answered, reduced to what the monitor needs.
#[derive(Clone, Debug)]
pub struct Resp {
    /// "parse_error" | "refused" | "dry_run" | "committed" | "no_effect" | "read_ok"
    pub class: String,
    pub error_code: String,
    pub seq: Option<u64>,
    pub tx_id: Option<String>,
    pub committed_at: Option<String>,
    /// (element id, version) per change record of the response body
    pub changes: Vec<(String, u64, String)>,
    pub handles: BTreeMap<String, String>,
    pub raw: Value,
}

#[derive(Clone, Debug, PartialEq)]
pub struct ElemRow {
    pub id: String,
    pub kind: &'static str,
    pub doc: u64,
    pub state: String,
    pub version: u64,
    pub seq: u64,
    pub digest: i64,
    /// identity claim: tuple key of a proposition, (schema_ref, key) of a keyed concept
    pub ident: Option<String>,
    /// epistemic payload projection of an assertion / evidence record
    pub payload: Option<i64>,
    pub row: Value,
}

#[derive(Clone, Debug, PartialEq)]
pub struct JRow {
    pub doc: u64,
    pub seq: u64,
    pub tx_id: String,
    pub status: String,
    pub committed_at: String,
    pub changed: Vec<String>,
    pub changes: Vec<(String, u64)>,
    pub env_version: u64,
    pub digest: i64,
}

#[derive(Clone, Debug, PartialEq)]
pub struct VRow {
    pub doc: u64,
    pub element: String,
    pub kind: String,
    pub version: u64,
    pub seq: u64,
    pub tx_id: String,
    pub op: String,
    pub digest: i64,
    pub payload: Option<i64>,
    pub state: String,
}

#[derive(Clone, Debug, PartialEq)]
pub struct Dump {
    pub seq: u64,
    pub env_version: u64,
    pub elems: Vec<ElemRow>,
    pub journal: Vec<JRow>,
    pub vlog: Vec<VRow>,
    /// the other collections (space row without its seq, packages, environments)
    pub other: BTreeMap<String, i64>,
    /// canonical responses of the observation battery (query text -> digest)
    pub answers: BTreeMap<String, i64>,
    pub answers_raw: BTreeMap<String, Value>,
}

pub const KINDS: [(&str, &str, &str); 5] = [
    ("concept", "CONCEPT", "C"),
    ("proposition", "PROPOSITION", "P"),
    ("assertion", "ASSERTION", "A"),
    ("evidence", "EVIDENCE", "E"),
    ("activity", "ACTIVITY", "X"),
];
pub const STATES: [&str; 7] = ["active", "archived", "tombstoned", "merged", "quarantined", "purged", "pending"];

fn payload_projection(kind: &str, row: &Value) -> Option<i64> {
    let fields: &[&str] = match kind {
        "assertion" => &[
            "proposition_id", "asserted_by", "asserted_by_key", "stance", "mode", "confidence", "asserted_at",
            "valid_from", "valid_until", "evidence_refs", "evidence_ids", "context_refs",
        ],
        "evidence" => &[
            "evidence_class", "payload_mode", "payload_inline", "content_ref", "content_digest", "media_type",
            "observed_at", "source_refs", "source_keys", "generated_by",
        ],
        _ => return None,
    };
    let mut m = serde_json::Map::new();
    for f in fields {
        m.insert(f.to_string(), row.get(*f).cloned().unwrap_or(Value::Null));
    }
    Some(hjson(&Value::Object(m)))
}

fn ident_of(kind: &str, row: &Value) -> Option<String> {
    match kind {
        "proposition" => row.get("tuple_key").and_then(Value::as_str).map(|s| format!("T|{s}")),
        "concept" => {
            let key = row.get("key").and_then(Value::as_str).unwrap_or("");
            if key.is_empty() {
                None
            } else {
                Some(format!(
                    "K|{}|{}|{}",
                    row.get("space").and_then(Value::as_str).unwrap_or(""),
                    row.get("schema_ref").and_then(Value::as_str).unwrap_or(""),
                    key
                ))
            }
        }
        _ => None,
    }
}

/// Keys whose values legitimately move with the sequence counter or the wall clock of the *read*.
const MASKED: [&str; 6] = ["snapshot_seq", "snapshot_token", "snapshot", "generated_at", "now", "server_time"];

pub fn canon(v: &Value) -> Value {
    match v {
        Value::Object(m) => {
            let mut out = serde_json::Map::new();
            for (k, x) in m {
                if MASKED.contains(&k.as_str()) {
                    continue;
                }
                out.insert(k.clone(), canon(x));
            }
            Value::Object(out)
        }
        Value::Array(a) => Value::Array(a.iter().map(canon).collect()),
        other => other.clone(),
    }
}

impl World {
    pub async fn new(name: &str) -> World {
        let db = AndaDB::connect(
            Arc::new(InMemory::new()),
            DBConfig { name: name.to_string(), description: "verif".to_string(), ..Default::default() },
        )
        .await
        .expect("db");
        let nexus = CognitiveNexus::connect(Arc::new(db)).await.expect("nexus");
        nexus
            .install_package(&SchemaPackage::parse(COGNITIVE_MEMORY).expect("profile"), "verif")
            .await
            .expect("install");
        let mut lock = SchemaLock::default();
        lock.packages.insert(PROFILE_ID.to_string(), "2.0.0".to_string());
        lock.states.insert(PROFILE_ID.to_string(), PackageState::Active);
        nexus.activate_schema(DEFAULT_SPACE, lock).await.expect("activate");
        World { nexus }
    }

    /// Runs one command text through the real parser and Executor.
    pub async fn run(&self, text: &str, dry_run: bool) -> Resp {
        self.run_with(text, dry_run, None).await
    }

    pub async fn run_with(&self, text: &str, dry_run: bool, params: Option<&Value>) -> Resp {
        let mut request = Request::single(text);
        if let Some(Value::Object(p)) = params {
            request.operations[0].parameters = Some(p.clone());
        }
        if dry_run {
            request.options = Some(RequestOptions { dry_run: Some(true), ..Default::default() });
        }
        let parsed = match anda_kip::parse_kip(text) {
            Ok(p) => p,
            Err(err) => {
                return Resp {
                    class: "parse_error".into(),
                    error_code: format!("{err}").chars().take(80).collect(),
                    seq: None,
                    tx_id: None,
                    committed_at: None,
                    changes: vec![],
                    handles: BTreeMap::new(),
                    raw: Value::Null,
                };
            }
        };
        let is_kml = matches!(parsed, anda_kip::Command::Kml(_));
        let response = self.nexus.execute(parsed, &request, &request.operations[0]).await;
        let raw = serde_json::to_value(&response).unwrap_or(Value::Null);
        let error_code = response
            .results
            .iter()
            .find_map(|r| r.error.as_ref().map(|e| e.code.to_string()))
            .or(response.error.as_ref().map(|e| e.code.to_string()))
            .unwrap_or_default();
        let ok = response.status == TopLevelStatus::Succeeded;
        let body = response.first_result().cloned().unwrap_or(Value::Null);
        let mut changes = vec![];
        let mut handles = BTreeMap::new();
        if let Some(cs) = body.get("changes").and_then(Value::as_array) {
            for c in cs {
                changes.push((
                    c.get("id").and_then(Value::as_str).unwrap_or("").to_string(),
                    c.get("version").and_then(Value::as_u64).unwrap_or(0),
                    c.get("op").and_then(Value::as_str).unwrap_or("").to_string(),
                ));
            }
        }
        if let Some(hs) = body.get("handles").and_then(Value::as_object) {
            for (k, v) in hs {
                handles.insert(k.clone(), v.as_str().unwrap_or("").to_string());
            }
        }
        let receipt = response.receipt.as_ref();
        let status = receipt.map(|r| format!("{:?}", r.status)).unwrap_or_default();
        let class = if !ok {
            "refused"
        } else if !is_kml {
            "read_ok"
        } else if dry_run {
            "dry_run"
        } else if status == "Committed" {
            "committed"
        } else if status == "NoEffect" {
            "no_effect"
        } else {
            "other"
        };
        Resp {
            class: class.into(),
            error_code,
            seq: receipt.and_then(|r| r.space_seq),
            tx_id: receipt.and_then(|r| r.tx_id.clone()),
            committed_at: receipt.and_then(|r| r.committed_at.clone()),
            changes,
            handles,
            raw,
        }
    }

    /// A read command's canonical answer (results or the error code).
    pub async fn ask(&self, text: &str) -> Value {
        let r = self.run(text, false).await;
        if r.class == "parse_error" {
            // the message quotes the rest of the text, which differs between a query and its AS OF form
            return json!({"parse_error": r.error_code.split(':').next().unwrap_or("")});
        }
        let results = r.raw.get("results").cloned().unwrap_or(Value::Null);
        let results = match results {
            Value::Array(items) => Value::Array(
                items
                    .into_iter()
                    .map(|mut it| {
                        // error messages may carry nothing we compare on; the code is the answer
                        if let Some(e) = it.get("error").cloned() {
                            if !e.is_null() {
                                it = json!({"error": e.get("code").cloned().unwrap_or(Value::Null)});
                            }
                        }
                        it
                    })
                    .collect(),
            ),
            other => other,
        };
        let seq_free = text.starts_with("DESCRIBE PRIMER") || text.starts_with("DESCRIBE EXECUTION CONTEXT") || text.starts_with("LIST SPACES");
        let results = if seq_free { strip_keys(&results, &["seq", "space_seq"]) } else { results };
        canon(&json!({
            "status": r.raw.get("status").cloned().unwrap_or(Value::Null),
            "results": results,
            "error": r.raw.get("error").and_then(|e| e.get("code")).cloned().unwrap_or(Value::Null),
            "next_cursor": r.raw.get("next_cursor").cloned().unwrap_or(Value::Null),
        }))
    }

    async fn rows<T: DeserializeOwned + serde::Serialize>(
        c: Arc<anda_db::collection::Collection>,
    ) -> Vec<(u64, Value)> {
        let mut out = vec![];
        for id in c.ids() {
            match c.get_as::<T>(id).await {
                Ok(row) => out.push((id, serde_json::to_value(&row).unwrap_or(Value::Null))),
                Err(err) => out.push((id, json!({"unreadable": format!("{err:?}")}))),
            }
        }
        out
    }

    /// Direct reads of the ten collections.
    pub async fn dump_store(&self) -> Dump {
        let s = &self.nexus.store;
        let mut elems = vec![];
        let per_kind: Vec<(&'static str, &'static str, Vec<(u64, Value)>)> = vec![
            ("concept", "C", Self::rows::<ConceptRow>(s.concepts()).await),
            ("proposition", "P", Self::rows::<PropositionRow>(s.propositions()).await),
            ("assertion", "A", Self::rows::<AssertionRow>(s.assertions()).await),
            ("evidence", "E", Self::rows::<EvidenceRow>(s.evidence()).await),
            ("activity", "X", Self::rows::<ActivityRow>(s.activities()).await),
        ];
        for (kind, _, rows) in per_kind {
            for (doc, row) in rows {
                let id = anda_cognitive_nexus::id::ElementId::new(kind_of(kind), doc).to_string();
                elems.push(ElemRow {
                    id,
                    kind,
                    doc,
                    state: row.get("state").and_then(Value::as_str).unwrap_or("").to_string(),
                    version: row.get("version").and_then(Value::as_u64).unwrap_or(0),
                    seq: row.get("seq").and_then(Value::as_u64).unwrap_or(0),
                    digest: hjson(&row),
                    ident: ident_of(kind, &row),
                    payload: payload_projection(kind, &row),
                    row,
                });
            }
        }
        let mut journal = vec![];
        for (doc, row) in Self::rows::<TransactionRow>(s.transactions()).await {
            let changed: Vec<String> = row
                .get("changed_ids")
                .and_then(Value::as_array)
                .map(|a| a.iter().filter_map(|x| x.as_str().map(str::to_string)).collect())
                .unwrap_or_default();
            let changes = row
                .get("changes")
                .and_then(Value::as_array)
                .map(|a| {
                    a.iter()
                        .map(|c| {
                            (
                                c.get("id").and_then(Value::as_str).unwrap_or("").to_string(),
                                c.get("version").and_then(Value::as_u64).unwrap_or(0),
                            )
                        })
                        .collect()
                })
                .unwrap_or_default();
            journal.push(JRow {
                doc,
                seq: row.get("seq").and_then(Value::as_u64).unwrap_or(0),
                tx_id: row.get("tx_id").and_then(Value::as_str).unwrap_or("").to_string(),
                status: row.get("status").and_then(Value::as_str).unwrap_or("").to_string(),
                committed_at: row.get("committed_at").and_then(Value::as_str).unwrap_or("").to_string(),
                changed,
                changes,
                env_version: row.get("schema_environment_version").and_then(Value::as_u64).unwrap_or(0),
                digest: hjson(&row),
            });
        }
        let mut vlog = vec![];
        for (doc, row) in Self::rows::<ElementVersionRow>(s.element_versions()).await {
            let kind = row.get("kind").and_then(Value::as_str).unwrap_or("").to_string();
            let inner = row.get("row").cloned().unwrap_or(Value::Null);
            vlog.push(VRow {
                doc,
                element: row.get("element").and_then(Value::as_str).unwrap_or("").to_string(),
                version: row.get("version").and_then(Value::as_u64).unwrap_or(0),
                seq: row.get("seq").and_then(Value::as_u64).unwrap_or(0),
                tx_id: row.get("tx_id").and_then(Value::as_str).unwrap_or("").to_string(),
                op: row.get("op").and_then(Value::as_str).unwrap_or("").to_string(),
                digest: hjson(&inner),
                payload: payload_projection(&kind, &inner),
                state: inner.get("state").and_then(Value::as_str).unwrap_or("").to_string(),
                kind,
            });
        }
        let mut other = BTreeMap::new();
        let mut seq = 0;
        let mut env_version = 0;
        for (doc, mut row) in Self::rows::<SpaceRow>(s.spaces()).await {
            if row.get("space_id").and_then(Value::as_str) == Some(DEFAULT_SPACE) {
                seq = row.get("seq").and_then(Value::as_u64).unwrap_or(0);
                env_version = row.get("schema_environment_version").and_then(Value::as_u64).unwrap_or(0);
            }
            // the one thing a refused statement may move
            if let Some(m) = row.as_object_mut() {
                m.remove("seq");
            }
            other.insert(format!("spaces/{doc}"), hjson(&row));
        }
        for (doc, row) in Self::rows::<SchemaPackageRow>(s.schema_packages()).await {
            other.insert(format!("schema_packages/{doc}"), hjson(&row));
        }
        for (doc, row) in Self::rows::<SchemaEnvRow>(s.schema_envs()).await {
            other.insert(format!("schema_envs/{doc}"), hjson(&row));
        }
        Dump {
            seq,
            env_version,
            elems,
            journal,
            vlog,
            other,
            answers: BTreeMap::new(),
            answers_raw: BTreeMap::new(),
        }
    }

    /// The observation battery: KQL over every kind and state, counts, tuple patterns,
    /// DESCRIBE / LIST / HISTORY / CHANGES.
    pub fn battery(d: &Dump) -> Vec<String> {
        let ids: Vec<String> = d.elems.iter().map(|e| e.id.clone()).collect();
        let txs: Vec<String> = d.journal.iter().map(|j| j.tx_id.clone()).collect();
        Self::battery_for(&ids, &txs)
    }

    pub fn battery_for(ids: &[String], txs: &[String]) -> Vec<String> {
        let mut q = vec![];
        for (_, kw, _) in KINDS {
            if kw == "PROPOSITION" {
                continue;
            }
            for st in STATES {
                q.push(format!(r#"FIND(?x) WHERE {{ ?x {kw} {{state: "{st}"}} }}"#));
            }
            q.push(format!(r#"FIND(COUNT(?x)) WHERE {{ ?x {kw} {{}} }}"#));
        }
        q.push(r#"FIND(?p) WHERE { ?p PROPOSITION (?s, ?pred, ?o) }"#.to_string());
        q.push(r#"FIND(?p, ?s, ?o) WHERE { ?p PROPOSITION (?s, "prefers", ?o) }"#.to_string());
        q.push(r#"FIND(COUNT(?p)) WHERE { ?p PROPOSITION (?s, "same_as", ?o) }"#.to_string());
        q.push(r#"FIND(?a.id, ?b.status) WHERE { ?a ASSERTION {} ?p PROPOSITION (?s, ?pred, ?o) ?b BELIEF (?p) }"#.to_string());
        q.push("DESCRIBE PRIMER".to_string());
        q.push("DESCRIBE EXECUTION CONTEXT".to_string());
        q.push("DESCRIBE SCHEMA ENVIRONMENT".to_string());
        q.push("LIST SPACES".to_string());
        q.push("LIST SCHEMA PACKAGES".to_string());
        q.push("HISTORY SPACE".to_string());
        q.push("CHANGES AFTER SEQ 0".to_string());
        for id in ids {
            q.push(format!(r#"HISTORY ELEMENT "{id}""#));
        }
        for tx in txs {
            q.push(format!(r#"DESCRIBE TRANSACTION "{tx}""#));
        }
        q
    }

    pub async fn dump(&self) -> Dump {
        let mut d = self.dump_store().await;
        for text in Self::battery(&d) {
            let a = self.ask(&text).await;
            d.answers.insert(text.clone(), hjson(&a));
            d.answers_raw.insert(text, a);
        }
        d
    }
}

/// The Space row's counter is the one thing a refused statement may move: the three META answers that
/// print it are compared without it.
pub fn strip_keys(v: &Value, keys: &[&str]) -> Value {
    match v {
        Value::Object(m) => Value::Object(
            m.iter().filter(|(k, _)| !keys.contains(&k.as_str())).map(|(k, x)| (k.clone(), strip_keys(x, keys))).collect(),
        ),
        Value::Array(a) => Value::Array(a.iter().map(|x| strip_keys(x, keys)).collect()),
        other => other.clone(),
    }
}

pub fn kind_of(kind: &str) -> anda_kip::ElementKind {
    match kind {
        "concept" => anda_kip::ElementKind::Concept,
        "proposition" => anda_kip::ElementKind::Proposition,
        "assertion" => anda_kip::ElementKind::Assertion,
        "evidence" => anda_kip::ElementKind::Evidence,
        _ => anda_kip::ElementKind::Activity,
    }
}
